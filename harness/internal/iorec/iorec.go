// Package iorec provides a recording wrapper around a disk.DiskManager and a simple in-memory
// disk manager that behaves like DiskManagerImpl (file semantics: reads beyond the end fail).
package iorec

import (
	"errors"
	"sync"
	"time"

	"github.com/ryogrid/SamehadaDB/lib/common"
	"github.com/ryogrid/SamehadaDB/lib/storage/disk"
	"github.com/ryogrid/SamehadaDB/lib/types"
)

// Op is one recorded I/O call.
type Op struct {
	Kind string // "P" page write, "L" log write, "GC" log truncation
	Page int32
	Data []byte
}

// Rec records every state-changing I/O call in order.  The mutex totally orders page and log events.
type Rec struct {
	Inner disk.DiskManager
	mu    sync.Mutex
	Ops   []Op
	// Hook, when set, is called (under the mutex) after every recorded op with its index.
	Hook func(idx int, op *Op)
	// Concurrent: do not serialise the device.  A log write is recorded when it has COMPLETED (the inner call has
	// returned), a page write when it is ISSUED (before the inner call); the mutex is held only while recording.
	// So the recorded order never shows a log write as durable before it was, nor a page write later than it began.
	Concurrent bool
	// LogDelay makes the log device slow (the write stays in flight for that long) in Concurrent mode.
	LogDelay time.Duration
}

func NewRec(inner disk.DiskManager) *Rec { return &Rec{Inner: inner} }

func (r *Rec) add(op Op) {
	r.Ops = append(r.Ops, op)
	if r.Hook != nil {
		r.Hook(len(r.Ops)-1, &r.Ops[len(r.Ops)-1])
	}
}

func (r *Rec) Snapshot() []Op {
	r.mu.Lock()
	defer r.mu.Unlock()
	return append([]Op{}, r.Ops...)
}

func (r *Rec) Len() int {
	r.mu.Lock()
	defer r.mu.Unlock()
	return len(r.Ops)
}

func (r *Rec) ReadPage(id types.PageID, b []byte) error { return r.Inner.ReadPage(id, b) }
func (r *Rec) WritePage(id types.PageID, b []byte) error {
	if r.Concurrent {
		r.mu.Lock()
		r.add(Op{Kind: "P", Page: int32(id), Data: append([]byte{}, b...)})
		r.mu.Unlock()
		return r.Inner.WritePage(id, b)
	}
	r.mu.Lock()
	defer r.mu.Unlock()
	err := r.Inner.WritePage(id, b)
	r.add(Op{Kind: "P", Page: int32(id), Data: append([]byte{}, b...)})
	return err
}
func (r *Rec) AllocatePage() types.PageID     { return r.Inner.AllocatePage() }
func (r *Rec) DeallocatePage(id types.PageID) { r.Inner.DeallocatePage(id) }
func (r *Rec) GetNumWrites() uint64           { return r.Inner.GetNumWrites() }
func (r *Rec) ShutDown()                      { r.Inner.ShutDown() }
func (r *Rec) Size() int64                    { return r.Inner.Size() }
func (r *Rec) RemoveDBFile()                  { r.Inner.RemoveDBFile() }
func (r *Rec) RemoveLogFile()                 { r.Inner.RemoveLogFile() }
func (r *Rec) WriteLog(b []byte) error {
	if r.Concurrent {
		if r.LogDelay > 0 {
			time.Sleep(r.LogDelay)
		}
		err := r.Inner.WriteLog(b)
		r.mu.Lock()
		r.add(Op{Kind: "L", Data: append([]byte{}, b...)})
		r.mu.Unlock()
		return err
	}
	r.mu.Lock()
	defer r.mu.Unlock()
	err := r.Inner.WriteLog(b)
	r.add(Op{Kind: "L", Data: append([]byte{}, b...)})
	return err
}
func (r *Rec) ReadLog(b []byte, off int32, n *uint32) bool { return r.Inner.ReadLog(b, off, n) }
func (r *Rec) GetLogFileSize() int64                        { return r.Inner.GetLogFileSize() }
func (r *Rec) GCLogFile() error {
	r.mu.Lock()
	defer r.mu.Unlock()
	err := r.Inner.GCLogFile()
	r.add(Op{Kind: "GC"})
	return err
}

// MemDisk is an in-memory DiskManager with DiskManagerImpl's file semantics.
type MemDisk struct {
	// OnWritePage, when set, is called after a page write has been performed and before WritePage returns
	// (outside the disk's own mutex): a driver uses it to act "while a write is in progress".
	OnWritePage func(id int)
	mu     sync.Mutex
	db     []byte
	log    []byte
	nextID types.PageID
}

func NewMemDisk() *MemDisk { return &MemDisk{} }

func (d *MemDisk) ReadPage(id types.PageID, b []byte) error {
	d.mu.Lock()
	defer d.mu.Unlock()
	off := int(id) * common.PageSize
	if off >= len(d.db) {
		return errors.New("I/O error past end of file")
	}
	n := copy(b, d.db[off:])
	if n < common.PageSize {
		for i := range b {
			b[i] = 0
		}
	}
	return nil
}
func (d *MemDisk) WritePage(id types.PageID, b []byte) error {
	d.mu.Lock()
	off := int(id) * common.PageSize
	if off+common.PageSize > len(d.db) {
		d.db = append(d.db, make([]byte, off+common.PageSize-len(d.db))...)
	}
	copy(d.db[off:], b[:common.PageSize])
	d.mu.Unlock()
	if d.OnWritePage != nil {
		d.OnWritePage(int(id))
	}
	return nil
}
func (d *MemDisk) AllocatePage() types.PageID {
	d.mu.Lock()
	defer d.mu.Unlock()
	r := d.nextID
	d.nextID++
	return r
}
func (d *MemDisk) DeallocatePage(types.PageID) {}

// NextID returns the id AllocatePage would hand out next.
func (d *MemDisk) NextID() int {
	d.mu.Lock()
	defer d.mu.Unlock()
	return int(d.nextID)
}
func (d *MemDisk) GetNumWrites() uint64        { return 0 }
func (d *MemDisk) ShutDown()                   {}
func (d *MemDisk) Size() int64 {
	d.mu.Lock()
	defer d.mu.Unlock()
	return int64(len(d.db))
}
func (d *MemDisk) RemoveDBFile()  {}
func (d *MemDisk) RemoveLogFile() {}
func (d *MemDisk) WriteLog(b []byte) error {
	d.mu.Lock()
	defer d.mu.Unlock()
	d.log = append(d.log, b...)
	return nil
}
func (d *MemDisk) ReadLog(b []byte, off int32, n *uint32) bool {
	d.mu.Lock()
	defer d.mu.Unlock()
	if int(off) >= len(d.log) {
		return false
	}
	*n = uint32(copy(b, d.log[off:]))
	return true
}
func (d *MemDisk) GetLogFileSize() int64 {
	d.mu.Lock()
	defer d.mu.Unlock()
	return int64(len(d.log))
}
func (d *MemDisk) GCLogFile() error {
	d.mu.Lock()
	defer d.mu.Unlock()
	d.log = nil
	return nil
}

// PageOnDisk returns the stored bytes of a page or nil when the page is beyond the end of the file.
func (d *MemDisk) PageOnDisk(id int) []byte {
	d.mu.Lock()
	defer d.mu.Unlock()
	off := id * common.PageSize
	if off+common.PageSize > len(d.db) {
		return nil
	}
	return append([]byte{}, d.db[off:off+common.PageSize]...)
}
