// Package eng wraps a real SamehadaDB instance for the verification drivers: statement execution
// with panic capture, explicit transactions through the real parser/planner/executors, statistics
// refresh, plan inspection and pin snapshots.  It observes; it never judges.
package eng

import (
	"fmt"
	"os"
	"runtime/debug"
	"sort"
	"strings"

	"github.com/ryogrid/SamehadaDB/lib/catalog"
	"github.com/ryogrid/SamehadaDB/lib/common"
	"github.com/ryogrid/SamehadaDB/lib/concurrency"
	"github.com/ryogrid/SamehadaDB/lib/execution/executors"
	"github.com/ryogrid/SamehadaDB/lib/execution/plans"
	"github.com/ryogrid/SamehadaDB/lib/parser"
	"github.com/ryogrid/SamehadaDB/lib/planner"
	"github.com/ryogrid/SamehadaDB/lib/planner/optimizer"
	"github.com/ryogrid/SamehadaDB/lib/samehada"
	"github.com/ryogrid/SamehadaDB/lib/samehada/samehada_util"
	"github.com/ryogrid/SamehadaDB/lib/storage/access"
	"github.com/ryogrid/SamehadaDB/lib/types"
)

type Engine struct {
	DB    *samehada.SamehadaDB
	Name  string
	MemKB int
	// LastScans: index range scans of the plan PlanOf described last
	LastScans []ScanInfo
}

// Quiet redirects the engine's chatter on stdout to /dev/null (drivers write traces to files).
func Quiet() {
	if os.Getenv("VERIF_VERBOSE") == "" {
		null, err := os.OpenFile("/dev/null", os.O_WRONLY, 0)
		if err == nil {
			os.Stdout = null
		}
	}
}

// Open starts (or restarts) a database. file=true uses real files <name>.db / <name>.log.
func Open(name string, memKB int, file bool) (e *Engine, panicMsg string) {
	concurrency.VerifBgOff = true
	common.TempSuppressOnMemStorage = file
	defer func() {
		if x := recover(); x != nil {
			e = nil
			panicMsg = fmt.Sprint(x)
			if os.Getenv("VERIF_STACK") != "" {
				fmt.Fprintf(os.Stderr, "PANIC in Open: %v\n%s\n", x, debug.Stack())
			}
		}
	}()
	db := samehada.NewSamehadaDB(name, memKB)
	return &Engine{DB: db, Name: name, MemKB: memKB}, ""
}

func (e *Engine) Catalog() *catalog.Catalog { return e.DB.GetCatalogForTesting() }
func (e *Engine) TM() *access.TransactionManager {
	return e.DB.GetSamehadaInstance().GetTransactionManager()
}

// Result of one statement.
type Result struct {
	Res  string // ok | err:<msg> | abort | panic:<msg>
	Rows [][]*types.Value
}

func short(s string) string {
	s = strings.ReplaceAll(s, "\n", " ")
	if len(s) > 160 {
		s = s[:160]
	}
	return s
}

// Exec runs one autocommit statement through the engine's synchronous SQL entry point.
func (e *Engine) Exec(sql string) (r Result) {
	defer func() {
		if x := recover(); x != nil {
			r = Result{Res: "panic:" + short(fmt.Sprint(x))}
			if os.Getenv("VERIF_STACK") != "" {
				fmt.Fprintf(os.Stderr, "PANIC in Exec(%s): %v\n%s\n", sql, x, debug.Stack())
			}
		}
	}()
	err, rows := e.DB.ExecuteSQLRetValues(sql)
	if err != nil {
		if err == samehada.QueryAbortedErr {
			return Result{Res: "abort"}
		}
		return Result{Res: "err:" + short(err.Error())}
	}
	return Result{Res: "ok", Rows: rows}
}

// ExecTxn runs one statement inside an explicit transaction through the real parser, rewriter,
// planner and execution engine (the steps of ExecuteSQLRetValues without Begin/Commit).
// Res "abort" means the statement set the transaction to ABORTED; the caller must call Abort.
func (e *Engine) ExecTxn(txn *access.Transaction, sql string) (r Result, plan plans.Plan) {
	defer func() {
		if x := recover(); x != nil {
			r = Result{Res: "panic:" + short(fmt.Sprint(x))}
		}
	}()
	qi, err := parser.ProcessSQLStr(&sql)
	if err != nil {
		return Result{Res: "err:" + short(err.Error())}, nil
	}
	qi, err = optimizer.RewriteQueryInfo(e.Catalog(), qi)
	if err != nil {
		return Result{Res: "err:" + short(err.Error())}, nil
	}
	bpm := e.DB.GetSamehadaInstance().GetBufferPoolManager()
	err, p := planner.NewSimplePlanner(e.Catalog(), bpm).MakePlan(qi, txn)
	if err != nil {
		return Result{Res: "err:" + short(err.Error())}, nil
	}
	if p == nil {
		return Result{Res: "ok"}, nil
	}
	ctx := executors.NewExecutorContext(e.Catalog(), bpm, txn)
	eng := &executors.ExecutionEngine{}
	res := eng.Execute(p, ctx)
	if txn.GetState() == access.ABORTED {
		return Result{Res: "abort"}, p
	}
	if p.OutputSchema() == nil {
		return Result{Res: "ok"}, p
	}
	return Result{Res: "ok", Rows: samehada_util.ConvTupleListToValues(p.OutputSchema(), res)}, p
}

// PlanOf returns a description of the plan the optimizer picks for a SELECT/UPDATE/DELETE now.
func (e *Engine) PlanOf(sql string) (desc string) {
	defer func() {
		if x := recover(); x != nil {
			desc = "panic"
		}
	}()
	qi, err := parser.ProcessSQLStr(&sql)
	if err != nil {
		return "parse-error"
	}
	if *qi.QueryType == parser.CreateTable || *qi.QueryType == parser.INSERT {
		return "n/a"
	}
	qi, err = optimizer.RewriteQueryInfo(e.Catalog(), qi)
	if err != nil {
		return "rewrite-error"
	}
	txn := e.TM().Begin(nil)
	defer e.TM().Commit(e.Catalog(), txn)
	err, p := planner.NewSimplePlanner(e.Catalog(), e.DB.GetSamehadaInstance().GetBufferPoolManager()).MakePlan(qi, txn)
	if err != nil || p == nil {
		return "plan-error"
	}
	if os.Getenv("VERIF_PLANTREE") != "" && strings.Contains(sql, os.Getenv("VERIF_PLANTREE")) {
		fmt.Fprintln(os.Stderr, "PLAN FOR", sql)
		old := os.Stdout
		os.Stdout = os.Stderr
		plans.PrintPlanTree(p, 0)
		os.Stdout = old
	}
	e.LastScans = scansOf(p, false)
	return DescribePlan(p)
}

// ScanInfo describes one index range scan leaf of a plan: the indexed column, the scanned interval
// (nil = open end) and whether a selection node sits somewhere above it.
type ScanInfo struct {
	Col    int
	Lo, Hi *types.Value
	Sel    bool
}

func scansOf(p plans.Plan, underSel bool) []ScanInfo {
	if p == nil {
		return nil
	}
	if rs, ok := p.(*plans.RangeScanWithIndexPlanNode); ok {
		si := ScanInfo{Col: int(rs.GetColIdx()), Sel: underSel || rs.GetPredicate() != nil}
		if lo := rs.GetStartRange(); lo != nil && !lo.IsInfMin() {
			si.Lo = lo
		}
		if hi := rs.GetEndRange(); hi != nil && !hi.IsInfMax() {
			si.Hi = hi
		}
		return []ScanInfo{si}
	}
	_, isSel := p.(*plans.SelectionPlanNode)
	out := []ScanInfo{}
	for _, c := range p.GetChildren() {
		out = append(out, scansOf(c, underSel || isSel)...)
	}
	return out
}

var planNames = map[plans.PlanType]string{}

func DescribePlan(p plans.Plan) string {
	if p == nil {
		return "nil"
	}
	name := fmt.Sprintf("%T", p)
	name = strings.TrimPrefix(name, "*plans.")
	name = strings.TrimSuffix(name, "PlanNode")
	ch := p.GetChildren()
	if len(ch) == 0 {
		return name
	}
	parts := []string{}
	for _, c := range ch {
		parts = append(parts, DescribePlan(c))
	}
	return name + "(" + strings.Join(parts, ",") + ")"
}

// RefreshStats does what the statistics thread does periodically.
func (e *Engine) RefreshStats() (panicMsg string) {
	defer func() {
		if x := recover(); x != nil {
			panicMsg = short(fmt.Sprint(x))
		}
	}()
	concurrency.NewStatisticsUpdater(e.TM(), e.Catalog()).UpdateAllTablesStatistics()
	return ""
}

// Pins returns (page id, pin count) of every frame with a positive pin count, sorted.
func (e *Engine) Pins() [][]int {
	out := [][]int{}
	for _, pg := range e.DB.GetSamehadaInstance().GetBufferPoolManager().GetPages() {
		if pg != nil && pg.PinCount() != 0 {
			out = append(out, []int{int(pg.GetPageID()), int(pg.PinCount())})
		}
	}
	sort.Slice(out, func(i, j int) bool {
		if out[i][0] != out[j][0] {
			return out[i][0] < out[j][0]
		}
		return out[i][1] < out[j][1]
	})
	return out
}

func (e *Engine) Shutdown() (panicMsg string) {
	defer func() {
		if x := recover(); x != nil {
			panicMsg = short(fmt.Sprint(x))
		}
	}()
	e.DB.Shutdown()
	return ""
}

// Crash abandons the instance the way a process kill would: files are closed, nothing is flushed.
func (e *Engine) Crash() (panicMsg string) {
	defer func() {
		if x := recover(); x != nil {
			panicMsg = short(fmt.Sprint(x))
		}
	}()
	e.DB.ShutdownForTescase()
	return ""
}

func RemoveFiles(name string) {
	os.Remove(name + ".db")
	os.Remove(name + ".log")
}
