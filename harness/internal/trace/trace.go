// Package trace writes ndjson traces (one JSON object per event, no JSON null).
package trace

import (
	"bufio"
	"encoding/json"
	"os"
	"sync"
)

type Writer struct {
	mu sync.Mutex
	f  *os.File
	w  *bufio.Writer
	N  int
}

func New(path string) (*Writer, error) {
	f, err := os.Create(path)
	if err != nil {
		return nil, err
	}
	return &Writer{f: f, w: bufio.NewWriterSize(f, 1<<20)}, nil
}

// Emit writes one event.  Map keys are sorted by encoding/json, so traces are deterministic.
func (t *Writer) Emit(ev map[string]interface{}) {
	b, err := json.Marshal(ev)
	if err != nil {
		panic(err)
	}
	t.mu.Lock()
	t.w.Write(b)
	t.w.WriteByte('\n')
	t.N++
	t.mu.Unlock()
}

// Flush pushes buffered events to the file (used before a watchdog exit).
func (t *Writer) Flush() {
	t.mu.Lock()
	t.w.Flush()
	t.mu.Unlock()
}

func (t *Writer) Close() error {
	t.mu.Lock()
	defer t.mu.Unlock()
	if err := t.w.Flush(); err != nil {
		return err
	}
	return t.f.Close()
}
