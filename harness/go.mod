module verif/harness

go 1.21

require github.com/ryogrid/SamehadaDB/lib v0.0.0

require (
	github.com/deckarep/golang-set/v2 v2.3.0 // indirect
	github.com/devlights/gomy v0.4.0 // indirect
	github.com/dsnet/golib/memfile v1.0.0 // indirect
	github.com/ryogrid/bltree-go-for-embedding v1.0.11 // indirect
	github.com/spaolacci/murmur3 v1.1.0 // indirect
)

replace github.com/ryogrid/SamehadaDB/lib => /repo/lib
