module verif/harness

go 1.21

require (
	github.com/ryogrid/SamehadaDB/lib v0.0.0
	github.com/ryogrid/bltree-go-for-embedding v1.0.11
	github.com/spaolacci/murmur3 v1.1.0
)

require (
	github.com/cznic/mathutil v0.0.0-20181122101859-297441e03548 // indirect
	github.com/deckarep/golang-set/v2 v2.3.0 // indirect
	github.com/devlights/gomy v0.4.0 // indirect
	github.com/dsnet/golib/memfile v1.0.0 // indirect
	github.com/golang-collections/collections v0.0.0-20130729185459-604e922904d3 // indirect
	github.com/golang/protobuf v1.3.4 // indirect
	github.com/notEpsilon/go-pair v0.0.0-20221220200415-e91ef28c6c0b // indirect
	github.com/opentracing/opentracing-go v1.1.0 // indirect
	github.com/pingcap/errors v0.11.5-0.20190809092503-95897b64e011 // indirect
	github.com/pingcap/log v0.0.0-20200511115504-543df19646ad // indirect
	github.com/pingcap/parser v0.0.0-20200623164729-3a18f1e5dceb // indirect
	github.com/pingcap/tidb v1.1.0-beta.0.20200630082100-328b6d0a955c // indirect
	github.com/pingcap/tipb v0.0.0-20200522051215-f31a15d98fce // indirect
	github.com/remyoudompheng/bigfft v0.0.0-20190728182440-6a916e37a237 // indirect
	github.com/shirou/gopsutil v2.19.10+incompatible // indirect
	github.com/sirupsen/logrus v1.6.0 // indirect
	go.uber.org/atomic v1.6.0 // indirect
	go.uber.org/multierr v1.5.0 // indirect
	go.uber.org/zap v1.15.0 // indirect
	golang.org/x/exp v0.0.0-20230905200255-921286631fa9 // indirect
	golang.org/x/sys v0.12.0 // indirect
	golang.org/x/text v0.13.0 // indirect
	gopkg.in/natefinch/lumberjack.v2 v2.0.0 // indirect
)

replace github.com/ryogrid/SamehadaDB/lib => /repo/lib
