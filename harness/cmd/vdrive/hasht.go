package main

// Driver for the HashTable L1 specification (C17, hash container): operates a real LinearProbeHashTable of two blocks
// (504 slots) over its own buffer pool with keys whose home slots lie at the very end of the table (probing wraps
// around), at its beginning, and on one shared slot in the middle; values are unique while they are in the table.
// After every call the occupied slots are read back from the real block pages.
//
//   hasht seq <out.ndjson> <sequences> <ops>

import (
	"encoding/binary"
	"fmt"
	"math/rand"
	"sort"
	"strconv"
	"unsafe"

	"github.com/ryogrid/SamehadaDB/lib/container/hash"
	"github.com/ryogrid/SamehadaDB/lib/recovery"
	"github.com/ryogrid/SamehadaDB/lib/storage/buffer"
	"github.com/ryogrid/SamehadaDB/lib/storage/disk"
	"github.com/ryogrid/SamehadaDB/lib/storage/page"
	"github.com/ryogrid/SamehadaDB/lib/types"
	"github.com/spaolacci/murmur3"
	"verif/harness/internal/eng"
	"verif/harness/internal/iorec"
	"verif/harness/internal/trace"
)

func init() { drivers["hasht"] = hashtDriver }

const htBlocks = 2

func htHash(key []byte) uint64 {
	h := murmur3.New128()
	h.Write(key)
	return binary.LittleEndian.Uint64(h.Sum(nil))
}
func htHome(h uint64) int { return int(h%htBlocks)*page.BlockArraySize + int(h%page.BlockArraySize) }

// htKeys: 5 keys at home in the last four slots, 4 in the first three, 3 on slot 301 (bucket and offset come from the same hash: bucket = offset mod 2)
func htKeys() (keys [][]byte, homes []int) {
	n := htBlocks * page.BlockArraySize
	want := []func(int) bool{
		func(h int) bool { return h >= n-4 }, func(h int) bool { return h >= n-4 }, func(h int) bool { return h >= n-4 },
		func(h int) bool { return h >= n-4 }, func(h int) bool { return h >= n-4 },
		func(h int) bool { return h <= 2 }, func(h int) bool { return h <= 2 }, func(h int) bool { return h <= 2 }, func(h int) bool { return h <= 2 },
		func(h int) bool { return h == 301 }, func(h int) bool { return h == 301 }, func(h int) bool { return h == 301 },
	}
	for i := 0; len(keys) < len(want) && i < 5000000; i++ {
		k := []byte(fmt.Sprintf("key-%d", i))
		if want[len(keys)](htHome(htHash(k))) {
			keys = append(keys, k)
			homes = append(homes, htHome(htHash(k)))
		}
	}
	return
}

type htEnv struct {
	bpm *buffer.BufferPoolManager
	ht  *hash.LinearProbeHashTable
	ids map[uint64]int
}

func (e *htEnv) slots() [][]int {
	out := [][]int{}
	hp := e.bpm.FetchPage(e.ht.GetHeaderPageID())
	header := (*page.HashTableHeaderPage)(unsafe.Pointer(hp.Data()))
	for b := 0; b < htBlocks; b++ {
		bid := header.GetBlockPageID(uint64(b))
		bp := e.bpm.FetchPage(bid)
		blk := (*page.HashTableBlockPage)(unsafe.Pointer(bp.Data()))
		for o := 0; o < page.BlockArraySize; o++ {
			if blk.IsOccupied(uint64(o)) {
				rd := 0
				if blk.IsReadable(uint64(o)) {
					rd = 1
				}
				id, ok := e.ids[blk.KeyAt(uint64(o))]
				if !ok {
					id = -1
				}
				out = append(out, []int{b*page.BlockArraySize + o, rd, id, int(blk.ValueAt(uint64(o)))})
			}
		}
		e.bpm.UnpinPage(bid, false)
	}
	e.bpm.UnpinPage(e.ht.GetHeaderPageID(), false)
	return out
}

func hashtDriver(args []string) error {
	if args[0] != "seq" {
		return fmt.Errorf("hasht seq ...")
	}
	eng.Quiet()
	tw, err := trace.New(args[1])
	if err != nil {
		return err
	}
	defer tw.Close()
	nseq, _ := strconv.Atoi(args[2])
	nops, _ := strconv.Atoi(args[3])
	keys, homes := htKeys()
	if len(keys) < 12 {
		return fmt.Errorf("hasht: key search found only %d keys", len(keys))
	}
	for q := 0; q < nseq; q++ {
		rng := rand.New(rand.NewSource(envSeed()*3571 + int64(q)))
		md := iorec.NewMemDisk()
		var dm disk.DiskManager = md
		lg := recovery.NewLogManager(&dm)
		lg.DeactivateLogging()
		bpm := buffer.NewBufferPoolManager(16, dm, lg)
		e := &htEnv{bpm: bpm, ht: hash.NewLinearProbeHashTable(bpm, htBlocks, types.InvalidPageID), ids: map[uint64]int{}}
		for i, k := range keys {
			e.ids[htHash(k)] = i + 1
		}
		// every second sequence runs under memory pressure: before a call every page may be made clean (FlushAllPages), after
		// it every unpinned page may be pushed out of the 16-frame pool by a sweep over 20 filler pages - a change that is
		// unpinned as clean is then lost (seeded changes C17r4-A / C09r2-B: Remove unpins its block page clean)
		pressure := q%2 == 1
		fillers := []types.PageID{}
		if pressure {
			for i := 0; i < 20; i++ {
				if pg := bpm.NewPage(); pg != nil {
					fillers = append(fillers, pg.GetPageID())
					bpm.UnpinPage(pg.GetPageID(), true)
				}
			}
		}
		sweep := func() {
			for _, id := range fillers {
				if pg := bpm.FetchPage(id); pg != nil {
					bpm.UnpinPage(id, false)
				}
			}
		}
		tw.Emit(map[string]interface{}{"ev": "Reset", "q": q, "homes": homes, "slots": e.slots()})
		live := map[int]int{} // value -> key id
		nextVal := 0
		for n := 0; n < nops; n++ {
			ev := map[string]interface{}{"ev": "HOp", "q": q, "panic": "", "k": 0, "v": 0, "res": "", "vals": []int{}}
			if pressure && rng.Intn(2) == 0 {
				bpm.FlushAllPages()
			}
			func() {
				defer func() {
					if x := recover(); x != nil {
						ev["panic"] = fmt.Sprint(x)
					}
				}()
				c := rng.Intn(10)
				switch {
				case c < 5 || len(live) == 0:
					k := 1 + rng.Intn(len(keys))
					nextVal++
					ev["op"], ev["k"], ev["v"] = "Insert", k, nextVal
					if err := e.ht.Insert(keys[k-1], uint64(nextVal)); err != nil {
						ev["res"] = "dup"
					} else {
						ev["res"] = "ok"
						live[nextVal] = k
					}
				case c < 8:
					vs := []int{}
					for v := range live {
						vs = append(vs, v)
					}
					sort.Ints(vs)
					v := vs[rng.Intn(len(vs))]
					k := live[v]
					if rng.Intn(6) == 0 { // a pair that is not there
						k = 1 + rng.Intn(len(keys))
					}
					ev["op"], ev["k"], ev["v"], ev["res"] = "Remove", k, v, "ok"
					e.ht.Remove(keys[k-1], uint64(v))
					if live[v] == k {
						delete(live, v)
					}
				default:
					k := 1 + rng.Intn(len(keys))
					ev["op"], ev["k"], ev["res"] = "Get", k, "ok"
					vals := []int{}
					for _, v := range e.ht.GetValue(keys[k-1]) {
						vals = append(vals, int(v))
					}
					ev["vals"] = vals
				}
			}()
			if pressure && rng.Intn(2) == 0 {
				sweep()
			}
			ev["slots"] = e.slots()
			tw.Emit(ev)
			if ev["panic"] != "" {
				break
			}
		}
	}
	return nil
}
