package main

// Driver for the SkipList L1 specification (C17, mechanism level): operates a real skip list container
// (lib/container/skip_list) over its own buffer pool with long string keys - three entries fill a node, so a
// dozen keys split and empty nodes - and records, after every call, the node structure read back from the
// real pages: the level-1 chain with entries, level, forward entries (as positions in the chain) and update
// counter of every node.
//
//   sl seq <out.ndjson> <sequences> <ops>     random sequential operations
//   sl aba <out.ndjson> <attempts>            replay of the model's "page id handed out again" schedule

import (
	"fmt"
	"math"
	"math/rand"
	"os"
	"strconv"
	"strings"
	"sync/atomic"
	"time"

	"github.com/ryogrid/SamehadaDB/lib/container/skip_list"
	"github.com/ryogrid/SamehadaDB/lib/recovery"
	"github.com/ryogrid/SamehadaDB/lib/storage/buffer"
	"github.com/ryogrid/SamehadaDB/lib/storage/disk"
	"github.com/ryogrid/SamehadaDB/lib/storage/page/skip_list_page"
	"github.com/ryogrid/SamehadaDB/lib/types"
	"verif/harness/internal/eng"
	"verif/harness/internal/iorec"
	"verif/harness/internal/trace"
)

func init() { drivers["sl"] = slDriver }

const slK = 12       // key ranks 1..slK
const slKeyLen = 1280 // three such entries fill a 4 KB node

type slEnv struct {
	md  *iorec.MemDisk
	bpm *buffer.BufferPoolManager
	sl  *skip_list.SkipList
	seen map[types.PageID]bool
}

func newSlEnv(frames int) *slEnv {
	md := iorec.NewMemDisk()
	var dm disk.DiskManager = md
	lg := recovery.NewLogManager(&dm)
	lg.ActivateLogging()
	x := &slEnv{md: md, bpm: buffer.NewBufferPoolManager(uint32(frames), dm, lg), seen: map[types.PageID]bool{}}
	x.sl = skip_list.NewSkipList(x.bpm, types.Varchar, lg)
	return x
}

// slKeyOf maps a rank (any non-negative number below 1000, in tenths: 25 = "2.5") to a long string; order is kept
func slKeyStr(tenths int) string {
	return fmt.Sprintf("%04d", tenths) + strings.Repeat("x", slKeyLen-4)
}
func slKey(rank int) *types.Value {
	v := types.NewVarchar(slKeyStr(rank * 10))
	return &v
}
func slKeyT(tenths int) *types.Value {
	v := types.NewVarchar(slKeyStr(tenths))
	return &v
}

// rankOfKey: -infinity 0, +infinity slK+1, otherwise the rank (tenths / 10; keys of the aba replay are reported in tenths)
func slRankOf(v types.Value, tenths bool) int {
	if v.IsInfMin() {
		return 0
	}
	if v.IsInfMax() {
		if tenths {
			return 10000
		}
		return slK + 1
	}
	s := v.ToString()
	n, _ := strconv.Atoi(s[:4])
	if tenths {
		return n
	}
	return n / 10
}

// project reads the structure from the real pages
func (x *slEnv) project(tenths bool) (nodes []map[string]interface{}, newLevel int) {
	hp := skip_list_page.FetchAndCastToHeaderPage(x.bpm, x.sl.GetHeaderPageID())
	start := hp.GetListStartPageID()
	x.bpm.UnpinPage(x.sl.GetHeaderPageID(), false)
	type raw struct {
		id    types.PageID
		keys  []int
		level int
		fwd   []types.PageID
		ctr   int
	}
	chain := []raw{}
	pos := map[types.PageID]int{}
	id := start
	for steps := 0; steps < 200; steps++ {
		n := skip_list_page.FetchAndCastToBlockPage(x.bpm, id)
		if n == nil {
			chain = append(chain, raw{id: id, keys: []int{}, level: -1, fwd: make([]types.PageID, skip_list_page.MaxForwardListLen), ctr: -1})
			break
		}
		r := raw{id: id, level: int(n.GetLevel()), ctr: int(n.GetLSN())}
		for _, e := range n.GetEntries(types.Varchar) {
			r.keys = append(r.keys, slRankOf(e.Key, tenths))
		}
		for i := 0; i < skip_list_page.MaxForwardListLen; i++ {
			r.fwd = append(r.fwd, n.GetForwardEntry(i))
		}
		x.bpm.UnpinPage(id, false)
		if _, dup := pos[id]; dup { // a cycle
			chain = append(chain, raw{id: id, keys: []int{-7}, level: -7, fwd: make([]types.PageID, skip_list_page.MaxForwardListLen), ctr: -7})
			break
		}
		pos[id] = len(chain)
		chain = append(chain, r)
		if !x.seen[id] {
			x.seen[id] = true
			if id != start && id != x.sl.SentinelNodeID {
				newLevel = r.level
			}
		}
		if id == x.sl.SentinelNodeID {
			break
		}
		id = r.fwd[0]
	}
	for _, r := range chain {
		f := []int{}
		for _, t := range r.fwd {
			if t == types.InvalidPageID {
				f = append(f, -1)
			} else if p, ok := pos[t]; ok {
				f = append(f, p)
			} else {
				f = append(f, -2)
			}
		}
		nodes = append(nodes, map[string]interface{}{"keys": r.keys, "level": r.level, "fwd": f, "ctr": r.ctr, "id": int(r.id)})
	}
	return
}

func (x *slEnv) scan(lo, hi *types.Value, tenths bool) []int {
	out := []int{}
	it := x.sl.Iterator(lo, hi)
	for {
		done, _, k, _ := it.Next()
		if done {
			break
		}
		out = append(out, slRankOf(*k, tenths))
	}
	return out
}

func slGuard(tw *trace.Writer, ev map[string]interface{}, f func()) {
	wd := time.AfterFunc(20*time.Second, func() {
		ev["panic"] = "hang"
		ev["nodes"] = []int{}
		tw.Emit(ev)
		tw.Flush()
		os.Exit(3)
	})
	defer wd.Stop()
	defer func() {
		if p := recover(); p != nil {
			ev["panic"] = fmt.Sprint(p)
		}
	}()
	ev["panic"] = ""
	f()
}

func slDriver(args []string) error {
	eng.Quiet()
	tw, err := trace.New(args[1])
	if err != nil {
		return err
	}
	defer tw.Close()
	switch args[0] {
	case "seq":
		nseq, _ := strconv.Atoi(args[2])
		nops, _ := strconv.Atoi(args[3])
		for q := envStart(); q < nseq; q++ {
			rng := rand.New(rand.NewSource(envSeed()*7919 + int64(q)))
			x := newSlEnv(64)
			nodes, _ := x.project(false)
			tw.Emit(map[string]interface{}{"ev": "Reset", "q": q, "nodes": nodes})
			present := map[int]bool{}
			for i := 0; i < nops; i++ {
				ev := map[string]interface{}{"ev": "SlOp", "q": q, "res": 0, "v": 1, "hi": 0}
				k := 1 + rng.Intn(slK)
				// keep the list between 4 and 10 keys most of the time so that nodes split and empty again and again
				c := rng.Intn(10)
				op := "ins"
				switch {
				case c < 4 && len(present) < 10, len(present) < 3 && c < 8:
					op = "ins"
				case c < 8:
					op = "rem"
				case c == 8:
					op = "get"
				default:
					op = "scan"
				}
				if op == "ins" && present[k] {
					// (overwriting an entry is outside the container's contract - SetEntry: "key of target entry doesn't
					// exist in this node" - and leaks the old entry's bytes; the index wrappers never do it)
					for present[k] {
						k = 1 + rng.Intn(slK)
					}
				}
				ev["op"], ev["k"] = op, k
				slGuard(tw, ev, func() {
					switch op {
					case "ins":
						v := 1 + rng.Intn(2)
						ev["v"] = v
						x.sl.Insert(slKey(k), uint64(v))
						present[k] = true
					case "rem":
						ev["res"] = x.sl.Remove(slKey(k), 0)
						delete(present, k)
					case "get":
						r := x.sl.GetValue(slKey(k))
						if r == math.MaxUint64 {
							ev["res"] = -1
						} else {
							ev["res"] = int(r)
						}
					case "scan":
						hi := k + rng.Intn(slK-k+1)
						ev["hi"] = hi
						ev["res"] = x.scan(slKey(k), slKey(hi), false)
					}
				})
				if ev["panic"] == "" {
					ev["nodes"], ev["newlevel"] = x.project(false)
				} else {
					ev["nodes"], ev["newlevel"] = []int{}, 0
				}
				tw.Emit(ev)
				if ev["panic"] != "" {
					break
				}
			}
		}
		return nil
	case "aba":
		attempts, _ := strconv.Atoi(args[2])
		return slABA(tw, attempts)
	}
	return fmt.Errorf("sl seq|aba ...")
}

// slABA replays, on the real skip list, the counterexample TLC finds in spec/SkipList with Reuse = TRUE
// (MC_reuse.cfg): a Remove has remembered <page id, update counter> of the predecessor P of the node X it is
// about to unlink and holds no latch (gate in validateNoChangeAndGetLock); meanwhile P is removed, its frame is
// evicted, and a node split elsewhere is given P's page id, with a fresh update counter that equals the
// remembered one.  The waiting Remove then "validates" the new owner of the id and unlinks X from it.
//
// Keys are in tenths (30 = "3").  Structure built first:  start{-inf,10,20,25}  P{30}  X{50}  Y{60,70,80}.
// The history is written in the vocabulary of MultimapHistoryTrace (Inv / Ret with call ids).
func slABA(tw *trace.Writer, attempts int) error {
	// (the result of a call travels in its Inv event, as in the concurrent index driver: events are written
	// once the calls have returned, in the order of their stamps)
	emit := func(ev map[string]interface{}) { tw.Emit(ev) }
	done := 0
	for a := 0; a < attempts*40 && done < 2*attempts; a++ {
		// two variants: "reuse" - a split elsewhere is given P's page id; "stale" - nobody is, and the fetch of
		// P's id reads what the file holds under it (here zeros: the page was never written, the file grew past it)
		variant := []string{"reuse", "stale"}[done%2]
		x := newSlEnv(12)
		ins := func(t int) { x.sl.Insert(slKeyT(t), uint64(t)) }
		// Y first (split of the start node), then X, then P: each is the upper part split off the start node
		for _, t := range []int{10, 20, 60, 70, 80, 50, 30, 25} {
			ins(t)
		}
		nodes, _ := x.project(true)
		// expected chain: start{0,10,20,25} P{30} X{50} Y{60,70,80} sentinel; X must have level 1 (P is then its only corner)
		ok := len(nodes) == 5 && fmt.Sprint(nodes[1]["keys"]) == "[30]" && fmt.Sprint(nodes[2]["keys"]) == "[50]" &&
			fmt.Sprint(nodes[3]["keys"]) == "[60 70 80]" && nodes[2]["level"] == 1
		if !ok {
			continue
		}
		done++
		pid := nodes[1]["id"].(int)
		ents := [][]int{}
		for _, t := range []int{10, 20, 25, 30, 50, 60, 70, 80} {
			ents = append(ents, []int{t, t})
		}
		emit(map[string]interface{}{"ev": "Reset", "ents": ents, "q": a, "variant": variant, "structure": nodes})
		// some other pages to cycle the pool with
		other := []types.PageID{}
		for i := 0; i < 14; i++ {
			p := x.bpm.NewPage()
			other = append(other, p.GetPageID())
			x.bpm.UnpinPage(p.GetPageID(), true)
		}
		gate := make(chan struct{})
		reached := make(chan struct{})
		var first int32
		skip_list_page.VerifGate = func(point string) {
			if point == "validate" && atomic.CompareAndSwapInt32(&first, 0, 1) {
				close(reached)
				<-gate
			}
		}
		fin := make(chan bool)
		emit(map[string]interface{}{"ev": "Inv", "c": 1, "k": "del", "a": 50, "r": 50, "res": "ok"})
		go func() { fin <- x.sl.Remove(slKeyT(50), 50) }()
		select {
		case <-reached:
		case <-time.After(10 * time.Second):
			return fmt.Errorf("aba: the remove never reached its validation")
		}
		// the other thread: remove P's only key, let P's frame be evicted, split Y
		emit(map[string]interface{}{"ev": "Inv", "c": 2, "k": "del", "a": 30, "r": 30, "res": "ok"})
		r2 := x.sl.Remove(slKeyT(30), 30)
		emit(map[string]interface{}{"ev": "Ret", "c": 2, "res": "ok", "deleted": r2})
		for _, id := range other {
			if p := x.bpm.FetchPage(id); p != nil {
				x.bpm.UnpinPage(id, false)
			}
		}
		_, _, _, reusable := x.bpm.VerifSnapshot()
		if variant == "reuse" {
			emit(map[string]interface{}{"ev": "Inv", "c": 3, "k": "ins", "a": 90, "r": 90, "res": "ok"})
			ins(90)
			emit(map[string]interface{}{"ev": "Ret", "c": 3, "res": "ok"})
		}
		mid, _ := x.project(true)
		close(gate)
		var r1 bool
		select {
		case r1 = <-fin:
		case <-time.After(10 * time.Second):
			emit(map[string]interface{}{"ev": "Hang", "c": 1})
			skip_list_page.VerifGate = nil
			continue
		}
		skip_list_page.VerifGate = nil
		emit(map[string]interface{}{"ev": "Ret", "c": 1, "res": "ok", "deleted": r1, "reusable_after_evictions": fmt.Sprint(reusable), "p_id": pid, "structure_before_release": mid})
		// quiescent now: every key must answer as the map says
		c := 10
		probe := []int{50, 30, 60, 70, 80, 10, 20, 25}
		if variant == "reuse" {
			probe = append(probe, 90)
		}
		for _, t := range probe {
			c++
			inv := map[string]interface{}{"ev": "Inv", "c": c, "k": "point", "a": t, "rids": []int{}, "res": "ok"}
			ev := map[string]interface{}{"ev": "Ret", "c": c, "res": "ok"}
			hung := false
			func() {
				defer func() {
					if p := recover(); p != nil {
						ev["res"] = "panic:" + fmt.Sprint(p)
					}
				}()
				ch := make(chan uint64, 1)
				go func() {
					defer func() { recover() }()
					ch <- x.sl.GetValue(slKeyT(t))
				}()
				select {
				case v := <-ch:
					if v != math.MaxUint64 {
						inv["rids"] = []int{int(v)}
					}
				case <-time.After(5 * time.Second):
					hung = true
				}
			}()
			if hung {
				// (the trace specification has no such event: the history is rejected here; the next attempt has its own list)
				emit(map[string]interface{}{"ev": "Hang", "c": c, "a": t})
				break
			}
			emit(inv)
			emit(ev)
		}
	}
	if done == 0 {
		return fmt.Errorf("aba: the start structure never came out as needed")
	}
	// second schedule (counterexample of MC_pre_noentry.cfg): an Insert finds its node full, remembers the node's
	// counter and releases the latch (gate); a Remove takes a smaller entry out of that node; the Insert must notice
	// and start over - if it does not, it splits with the indexes it computed before.
	for a := 0; a < attempts; a++ {
		x := newSlEnv(32)
		for _, t := range []int{10, 20, 30} {
			x.sl.Insert(slKeyT(t), uint64(t))
		}
		emit(map[string]interface{}{"ev": "Reset", "ents": [][]int{{10, 10}, {20, 20}, {30, 30}}, "q": 1000 + a, "variant": "split-vs-remove"})
		gate := make(chan struct{})
		reached := make(chan struct{})
		var first int32
		skip_list_page.VerifGate = func(point string) {
			if point == "validate" && atomic.CompareAndSwapInt32(&first, 0, 1) {
				close(reached)
				<-gate
			}
		}
		fin := make(chan struct{})
		emit(map[string]interface{}{"ev": "Inv", "c": 1, "k": "ins", "a": 25, "r": 25, "res": "ok"})
		go func() {
			defer func() { recover(); close(fin) }()
			x.sl.Insert(slKeyT(25), 25)
		}()
		select {
		case <-reached:
		case <-time.After(10 * time.Second):
			return fmt.Errorf("split-vs-remove: the insert never reached its validation")
		}
		emit(map[string]interface{}{"ev": "Inv", "c": 2, "k": "del", "a": 10, "r": 10, "res": "ok"})
		x.sl.Remove(slKeyT(10), 10)
		emit(map[string]interface{}{"ev": "Ret", "c": 2, "res": "ok"})
		close(gate)
		select {
		case <-fin:
		case <-time.After(10 * time.Second):
			emit(map[string]interface{}{"ev": "Hang", "c": 1})
			skip_list_page.VerifGate = nil
			continue
		}
		skip_list_page.VerifGate = nil
		emit(map[string]interface{}{"ev": "Ret", "c": 1, "res": "ok"})
		c := 10
		for _, t := range []int{10, 20, 25, 30} {
			c++
			inv := map[string]interface{}{"ev": "Inv", "c": c, "k": "point", "a": t, "rids": []int{}, "res": "ok"}
			ch := make(chan uint64, 1)
			go func() {
				defer func() {
					if recover() != nil {
						ch <- math.MaxUint64 - 1
					}
				}()
				ch <- x.sl.GetValue(slKeyT(t))
			}()
			select {
			case v := <-ch:
				if v == math.MaxUint64-1 {
					inv["res"] = "panic"
				} else if v != math.MaxUint64 {
					inv["rids"] = []int{int(v)}
				}
			case <-time.After(5 * time.Second):
				inv["ev"] = "Hang"
			}
			emit(inv)
			if inv["ev"] == "Hang" {
				break
			}
			emit(map[string]interface{}{"ev": "Ret", "c": c, "res": "ok"})
		}
		// an ordered scan of everything
		sc := map[string]interface{}{"ev": "Inv", "c": 99, "k": "scan", "lo": -2, "hi": -2, "rids": []int{}, "res": "ok"}
		ch := make(chan []int, 1)
		go func() {
			defer func() {
				if recover() != nil {
					ch <- []int{-1}
				}
			}()
			ch <- x.scan(nil, nil, true)
		}()
		select {
		case v := <-ch:
			sc["rids"] = v // (row id = key in this replay)
		case <-time.After(5 * time.Second):
			sc["ev"] = "Hang"
		}
		emit(sc)
		if sc["ev"] != "Hang" {
			emit(map[string]interface{}{"ev": "Ret", "c": 99, "res": "ok"})
		}
	}
	return nil
}
