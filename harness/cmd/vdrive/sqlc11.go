package main

// C11 workload: two- and three-table equi-joins with conjunctive filters against SqlModel's naive
// evaluation, under different statistics states and table-size asymmetries (so that the cost model
// picks different join orders and algorithms).

import (
	"fmt"
	"math/rand"
	"os"
	"strconv"
	"strings"

	"verif/harness/internal/trace"
)

type joinFilt struct {
	t, c int
	op   string
	v    int
}

func (s *sqlRun) joinQ(ts []*tableDef, on [][4]int, filt []joinFilt, proj [][2]int, commaForm bool) {
	if s.dead {
		return
	}
	col := func(t, c int) string { return ts[t-1].name + "." + ts[t-1].names[c] }
	sel := []string{}
	for _, p := range proj {
		sel = append(sel, col(p[0], p[1]))
	}
	conds := []string{}
	for _, f := range filt {
		conds = append(conds, col(f.t, f.c)+" "+f.op+" "+lit(ts[f.t-1].cols[f.c], f.v))
	}
	var sql string
	if commaForm || len(ts) > 2 {
		names := []string{}
		for _, t := range ts {
			names = append(names, t.name)
		}
		all := []string{}
		for _, o := range on {
			all = append(all, col(o[0], o[1])+" = "+col(o[2], o[3]))
		}
		all = append(all, conds...)
		sql = "SELECT " + strings.Join(sel, ", ") + " FROM " + strings.Join(names, ", ") + " WHERE " + strings.Join(all, " AND ") + ";"
	} else {
		sql = "SELECT " + strings.Join(sel, ", ") + " FROM " + ts[0].name + " JOIN " + ts[1].name + " ON " + col(on[0][0], on[0][1]) + " = " + col(on[0][2], on[0][3])
		if len(conds) > 0 {
			sql += " WHERE " + strings.Join(conds, " AND ")
		}
		sql += ";"
	}
	names := []string{}
	for _, t := range ts {
		names = append(names, t.name)
	}
	onJ := [][]int{}
	for _, o := range on {
		onJ = append(onJ, []int{o[0], o[1], o[2], o[3]})
	}
	fJ := []interface{}{}
	for _, f := range filt {
		fJ = append(fJ, map[string]interface{}{"t": f.t, "c": f.c, "op": f.op, "v": f.v})
	}
	pJ := [][]int{}
	for _, p := range proj {
		pJ = append(pJ, []int{p[0], p[1]})
	}
	ev := map[string]interface{}{"ev": "Join", "ts": names, "on": onJ, "filt": fJ, "proj": pJ}
	ev["plan"] = s.e.PlanOf(sql)
	r := s.stmt(ev, sql)
	ev["rows"] = rowsToRanks(r.Rows)
	s.emit(ev)
}

// pressureJoin joins two unindexed tables of ~300 rows with 300-byte payloads in a pool of 32 frames: whichever side the
// join materialises (hash join build side: ~25 temporary pages) does not fit, so temporary pages are evicted and
// fetched again while the join runs. Most keys have no partner on the other side, so the result stays small.
func pressureJoin(tw *trace.Writer, rng *rand.Rand, sc int) error {
	s, err := newRun(tw, ctxName("C11"), 128)
	if err != nil {
		return err
	}
	keyType := []string{"int", "varchar", "float"}[rng.Intn(3)]
	ts := []*tableDef{}
	for i := 0; i < 2; i++ {
		t := &tableDef{name: fmt.Sprintf("m%d_%c", sc, 'a'+i), cols: []string{keyType, "varchar", "int"},
			names: []string{"c0", "c1", fmt.Sprintf("%c2", 'p'+i)}, kinds: []string{"none", "none", "none"}}
		s.createAPI(t)
		lonely := NRanks - 2 + i // keys without a partner in the other table
		for b := 0; b < 30 && !s.dead; b++ {
			rows := [][]int{}
			for j := 0; j < 10; j++ {
				k := lonely
				if rng.Intn(25) == 0 {
					k = rng.Intn(4)
				}
				rows = append(rows, []int{k, NRanks - 1, rng.Intn(NRanks - 1)})
			}
			s.insert(t, rows, nil)
		}
		ts = append(ts, t)
	}
	if rng.Intn(2) == 0 {
		s.stats()
	}
	on := [][4]int{{1, 0, 2, 0}}
	s.joinQ(ts, on, nil, [][2]int{{1, 0}, {1, 1}, {2, 2}, {2, 1}}, false)
	s.joinQ(ts, on, nil, [][2]int{{2, 1}, {1, 2}}, true)
	s.joinQ(ts, on, []joinFilt{{1, 2, cmpOps[rng.Intn(6)], rng.Intn(NRanks - 1)}}, [][2]int{{2, 0}, {1, 1}, {1, 0}}, false)
	for _, t := range ts {
		s.scan(t)
	}
	return nil
}

// sql c11 <out.ndjson> <scenarios>
func sqlC11(args []string) error {
	tw, err := trace.New(args[0])
	if err != nil {
		return err
	}
	nscen, _ := strconv.Atoi(args[1])
	for sc := envStart(); sc < nscen; sc++ {
		rng := scenarioRng(sc)
		if sc%5 == 4 && os.Getenv("VERIF_C11_NOPRESSURE") == "" {
			if err := pressureJoin(tw, rng, sc); err != nil {
				return err
			}
			continue
		}
		s, err := newRun(tw, ctxName("C11"), 1600)
		if err != nil {
			return err
		}
		// every third scenario gives all tables the same column names (c0, c1, ...): a column is then identified
		// by its table only
		sameNames := sc%3 == 1
		nt := 2
		if rng.Intn(3) == 0 {
			nt = 3
		}
		keyType := []string{"int", "varchar", "float"}[rng.Intn(3)]
		ts := []*tableDef{}
		for i := 0; i < nt; i++ {
			t := &tableDef{name: fmt.Sprintf("j%d_%c", sc, 'a'+i)}
			ncol := 2 + rng.Intn(2)
			for c := 0; c < ncol; c++ {
				ty := []string{"int", "float", "varchar"}[rng.Intn(3)]
				if c == 0 {
					ty = keyType
				}
				t.cols = append(t.cols, ty)
				if sameNames {
					t.names = append(t.names, fmt.Sprintf("c%d", c))
				} else {
					t.names = append(t.names, fmt.Sprintf("%c%d", 'p'+i, c))
				}
			}
			if rng.Intn(3) == 0 {
				// unindexed columns (hash join / nested loop only) need the catalog API
				t.kinds = make([]string, ncol)
				for c := range t.kinds {
					t.kinds[c] = []string{"none", "skiplist"}[rng.Intn(2)]
				}
				s.createAPI(t)
			} else {
				s.create(t)
			}
			ts = append(ts, t)
		}
		load := func(t *tableDef, n int) {
			for i := 0; i < n; i++ {
				r := randRow(rng, t, NRanks-1)
				r[0] = rng.Intn(4) // join keys from a small domain: duplicates and misses
				s.insert(t, [][]int{r}, nil)
			}
		}
		for _, t := range ts {
			n := rng.Intn(7)
			if rng.Intn(4) == 0 {
				n = 0
			}
			if rng.Intn(4) == 0 {
				n = 15 + rng.Intn(15) // size asymmetry
			}
			load(t, n)
		}
		for _, t := range ts {
			s.scan(t)
		}
		for phase := 0; phase < 3; phase++ {
			switch phase {
			case 1:
				s.stats()
			case 2: // statistics describe data that has changed since
				t := ts[rng.Intn(nt)]
				if rng.Intn(2) == 0 {
					load(t, 10+rng.Intn(10))
				} else {
					s.delete(t, randAtom(rng, len(t.cols)))
				}
				s.scan(t)
			}
			if sameNames {
				// select lists that name every column the query touches, table blocks in both orders and interleaved:
				// position by position the bare column names agree with any plan's output, only the tables differ
				on := [][4]int{{1, 0, 2, 0}}
				if nt == 3 {
					on = append(on, [4]int{2, 0, 3, 0})
				}
				k := len(ts[0].cols)
				for _, t := range ts {
					if len(t.cols) < k {
						k = len(t.cols)
					}
				}
				order := rng.Perm(nt)
				fwd, rev, mix := [][2]int{}, [][2]int{}, [][2]int{}
				for i := 0; i < nt; i++ {
					for c := 0; c < k; c++ {
						fwd = append(fwd, [2]int{i + 1, c})
						rev = append(rev, [2]int{nt - i, c})
						mix = append(mix, [2]int{(order[i]+c)%nt + 1, c})
					}
				}
				s.joinQ(ts, on, nil, fwd, false)
				s.joinQ(ts, on, nil, rev, rng.Intn(2) == 0)
				s.joinQ(ts, on, nil, mix, rng.Intn(2) == 0)
			}
			for q := 0; q < 6; q++ {
				on := [][4]int{{1, 0, 2, 0}}
				if rng.Intn(4) == 0 && ts[0].cols[len(ts[0].cols)-1] == ts[1].cols[len(ts[1].cols)-1] {
					// join on a non-key column pair of equal type
					on = [][4]int{{1, len(ts[0].cols) - 1, 2, len(ts[1].cols) - 1}}
				}
				if nt == 3 {
					on = append(on, [4]int{2, 0, 3, 0})
				}
				filt := []joinFilt{}
				for k := rng.Intn(4); k > 0; k-- {
					t := 1 + rng.Intn(nt)
					c := rng.Intn(len(ts[t-1].cols))
					filt = append(filt, joinFilt{t, c, cmpOps[rng.Intn(6)], rng.Intn(NRanks - 1)})
				}
				proj := [][2]int{}
				for k := 1 + rng.Intn(4); k > 0; k-- {
					t := 1 + rng.Intn(nt)
					proj = append(proj, [2]int{t, rng.Intn(len(ts[t-1].cols))})
				}
				// the select list must not name the same column twice
				seen := map[[2]int]bool{}
				p2 := [][2]int{}
				for _, p := range proj {
					if !seen[p] {
						seen[p] = true
						p2 = append(p2, p)
					}
				}
				s.joinQ(ts, on, filt, p2, rng.Intn(2) == 0)
			}
		}
	}
	return tw.Close()
}
