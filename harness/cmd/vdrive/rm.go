package main

// Driver for C12: concurrent ExecuteSQL calls through the real request manager.
//   rm hist <out.ndjson> <windows> <clients> <calls per client> <gomaxprocs>
//       windows of concurrent single-statement reads / multi-row updates over overlapping key ranges and
//       inserts of unique keys; invoke / return events ordered by a shared atomic counter.
//   rm gate <out.ndjson>
//       the directed schedule of the request manager's deadlock: one caller parked between enqueue and
//       wake-up send (hook H5), the loop woken by another caller, more callers than inCh has capacity.

import (
	"encoding/binary"
	"fmt"
	"math/rand"
	"os"
	"runtime"
	"sort"
	"strconv"
	"sync"
	"sync/atomic"
	"time"

	"github.com/ryogrid/SamehadaDB/lib/samehada"
	"github.com/ryogrid/SamehadaDB/lib/storage/disk"
	"verif/harness/internal/iorec"
	"verif/harness/internal/eng"
	"verif/harness/internal/trace"
)

func init() { drivers["rm"] = rmDriver }

type callRec struct {
	inv, ret int64
	c        int
	k        string
	a, b, v  int
	res      string
	rows     [][]int
}

func ifRows(rows [][]interface{}) [][]int {
	out := [][]int{}
	for _, r := range rows {
		if len(r) >= 2 {
			k, ok1 := r[0].(int32)
			v, ok2 := r[1].(int32)
			if ok1 && ok2 {
				out = append(out, []int{int(k), int(v)})
				continue
			}
		}
		out = append(out, []int{-99, -99})
	}
	return out
}

func rmDriver(args []string) error {
	eng.Quiet()
	switch args[0] {
	case "hist":
		return rmHist(args[1:])
	case "gate":
		return rmGate(args[1:])
	}
	return fmt.Errorf("rm hist|gate")
}

func rmHist(args []string) error {
	tw, err := trace.New(args[0])
	if err != nil {
		return err
	}
	windows, _ := strconv.Atoi(args[1])
	nclients, _ := strconv.Atoi(args[2])
	ncalls, _ := strconv.Atoi(args[3])
	procs, _ := strconv.Atoi(args[4])
	runtime.GOMAXPROCS(procs)
	rng := rand.New(rand.NewSource(envSeed()))
	const nkeys = 8
	// optionally record the storage-boundary events of the concurrent run (C08 under concurrency): the recording
	// wrapper's mutex totally orders page writes and log writes
	var iotw *trace.Writer
	if p := os.Getenv("VERIF_IOTRACE"); p != "" {
		iotw, err = trace.New(p)
		if err != nil {
			return err
		}
		defer iotw.Close()
	}
	for w := 0; w < windows; w++ {
		dbCounter++
		memKB := 2000
		if iotw != nil {
			memKB = 64 + 32*(w%3) // small pools: evictions under concurrency
			heap := map[int]bool{}
			iotw.Emit(map[string]interface{}{"ev": "Reset", "memKB": memKB})
			samehada.VerifWrapDisk = func(d disk.DiskManager, dbName string) disk.DiskManager {
				rec := iorec.NewRec(d)
				rec.Hook = func(idx int, op *iorec.Op) {
					switch op.Kind {
					case "L":
						recs, ok := parseLog(op.Data)
						rj := [][]int{}
						for _, r := range recs {
							rj = append(rj, []int{r.Lsn, r.Txn, r.Typ, r.Size, r.Prev})
							if r.Typ == 9 {
								heap[r.B] = true
							}
						}
						iotw.Emit(map[string]interface{}{"ev": "WLog", "io": idx, "recs": rj, "parsed": ok, "bytes": len(op.Data)})
					case "P":
						lsn := int(int32(binary.LittleEndian.Uint32(op.Data[4:8])))
						iotw.Emit(map[string]interface{}{"ev": "WPage", "io": idx, "p": int(op.Page), "lsn": lsn, "heap": heap[int(op.Page)]})
					}
				}
				return rec
			}
		}
		e, pm := eng.Open(fmt.Sprintf("vrm%d", dbCounter), memKB, false)
		samehada.VerifWrapDisk = nil
		if e == nil {
			return fmt.Errorf("open: %s", pm)
		}
		e.Exec("CREATE TABLE rt(k int, v int);")
		init := [][]int{}
		for k := 0; k < nkeys; k++ {
			e.Exec(fmt.Sprintf("INSERT INTO rt(k, v) VALUES (%d, %d);", k, k+1))
			init = append(init, []int{k, k + 1})
		}
		if w%2 == 0 {
			e.RefreshStats()
		}
		tw.Emit(map[string]interface{}{"ev": "Reset", "rows": init, "clients": nclients, "gomaxprocs": procs})
		var clock int64
		var ver int64 = 100
		var nextKey int64 = 100
		recs := make([][]*callRec, nclients)
		var wg sync.WaitGroup
		stuck := int32(0)
		withInserts := w%3 == 2 // insert windows check exactly-once; the serial-order claim is for windows without them
		for ci := 0; ci < nclients; ci++ {
			wg.Add(1)
			seed := rng.Int63()
			go func(ci int, seed int64) {
				defer wg.Done()
				r := rand.New(rand.NewSource(seed))
				for i := 0; i < ncalls; i++ {
					rec := &callRec{c: ci*100000 + i}
					a := r.Intn(nkeys)
					b := a + r.Intn(nkeys-a)
					var sql string
					x := r.Intn(10)
					switch {
					case withInserts && x < 5:
						rec.k, rec.a = "ins", int(atomic.AddInt64(&nextKey, 1))
						rec.v = int(atomic.AddInt64(&ver, 1))
						sql = fmt.Sprintf("INSERT INTO rt(k, v) VALUES (%d, %d);", rec.a, rec.v)
					case !withInserts && x < 5:
						rec.k, rec.a, rec.b = "upd", a, b
						rec.v = int(atomic.AddInt64(&ver, 1))
						sql = fmt.Sprintf("UPDATE rt SET v = %d WHERE k >= %d AND k <= %d;", rec.v, a, b)
					default:
						rec.k, rec.a, rec.b = "read", a, b
						if withInserts {
							rec.a, rec.b = 0, nkeys-1 // reads of the fixed rows only
						}
						sql = fmt.Sprintf("SELECT k, v FROM rt WHERE k >= %d AND k <= %d;", rec.a, rec.b)
					}
					rec.inv = atomic.AddInt64(&clock, 1)
					done := make(chan struct{})
					var rerr error
					var rows [][]interface{}
					go func() {
						rerr, rows = e.DB.ExecuteSQL(sql)
						close(done)
					}()
					select {
					case <-done:
					case <-time.After(60 * time.Second):
						atomic.StoreInt32(&stuck, 1)
						rec.res = "stuck"
						rec.ret = atomic.AddInt64(&clock, 1)
						recs[ci] = append(recs[ci], rec)
						return
					}
					rec.ret = atomic.AddInt64(&clock, 1)
					if rerr != nil {
						rec.res = "err:" + rerr.Error()
					} else {
						rec.res = "ok"
						rec.rows = ifRows(rows)
					}
					recs[ci] = append(recs[ci], rec)
				}
			}(ci, seed)
		}
		wg.Wait()
		// final read closes the history
		fin := &callRec{c: 99999999, k: "read", a: 0, b: 1000000}
		fin.inv = atomic.AddInt64(&clock, 1)
		ferr, frows := e.DB.ExecuteSQL("SELECT k, v FROM rt WHERE k >= 0 AND k <= 1000000;")
		fin.ret = atomic.AddInt64(&clock, 1)
		if ferr != nil {
			fin.res = "err:" + ferr.Error()
		} else {
			fin.res, fin.rows = "ok", ifRows(frows)
		}
		// merge by the shared counter
		type evt struct {
			at  int64
			inv bool
			r   *callRec
		}
		evs := []evt{}
		for _, l := range append(recs, []*callRec{fin}) {
			for _, r := range l {
				evs = append(evs, evt{r.inv, true, r}, evt{r.ret, false, r})
			}
		}
		sort.Slice(evs, func(i, j int) bool { return evs[i].at < evs[j].at })
		for _, x := range evs {
			if x.inv {
				rows := x.r.rows
				if rows == nil {
					rows = [][]int{}
				}
				tw.Emit(map[string]interface{}{"ev": "Inv", "c": x.r.c, "k": x.r.k, "a": x.r.a, "b": x.r.b, "v": x.r.v, "res": x.r.res, "rows": rows})
			} else {
				tw.Emit(map[string]interface{}{"ev": "Ret", "c": x.r.c})
			}
		}
		if stuck != 0 {
			tw.Flush()
			tw.Close()
			os.Exit(3)
		}
	}
	return tw.Close()
}

func rmGate(args []string) error {
	tw, err := trace.New(args[0])
	if err != nil {
		return err
	}
	e, pm := eng.Open("vrmgate", 2000, false)
	if e == nil {
		return fmt.Errorf("open: %s", pm)
	}
	e.Exec("CREATE TABLE gt(k int, v int);")
	e.Exec("INSERT INTO gt(k, v) VALUES (1, 1);")
	gate := make(chan struct{})
	var first int32
	samehada.VerifRM = func(ev string, id uint64) {
		if ev == "enqueued" && atomic.CompareAndSwapInt32(&first, 0, 1) {
			<-gate // this caller has enqueued its request but not yet sent its wake-up
		}
	}
	const callers = 103
	var returned int32
	var wg sync.WaitGroup
	call := func() {
		defer wg.Done()
		err, _ := e.DB.ExecuteSQL("SELECT k, v FROM gt WHERE k = 1;")
		if err == nil {
			atomic.AddInt32(&returned, 1)
		}
	}
	wg.Add(1)
	go call() // B: parks at the gate
	for atomic.LoadInt32(&first) == 0 {
		time.Sleep(time.Millisecond)
	}
	wg.Add(1)
	go call() // A: wakes the loop, which runs B's request and wants to deliver its result
	time.Sleep(200 * time.Millisecond)
	for i := 0; i < callers-2; i++ {
		wg.Add(1)
		go call()
	}
	time.Sleep(300 * time.Millisecond)
	close(gate)
	fin := make(chan struct{})
	go func() { wg.Wait(); close(fin) }()
	select {
	case <-fin:
	case <-time.After(20 * time.Second):
	}
	samehada.VerifRM = nil
	tw.Emit(map[string]interface{}{"ev": "Reset", "rows": [][]int{}})
	tw.Emit(map[string]interface{}{"ev": "Gate", "callers": callers, "returned": int(atomic.LoadInt32(&returned))})
	return tw.Close()
}
