package main

// Driver for C12: concurrent ExecuteSQL calls through the real request manager.
//   rm hist <out.ndjson> <windows> <clients> <calls per client> <gomaxprocs>
//       windows of concurrent single-statement reads / multi-row updates over overlapping key ranges and
//       inserts of unique keys; invoke / return events ordered by a shared atomic counter.
//   rm gate <out.ndjson>
//       the directed schedule of the request manager's deadlock: one caller parked between enqueue and
//       wake-up send (hook H5), the loop woken by another caller, more callers than inCh has capacity.

import (
	"github.com/ryogrid/SamehadaDB/lib/types"
	"github.com/ryogrid/SamehadaDB/lib/storage/table/schema"
	"github.com/ryogrid/SamehadaDB/lib/storage/table/column"
	"github.com/ryogrid/SamehadaDB/lib/storage/index/index_constants"
	"strings"
	"github.com/ryogrid/SamehadaDB/lib/storage/access"
	"fmt"
	"math/rand"
	"os"
	"runtime"
	"sort"
	"strconv"
	"sync"
	"sync/atomic"
	"time"

	"github.com/ryogrid/SamehadaDB/lib/samehada"
	"github.com/ryogrid/SamehadaDB/lib/storage/disk"
	"verif/harness/internal/iorec"
	"verif/harness/internal/eng"
	"verif/harness/internal/trace"
)

func init() { drivers["rm"] = rmDriver }

type callRec struct {
	inv, ret int64
	c        int
	k        string
	a, b, v  int
	res      string
	rows     [][]int
}

func ifRows(rows [][]interface{}) [][]int {
	out := [][]int{}
	for _, r := range rows {
		if len(r) >= 2 {
			k, ok1 := r[0].(int32)
			v, ok2 := r[1].(int32)
			if ok1 && ok2 {
				out = append(out, []int{int(k), int(v)})
				continue
			}
		}
		out = append(out, []int{-99, -99})
	}
	return out
}

func rmDriver(args []string) error {
	eng.Quiet()
	switch args[0] {
	case "hist":
		return rmHist(args[1:])
	case "gate":
		return rmGate(args[1:])
	case "io":
		return rmIO(args[1:])
	case "logstorm":
		return rmLogStorm(args[1:])
	}
	return fmt.Errorf("rm hist|gate|io")
}

func rmHist(args []string) error {
	tw, err := trace.New(args[0])
	if err != nil {
		return err
	}
	windows, _ := strconv.Atoi(args[1])
	nclients, _ := strconv.Atoi(args[2])
	ncalls, _ := strconv.Atoi(args[3])
	procs, _ := strconv.Atoi(args[4])
	runtime.GOMAXPROCS(procs)
	rng := rand.New(rand.NewSource(envSeed()))
	nkeys := 8
	// wide mode: one group of 40 rows, full-range reads by the first three clients and full-range updates by the
	// others: long scans that overlap each other and whole multi-row updates (torn reads need two readers + a writer)
	wide := os.Getenv("VERIF_RM_WIDE") != ""
	if wide {
		nkeys = 40
	}
	// optionally record the storage-boundary events of the concurrent run (C08 under concurrency): the recording
	// wrapper's mutex totally orders page writes and log writes
	var iotw *trace.Writer
	if p := os.Getenv("VERIF_IOTRACE"); p != "" {
		iotw, err = trace.New(p)
		if err != nil {
			return err
		}
		defer iotw.Close()
	}
	// optionally record the Run loop's protocol events (hook VerifRM) for RunLoopTrace
	var ptw *trace.Writer
	if p := os.Getenv("VERIF_RMTRACE"); p != "" {
		ptw, err = trace.New(p)
		if err != nil {
			return err
		}
		defer ptw.Close()
	}
	for w := 0; w < windows; w++ {
		dbCounter++
		memKB := 2000
		if iotw != nil {
			memKB = 64 + 32*(w%3) // small pools: evictions under concurrency
			heap := map[int]bool{}
			iotw.Emit(map[string]interface{}{"ev": "Reset", "memKB": memKB})
			samehada.VerifWrapDisk = func(d disk.DiskManager, dbName string) disk.DiskManager {
				rec := iorec.NewRec(d)
				rec.Hook = ioHook(iotw, heap)
				// the device is not serialised; in two windows of three the log device is slow, so that log writes
				// stay in flight while other goroutines evict pages and commit
				rec.Concurrent = true
				if w%3 != 0 {
					rec.LogDelay = time.Duration(200+300*(w%3)) * time.Microsecond
				}
				return rec
			}
		}
		e, pm := eng.Open(fmt.Sprintf("vrm%d", dbCounter), memKB, false)
		samehada.VerifWrapDisk = nil
		if iotw != nil {
			// commit return marker (hook H3b: after the commit's log force, before its locks are released)
			access.VerifTxnEnd = func(kind string, txn *access.Transaction) {
				if kind == "commit" {
					iotw.Emit(map[string]interface{}{"ev": "CommitDone", "tid": int(txn.GetTransactionID())})
				}
			}
		}
		if e == nil {
			return fmt.Errorf("open: %s", pm)
		}
		// every third window: the rows carry a string that the updates make longer or shorter, so that multi-row
		// updates move rows to other slots and pages - and statements aborted half-way by a lock conflict have to
		// move them back (the retried statement and every later one reach the rows through the index of k)
		reloc := w%3 == 1 && !wide
		init := [][]int{}
		if reloc {
			e.Exec("CREATE TABLE rt(k int, v int, p varchar(500));")
		} else {
			e.Exec("CREATE TABLE rt(k int, v int);")
		}
		for k := 0; k < nkeys; k++ {
			if reloc {
				e.Exec(fmt.Sprintf("INSERT INTO rt(k, v, p) VALUES (%d, %d, '%s');", k, k+1, strings.Repeat("i", 20+13*(k%7))))
			} else {
				e.Exec(fmt.Sprintf("INSERT INTO rt(k, v) VALUES (%d, %d);", k, k+1))
			}
			init = append(init, []int{k, k + 1})
		}
		if w%2 == 0 {
			e.RefreshStats()
		}
		tw.Emit(map[string]interface{}{"ev": "Reset", "rows": init, "clients": nclients, "gomaxprocs": procs})
		if ptw != nil {
			ptw.Emit(map[string]interface{}{"ev": "Reset"})
			samehada.VerifRM = func(ev string, id uint64) {
				n := 0
				if id != ^uint64(0) {
					n = int(id) + 1
				}
				ptw.Emit(map[string]interface{}{"ev": ev, "id": n})
			}
		}
		var clock int64
		var ver int64 = 100
		var nextKey int64 = 100
		recs := make([][]*callRec, nclients)
		var wg sync.WaitGroup
		stuck := int32(0)
		withInserts := w%3 == 2 && !wide // insert windows check exactly-once; the serial-order claim is for windows without them
		for ci := 0; ci < nclients; ci++ {
			wg.Add(1)
			seed := rng.Int63()
			go func(ci int, seed int64) {
				defer wg.Done()
				r := rand.New(rand.NewSource(seed))
				for i := 0; i < ncalls && atomic.LoadInt32(&stuck) == 0; i++ { // (one call that does not return ends the window)
					rec := &callRec{c: ci*100000 + i}
					a := r.Intn(nkeys)
					b := a + r.Intn(nkeys-a)
					var sql string
					x := r.Intn(10)
					if wide {
						a, b = 0, nkeys-1
						x = 9
						if ci >= 3 {
							x = 0
						}
					}
					switch {
					case withInserts && x < 5:
						rec.k, rec.a = "ins", int(atomic.AddInt64(&nextKey, 1))
						rec.v = int(atomic.AddInt64(&ver, 1))
						sql = fmt.Sprintf("INSERT INTO rt(k, v) VALUES (%d, %d);", rec.a, rec.v)
					case !withInserts && x < 5:
						rec.k, rec.a, rec.b = "upd", a, b
						rec.v = int(atomic.AddInt64(&ver, 1))
						sql = fmt.Sprintf("UPDATE rt SET v = %d WHERE k >= %d AND k <= %d;", rec.v, a, b)
						if reloc {
							sql = fmt.Sprintf("UPDATE rt SET v = %d, p = '%s' WHERE k >= %d AND k <= %d;", rec.v, strings.Repeat("u", 5+r.Intn(400)), a, b)
						}
					default:
						rec.k, rec.a, rec.b = "read", a, b
						if withInserts {
							rec.a, rec.b = 0, nkeys-1 // reads of the fixed rows only
						}
						sql = fmt.Sprintf("SELECT k, v FROM rt WHERE k >= %d AND k <= %d;", rec.a, rec.b)
					}
					rec.inv = atomic.AddInt64(&clock, 1)
					done := make(chan struct{})
					var rerr error
					var rows [][]interface{}
					go func() {
						rerr, rows = e.DB.ExecuteSQL(sql)
						close(done)
					}()
					select {
					case <-done:
					case <-time.After(60 * time.Second):
						atomic.StoreInt32(&stuck, 1)
						rec.res = "stuck"
						rec.ret = atomic.AddInt64(&clock, 1)
						recs[ci] = append(recs[ci], rec)
						return
					}
					rec.ret = atomic.AddInt64(&clock, 1)
					if rerr != nil {
						rec.res = "err:" + rerr.Error()
					} else {
						rec.res = "ok"
						rec.rows = ifRows(rows)
					}
					recs[ci] = append(recs[ci], rec)
				}
			}(ci, seed)
		}
		// every fourth window: checkpoints (BeginCheckpoint blocks new transactions, waits for the running ones, forces
		// the log and writes every dirty page; EndCheckpoint lets them go on) fired from another goroutine all the time
		ckptStop := make(chan struct{})
		ckptDone := make(chan int, 1)
		if w%4 == 3 {
			go func() {
				n := 0
				for {
					select {
					case <-ckptStop:
						ckptDone <- n
						return
					default:
					}
					e.DB.ForceCheckpointingForTestcase()
					n++
					time.Sleep(time.Millisecond)
				}
			}()
		} else {
			ckptDone <- 0
		}
		wg.Wait()
		close(ckptStop)
		select {
		case <-ckptDone:
		case <-time.After(60 * time.Second):
			atomic.StoreInt32(&stuck, 1) // a checkpoint that never ends blocks every later call
		}
		access.VerifTxnEnd = nil
		// final read closes the history
		fin := &callRec{c: 99999999, k: "read", a: 0, b: 1000000}
		fin.inv = atomic.AddInt64(&clock, 1)
		var ferr error
		var frows [][]interface{}
		fdone := make(chan struct{})
		go func() {
			ferr, frows = e.DB.ExecuteSQL("SELECT k, v FROM rt WHERE k >= 0 AND k <= 1000000;")
			close(fdone)
		}()
		select {
		case <-fdone:
		case <-time.After(60 * time.Second):
			atomic.StoreInt32(&stuck, 1)
			ferr = fmt.Errorf("stuck")
		}
		fin.ret = atomic.AddInt64(&clock, 1)
		if ptw != nil {
			time.Sleep(20 * time.Millisecond) // let the Run loop finish the turn of the last delivery
			samehada.VerifRM = nil
		}
		if ferr != nil && ferr.Error() == "stuck" {
			fin.res = "stuck"
		} else if ferr != nil {
			fin.res = "err:" + ferr.Error()
		} else {
			fin.res, fin.rows = "ok", ifRows(frows)
		}
		// merge by the shared counter
		type evt struct {
			at  int64
			inv bool
			r   *callRec
		}
		evs := []evt{}
		for _, l := range append(recs, []*callRec{fin}) {
			for _, r := range l {
				evs = append(evs, evt{r.inv, true, r}, evt{r.ret, false, r})
			}
		}
		sort.Slice(evs, func(i, j int) bool { return evs[i].at < evs[j].at })
		for _, x := range evs {
			if x.inv {
				rows := x.r.rows
				if rows == nil {
					rows = [][]int{}
				}
				tw.Emit(map[string]interface{}{"ev": "Inv", "c": x.r.c, "k": x.r.k, "a": x.r.a, "b": x.r.b, "v": x.r.v, "res": x.r.res, "rows": rows})
			} else {
				tw.Emit(map[string]interface{}{"ev": "Ret", "c": x.r.c})
			}
		}
		if stuck != 0 {
			tw.Flush()
			tw.Close()
			os.Exit(3)
		}
	}
	return tw.Close()
}

func rmGate(args []string) error {
	tw, err := trace.New(args[0])
	if err != nil {
		return err
	}
	e, pm := eng.Open("vrmgate", 2000, false)
	if e == nil {
		return fmt.Errorf("open: %s", pm)
	}
	e.Exec("CREATE TABLE gt(k int, v int);")
	e.Exec("INSERT INTO gt(k, v) VALUES (1, 1);")
	gate := make(chan struct{})
	var first int32
	samehada.VerifRM = func(ev string, id uint64) {
		if ev == "enqueued" && atomic.CompareAndSwapInt32(&first, 0, 1) {
			<-gate // this caller has enqueued its request but not yet sent its wake-up
		}
	}
	const callers = 103
	var returned int32
	var wg sync.WaitGroup
	call := func() {
		defer wg.Done()
		err, _ := e.DB.ExecuteSQL("SELECT k, v FROM gt WHERE k = 1;")
		if err == nil {
			atomic.AddInt32(&returned, 1)
		}
	}
	wg.Add(1)
	go call() // B: parks at the gate
	for atomic.LoadInt32(&first) == 0 {
		time.Sleep(time.Millisecond)
	}
	wg.Add(1)
	go call() // A: wakes the loop, which runs B's request and wants to deliver its result
	time.Sleep(200 * time.Millisecond)
	for i := 0; i < callers-2; i++ {
		wg.Add(1)
		go call()
	}
	time.Sleep(300 * time.Millisecond)
	close(gate)
	fin := make(chan struct{})
	go func() { wg.Wait(); close(fin) }()
	select {
	case <-fin:
	case <-time.After(20 * time.Second):
	}
	samehada.VerifRM = nil
	tw.Emit(map[string]interface{}{"ev": "Reset", "rows": [][]int{}})
	tw.Emit(map[string]interface{}{"ev": "Gate", "callers": callers, "returned": int(atomic.LoadInt32(&returned))})
	return tw.Close()
}

// rm io <iotrace.ndjson> <windows> <gomaxprocs>: storage-boundary events of concurrent runs in which the heap is
// several times the pool and the log device is slow: writers (single-row updates, inserts) commit while readers
// (full scans) keep evicting dirty pages, so page writes are issued while log writes are in flight.
func rmIO(args []string) error {
	iotw, err := trace.New(args[0])
	if err != nil {
		return err
	}
	windows, _ := strconv.Atoi(args[1])
	procs, _ := strconv.Atoi(args[2])
	runtime.GOMAXPROCS(procs)
	rng := rand.New(rand.NewSource(envSeed()))
	pay := strings.Repeat("w", 900)
	for w := 0; w < windows; w++ {
		dbCounter++
		memKB := 96 + 32*(w%2)
		heap := map[int]bool{}
		delay := time.Duration(500+500*(w%4)) * time.Microsecond
		iotw.Emit(map[string]interface{}{"ev": "Reset", "memKB": memKB, "logDelayUs": int(delay / time.Microsecond)})
		samehada.VerifWrapDisk = func(d disk.DiskManager, dbName string) disk.DiskManager {
			rec := iorec.NewRec(d)
			rec.Hook = ioHook(iotw, heap)
			rec.Concurrent = true
			rec.LogDelay = delay
			return rec
		}
		e, pm := eng.Open(fmt.Sprintf("vrmio%d", dbCounter), memKB, false)
		samehada.VerifWrapDisk = nil
		if e == nil {
			return fmt.Errorf("open: %s", pm)
		}
		access.VerifTxnEnd = func(kind string, txn *access.Transaction) {
			if kind == "commit" {
				iotw.Emit(map[string]interface{}{"ev": "CommitDone", "tid": int(txn.GetTransactionID())})
			}
		}
		e.Exec("CREATE TABLE bt(k int, v int, p varchar(1000));")
		nrows := 140 + rng.Intn(60)
		for k := 0; k < nrows; k++ {
			e.Exec(fmt.Sprintf("INSERT INTO bt(k, v, p) VALUES (%d, %d, '%s');", k, k, pay[:600+rng.Intn(300)]))
		}
		var ver int64 = 1000
		var nextKey int64 = 100000
		var wg sync.WaitGroup
		stop := int32(0)
		for g := 0; g < 6; g++ {
			wg.Add(1)
			seed := rng.Int63()
			go func(g int, seed int64) {
				defer wg.Done()
				r := rand.New(rand.NewSource(seed))
				for i := 0; i < 25 && atomic.LoadInt32(&stop) == 0; i++ {
					var sql string
					switch {
					case g < 3 && r.Intn(4) == 0:
						sql = fmt.Sprintf("INSERT INTO bt(k, v, p) VALUES (%d, %d, '%s');", atomic.AddInt64(&nextKey, 1), atomic.AddInt64(&ver, 1), pay[:500+r.Intn(400)])
					case g < 3:
						sql = fmt.Sprintf("UPDATE bt SET v = %d WHERE k = %d;", atomic.AddInt64(&ver, 1), r.Intn(nrows))
					default:
						sql = "SELECT k, v FROM bt WHERE v >= 0 OR v >= 0;"
					}
					done := make(chan struct{})
					go func() { e.DB.ExecuteSQL(sql); close(done) }()
					select {
					case <-done:
					case <-time.After(60 * time.Second):
						atomic.StoreInt32(&stop, 1)
						iotw.Emit(map[string]interface{}{"ev": "End", "stuck": shortSQL(sql)})
						return
					}
				}
			}(g, seed)
		}
		// every second window: checkpoints fired all the time from another goroutine (their page writes and log forces
		// are judged by the same write-ahead rules)
		ckptStop := make(chan struct{})
		ckptDone := make(chan struct{})
		go func() {
			defer close(ckptDone)
			for w%2 == 1 {
				select {
				case <-ckptStop:
					return
				default:
				}
				e.DB.ForceCheckpointingForTestcase()
				time.Sleep(2 * time.Millisecond)
			}
		}()
		wg.Wait()
		close(ckptStop)
		select {
		case <-ckptDone:
		case <-time.After(60 * time.Second):
			atomic.StoreInt32(&stop, 1)
			iotw.Emit(map[string]interface{}{"ev": "End", "stuck": "checkpoint"})
		}
		access.VerifTxnEnd = nil
		if atomic.LoadInt32(&stop) != 0 {
			iotw.Close()
			os.Exit(3)
		}
	}
	return iotw.Close()
}

// rm logstorm <iotrace.ndjson> <windows> <gomaxprocs>: bulk writers against a slow log device.  Six goroutines rewrite
// all rows of their own table (about 230 KB of log records per statement), so that the log buffer (516 KB) fills
// several times per round while a log write is in flight: exercises the "buffer full" exits of AppendLogRecord under
// concurrency (spec/LogBuffer).
func rmLogStorm(args []string) error {
	ioLite = true
	iotw, err := trace.New(args[0])
	if err != nil {
		return err
	}
	windows, _ := strconv.Atoi(args[1])
	procs, _ := strconv.Atoi(args[2])
	runtime.GOMAXPROCS(procs)
	rng := rand.New(rand.NewSource(envSeed()))
	pays := []string{strings.Repeat("a", 900), strings.Repeat("b", 900), strings.Repeat("c", 900)}
	for w := 0; w < windows; w++ {
		dbCounter++
		heap := map[int]bool{}
		delay := time.Duration(20+40*(w%3)) * time.Millisecond
		iotw.Emit(map[string]interface{}{"ev": "Reset", "logDelayUs": int(delay / time.Microsecond)})
		var theRec *iorec.Rec
		samehada.VerifWrapDisk = func(d disk.DiskManager, dbName string) disk.DiskManager {
			rec := iorec.NewRec(d)
			rec.Hook = ioHook(iotw, heap)
			rec.Concurrent = true
			theRec = rec
			return rec
		}
		e, pm := eng.Open(fmt.Sprintf("vrmls%d", dbCounter), 100000, false)
		samehada.VerifWrapDisk = nil
		if e == nil {
			return fmt.Errorf("open: %s", pm)
		}
		const ntab, nrows = 6, 1500
		for t := 0; t < ntab; t++ {
			func() { // k indexed (skip list), the payload column not
				cols := []*column.Column{
					column.NewColumn("k", types.Integer, true, index_constants.IndexKindSkipList, types.PageID(-1), nil),
					column.NewColumn("p", types.Varchar, false, index_constants.IndexKindInvalid, types.PageID(-1), nil),
				}
				txn := e.TM().Begin(nil)
				e.Catalog().CreateTable(fmt.Sprintf("ls%d", t), schema.NewSchema(cols), txn)
				e.TM().Commit(e.Catalog(), txn)
			}()
			for k := 0; k < nrows; k++ {
				e.Exec(fmt.Sprintf("INSERT INTO ls%d(k, p) VALUES (%d, '%s');", t, k, pays[0]))
			}
		}
		theRec.LogDelay = delay // the log device becomes slow once the tables are loaded
		var wg sync.WaitGroup
		var fails int32
		for g := 0; g < ntab; g++ {
			wg.Add(1)
			seed := rng.Int63()
			go func(g int, seed int64) {
				defer wg.Done()
				for i := 0; i < 2 && atomic.LoadInt32(&fails) == 0; i++ {
					sql := fmt.Sprintf("UPDATE ls%d SET p = '%s' WHERE k >= 0;", g, pays[(i+1)%3])
					done := make(chan string, 1)
					go func() {
						defer func() {
							if x := recover(); x != nil {
								done <- "panic:" + shortSQL(fmt.Sprint(x))
							}
						}()
						err, _ := e.DB.ExecuteSQL(sql)
						if err != nil {
							done <- "err:" + err.Error()
						} else {
							done <- "ok"
						}
					}()
					var res string
					select {
					case res = <-done:
					case <-time.After(90 * time.Second):
						res = "stuck"
					}
					if res != "ok" {
						atomic.AddInt32(&fails, 1)
						iotw.Emit(map[string]interface{}{"ev": "IoFail", "res": res, "sql": shortSQL(sql)})
					}
				}
			}(g, seed)
		}
		wg.Wait()
		if atomic.LoadInt32(&fails) != 0 {
			iotw.Close()
			os.Exit(3)
		}
	}
	return iotw.Close()
}
