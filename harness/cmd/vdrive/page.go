package main

// Driver for C15 (SlottedPage spec): performs TablePage operations on one real page in
// recovery-phase mode (no locks, logging off), records outcome and the projection
// (slot array, free-space pointer, decoded content tag of every occupied row, header fields).

import (
	"encoding/binary"
	"encoding/json"
	"fmt"
	"math/rand"
	"os"
	"strconv"
	"time"

	"github.com/ryogrid/SamehadaDB/lib/common"
	"github.com/ryogrid/SamehadaDB/lib/recovery"
	"github.com/ryogrid/SamehadaDB/lib/storage/access"
	"github.com/ryogrid/SamehadaDB/lib/storage/disk"
	"github.com/ryogrid/SamehadaDB/lib/storage/page"
	"github.com/ryogrid/SamehadaDB/lib/storage/tuple"
	"github.com/ryogrid/SamehadaDB/lib/types"
	"verif/harness/internal/trace"
)

func init() { drivers["page"] = pageDriver }

const pgID = 7

type pageEnv struct {
	tw  *trace.Writer
	tp  *access.TablePage
	lg  *recovery.LogManager
	lm  *access.LockManager
	txn *access.Transaction
	tag int
}

func newPageEnv() *pageEnv {
	dm := disk.NewVirtualDiskManagerImpl("pagedrv.db")
	lg := recovery.NewLogManager(&dm)
	lg.DeactivateLogging()
	lm := access.NewLockManager(access.STRICT, access.SS2PLMode)
	txn := access.NewTransaction(1)
	txn.SetIsRecoveryPhase(true)
	buf := new([common.PageSize]byte)
	// dirty the buffer first so that Init has to establish the header itself
	for i := range buf {
		buf[i] = 0
	}
	pg := page.NewEmpty(types.PageID(pgID), buf)
	tp := access.CastPageAsTablePage(pg)
	tp.Init(types.PageID(pgID), types.InvalidPageID, lg, lm, txn, false)
	return &pageEnv{tp: tp, lg: lg, lm: lm, txn: txn}
}

// payload of a write: determined by (tag, size); the first min(size,4) bytes carry the tag (LE)
func payload(tag, size int) []byte {
	b := make([]byte, size)
	var t4 [4]byte
	binary.LittleEndian.PutUint32(t4[:], uint32(tag))
	for k := 0; k < size; k++ {
		if k < 4 {
			b[k] = t4[k]
		} else {
			b[k] = byte((tag*131 + k*7 + size) % 251)
		}
	}
	return b
}

// decodeTag returns the tag whose payload equals b, -2 if b is not a payload this driver wrote
func decodeTag(b []byte) int {
	var t4 [4]byte
	copy(t4[:], b)
	tag := int(binary.LittleEndian.Uint32(t4[:]))
	p := payload(tag, len(b))
	for i := range b {
		if p[i] != b[i] {
			return -2
		}
	}
	return tag
}

func tagMod(tag, size int) int {
	if size >= 4 {
		return tag
	}
	return tag % (1 << (8 * uint(size)))
}

func (e *pageEnv) rid(i int) *page.RID {
	r := &page.RID{}
	r.Set(types.PageID(pgID), uint32(i))
	return r
}

func (e *pageEnv) project(ev map[string]interface{}) {
	tp := e.tp
	cnt := int(tp.GetTupleCount())
	ev["cnt"] = cnt
	ev["fsp"] = int(tp.GetFreeSpacePointer())
	slots := make([]interface{}, 0, cnt)
	data := tp.Data()
	if cnt > 500 {
		cnt = 500
	}
	for i := 0; i < cnt; i++ {
		off := int(tp.GetTupleOffsetAtSlot(uint32(i)))
		raw := tp.GetTupleSize(uint32(i))
		mark := raw&(1<<31) != 0
		size := int(raw &^ (1 << 31))
		tag := -1
		if size > 0 {
			if off >= 0 && off+size <= common.PageSize {
				tag = decodeTag(data[off : off+size])
			} else {
				tag = -3
			}
		}
		slots = append(slots, map[string]interface{}{"off": off, "size": size, "mark": mark, "tag": tag})
	}
	ev["slots"] = slots
	ev["pid"] = int(types.NewPageIDFromBytes(data[0:4]))
	ev["prev"] = int(types.NewPageIDFromBytes(data[8:12]))
	ev["next"] = int(tp.GetNextPageID())
}

// op: [name, args...]; indices are 1-based as in the spec
func (e *pageEnv) do(op []string) map[string]interface{} {
	ev := map[string]interface{}{"ev": op[0], "panic": ""}
	atoi := func(s string) int { v, _ := strconv.Atoi(s); return v }
	if e.tw != nil {
		wd := opWatch(e.tw, map[string]interface{}{"ev": op[0], "i": 0, "s": 0, "rb": false, "tag": 0}, 20*time.Second,
			map[string]interface{}{"cnt": 0, "fsp": 0, "slots": []interface{}{}, "pid": pgID, "prev": -1, "next": -1})
		defer wd.Stop()
	}
	func() {
		defer func() {
			if x := recover(); x != nil {
				ev["panic"] = fmt.Sprint(x)
				ev["res"] = "panic"
			}
		}()
		switch op[0] {
		case "Insert":
			s := atoi(op[1])
			e.tag++
			tg := e.tag
			ev["s"], ev["tag"] = s, tagMod(tg, s)
			tpl := tuple.NewTuple(nil, uint32(s), payload(tg, s))
			rid, err := e.tp.InsertTuple(tpl, e.lg, e.lm, e.txn)
			if err != nil {
				if err == access.ErrNotEnoughSpace {
					ev["res"] = "nospace"
				} else {
					ev["res"] = "err:" + err.Error()
				}
				ev["i"] = 0
			} else {
				ev["res"] = "ok"
				ev["i"] = int(rid.GetSlotNum()) + 1
				if rid.GetPageID() != types.PageID(pgID) {
					ev["res"] = "wrongpage"
				}
			}
		case "Update":
			i, s := atoi(op[1]), atoi(op[2])
			rb := op[3] == "TRUE"
			e.tag++
			tg := e.tag
			ev["i"], ev["s"], ev["rb"], ev["tag"] = i, s, rb, tagMod(tg, s)
			nt := tuple.NewTuple(e.rid(i-1), uint32(s), payload(tg, s))
			old := new(tuple.Tuple)
			ok, err, _ := e.tp.UpdateTuple(nt, nil, nil, old, e.rid(i-1), e.txn, e.lm, e.lg, rb)
			switch {
			case ok && err == nil:
				ev["res"] = "ok"
				ev["oldtag"] = decodeTag(old.Data()[:old.Size()])
			case err == access.ErrNotEnoughSpace:
				ev["res"] = "nospace"
			case err == access.ErrRollbackDifficult:
				ev["res"] = "rollbackdifficult"
			case !ok && err == nil:
				ev["res"] = "fail"
			default:
				ev["res"] = "err:" + err.Error()
			}
		case "MarkDelete":
			i := atoi(op[1])
			ev["i"] = i
			ok, tpl := e.tp.MarkDelete(e.rid(i-1), e.txn, e.lm, e.lg)
			if ok {
				ev["res"] = "ok"
				ev["tag"] = decodeTag(tpl.Data()[:tpl.Size()])
			} else {
				ev["res"] = "fail"
			}
		case "ApplyDelete":
			i := atoi(op[1])
			ev["i"] = i
			e.tp.ApplyDelete(e.rid(i-1), e.txn, e.lg)
			ev["res"] = "ok"
		case "RollbackDelete":
			i := atoi(op[1])
			ev["i"] = i
			e.tp.RollbackDelete(e.rid(i-1), e.txn, e.lg)
			ev["res"] = "ok"
		case "Get":
			i := atoi(op[1])
			ev["i"] = i
			tpl, err := e.tp.GetTuple(e.rid(i-1), e.lg, e.lm, e.txn)
			switch {
			case err == nil && tpl != nil:
				ev["res"] = "ok"
				ev["tag"] = decodeTag(tpl.Data()[:tpl.Size()])
				ev["size"] = int(tpl.Size())
			case err == access.ErrSelfDeletedCase:
				ev["res"] = "selfdeleted"
			case err == access.ErrGeneral:
				ev["res"] = "badslot"
			default:
				ev["res"] = "err:" + err.Error()
			}
		default:
			panic("unknown page op " + op[0])
		}
	}()
	e.project(ev)
	return ev
}

func pageDriver(args []string) error {
	switch args[0] {
	case "walk":
		// page walk <walks.json> <out.ndjson>
		var walks [][][]string
		b, err := os.ReadFile(args[1])
		if err != nil {
			return err
		}
		if err := json.Unmarshal(b, &walks); err != nil {
			return err
		}
		tw, err := trace.New(args[2])
		if err != nil {
			return err
		}
		for _, w := range walks {
			e := newPageEnv()
			e.tw = tw
			ev := map[string]interface{}{"ev": "Reset"}
			e.project(ev)
			tw.Emit(ev)
			for _, op := range w {
				// walk labels carry the model's tag argument last for Insert/Update; drop it
				switch op[0] {
				case "Insert", "BoundedInsert":
					op = []string{"Insert", op[1]}
				case "Update":
					op = op[:4]
				}
				tw.Emit(e.do(op))
			}
		}
		return tw.Close()
	case "random":
		// page random <out.ndjson> <sequences> <ops per sequence>
		nseq, _ := strconv.Atoi(args[2])
		nops, _ := strconv.Atoi(args[3])
		tw, err := trace.New(args[1])
		if err != nil {
			return err
		}
		rng := rand.New(rand.NewSource(envSeed()))
		for q := 0; q < nseq; q++ {
			e := newPageEnv()
			e.tw = tw
			ev := map[string]interface{}{"ev": "Reset"}
			e.project(ev)
			tw.Emit(ev)
			// size profile of this sequence
			prof := rng.Intn(4)
			size := func() int {
				switch prof {
				case 0:
					return 1 + rng.Intn(40)
				case 1:
					return 1 + rng.Intn(4064)
				case 2:
					c := []int{1, 2, 3, 4, 5, 8, 16, 100, 500, 1000, 2028, 2032, 2036, 4056, 4063, 4064}
					return c[rng.Intn(len(c))]
				default:
					if rng.Intn(3) == 0 {
						return 1 + rng.Intn(4064)
					}
					return 1 + rng.Intn(300)
				}
			}
			for k := 0; k < nops; k++ {
				cnt := int(e.tp.GetTupleCount())
				pick := func() string { return strconv.Itoa(1 + rng.Intn(cnt+1)) }
				// occupied slots only for ApplyDelete / RollbackDelete (they assert on empty ones)
				occ := []int{}
				for i := 0; i < cnt; i++ {
					if e.tp.GetTupleSize(uint32(i)) != 0 {
						occ = append(occ, i+1)
					}
				}
				r := rng.Intn(100)
				var op []string
				switch {
				case r < 30:
					op = []string{"Insert", strconv.Itoa(size())}
				case r < 55:
					rb := "FALSE"
					if rng.Intn(2) == 0 {
						rb = "TRUE"
					}
					op = []string{"Update", pick(), strconv.Itoa(size()), rb}
				case r < 67:
					op = []string{"MarkDelete", pick()}
				case r < 82:
					if len(occ) == 0 {
						continue
					}
					op = []string{"ApplyDelete", strconv.Itoa(occ[rng.Intn(len(occ))])}
				case r < 90:
					if len(occ) == 0 {
						continue
					}
					op = []string{"RollbackDelete", strconv.Itoa(occ[rng.Intn(len(occ))])}
				default:
					op = []string{"Get", pick()}
				}
				tw.Emit(e.do(op))
			}
		}
		return tw.Close()
	}
	return fmt.Errorf("unknown page mode")
}
