package main

// Driver for C18 (KeyEncoding spec): records what the real encode / decode / pack / unpack functions
// return for pairs of values and row ids (boundaries, +-2^k, +-2^k+-1, seeded random values).

import (
	"fmt"
	"math"
	"math/rand"
	"strconv"

	"github.com/ryogrid/SamehadaDB/lib/samehada/samehada_util"
	"github.com/ryogrid/SamehadaDB/lib/storage/page"
	"github.com/ryogrid/SamehadaDB/lib/types"
	"verif/harness/internal/trace"
)

func init() { drivers["enc"] = encDriver }

func ridJ(r page.RID) map[string]interface{} {
	return map[string]interface{}{"p": int(r.PageID), "s": []int{int(r.SlotNum >> 16), int(r.SlotNum & 0xffff)}}
}

func bytesJ(b []byte) []int {
	out := make([]int, len(b))
	for i, x := range b {
		out[i] = int(x)
	}
	return out
}

func floatJ(f float32) map[string]interface{} {
	u := math.Float32bits(f)
	return map[string]interface{}{"s": int(u >> 31), "m": int(u & 0x7fffffff)}
}

func encKey(v types.Value, r page.RID) []byte {
	enc := samehada_util.EncodeValueAndRIDToDicOrderComparableVarchar(&v, &r)
	return enc.SerializeOnlyVal()
}

// decKey decodes the encoding of (v, r); when the decoder panics, the answer is a value that differs from v (the
// round-trip clause then reports it)
func decKey(v types.Value, r page.RID) (out *types.Value) {
	defer func() {
		if x := recover(); x != nil {
			var d types.Value
			switch v.ValueType() {
			case types.Integer:
				d = types.NewInteger(^v.ToInteger())
			case types.Float:
				d = types.NewFloat(math.Float32frombits(math.Float32bits(v.ToFloat()) ^ 1))
			default:
				d = types.NewVarchar("\x01decoder panicked: " + fmt.Sprint(x))
			}
			out = &d
		}
	}()
	enc := samehada_util.EncodeValueAndRIDToDicOrderComparableVarchar(&v, &r)
	return samehada_util.ExtractOrgKeyFromDicOrderComparableEncodedVarchar(enc, v.ValueType())
}

func interestingRids(rng *rand.Rand) []page.RID {
	ps := []int32{0, 1, 2, 127, 128, 255, 256, 257, 65535, 65536, 0x00ffffff, 0x01000000, 0x7ffffffe, 0x7fffffff}
	ss := []uint32{0, 1, 2, 255, 256, 65535, 65536, 0x00ffffff, 0x7fffffff, 0x80000000, 0xfffffffe, 0xffffffff}
	out := []page.RID{}
	for _, p := range ps {
		for _, s := range ss {
			out = append(out, page.RID{PageID: types.PageID(p), SlotNum: s})
		}
	}
	for i := 0; i < 64; i++ {
		out = append(out, page.RID{PageID: types.PageID(rng.Int31()), SlotNum: rng.Uint32()})
	}
	return out
}

func encDriver(args []string) error {
	// enc vectors <out.ndjson> <random pairs per type>
	if args[0] == "sweep" {
		return encSweep(args[1:])
	}
	if args[0] != "vectors" {
		return fmt.Errorf("enc vectors ...")
	}
	n, _ := strconv.Atoi(args[2])
	tw, err := trace.New(args[1])
	if err != nil {
		return err
	}
	rng := rand.New(rand.NewSource(envSeed()))
	rids := interestingRids(rng)
	rid := func() page.RID { return rids[rng.Intn(len(rids))] }
	tw.Emit(map[string]interface{}{"ev": "Reset"})

	// ---- integers
	ints := []int32{math.MinInt32, math.MinInt32 + 1, -1, 0, 1, math.MaxInt32 - 1, math.MaxInt32}
	for k := uint(0); k < 31; k++ {
		p := int32(1) << k
		ints = append(ints, p, p-1, p+1, -p, -p-1, -p+1)
	}
	intEv := func(a, b int32) {
		ra, rb := rid(), rid()
		if rng.Intn(4) == 0 {
			rb = ra
		}
		va, vb := types.NewInteger(a), types.NewInteger(b)
		tw.Emit(map[string]interface{}{"ev": "Int", "a": int(a), "b": int(b), "ra": ridJ(ra), "rb": ridJ(rb),
			"ea": bytesJ(encKey(va, ra)), "eb": bytesJ(encKey(vb, rb)),
			"da": int(decKey(va, ra).ToInteger()), "db": int(decKey(vb, rb).ToInteger())})
	}
	for i := range ints {
		for j := 0; j < 6; j++ {
			intEv(ints[i], ints[rng.Intn(len(ints))])
		}
		intEv(ints[i], ints[i])
		if i+1 < len(ints) {
			intEv(ints[i], ints[i+1])
		}
	}
	for i := 0; i < n; i++ {
		a := int32(rng.Uint32())
		var b int32
		switch rng.Intn(4) {
		case 0:
			b = a + int32(rng.Intn(5)) - 2
		case 1:
			b = -a
		default:
			b = int32(rng.Uint32())
		}
		intEv(a, b)
	}

	// ---- floats (non-NaN)
	fb := []uint32{0, 0x80000000, 1, 0x80000001, 0x007fffff, 0x807fffff, 0x00800000, 0x80800000, 0x3f800000, 0xbf800000,
		0x7f7fffff, 0xff7fffff, 0x7f800000, 0xff800000, 0x00000002, 0x7f7ffffe}
	for k := uint(0); k < 31; k++ {
		fb = append(fb, uint32(1)<<k, (uint32(1)<<k)|0x80000000, (uint32(1)<<k)-1, ((uint32(1)<<k)-1)|0x80000000)
	}
	okf := func(u uint32) bool { return u&0x7fffffff <= 0x7f800000 }
	fl := []float32{}
	for _, u := range fb {
		if okf(u) {
			fl = append(fl, math.Float32frombits(u))
		}
	}
	fEv := func(a, b float32) {
		ra, rb := rid(), rid()
		if rng.Intn(4) == 0 {
			rb = ra
		}
		va, vb := types.NewFloat(a), types.NewFloat(b)
		tw.Emit(map[string]interface{}{"ev": "Float", "a": floatJ(a), "b": floatJ(b), "ra": ridJ(ra), "rb": ridJ(rb),
			"ea": bytesJ(encKey(va, ra)), "eb": bytesJ(encKey(vb, rb)),
			"da": floatJ(decKey(va, ra).ToFloat()), "db": floatJ(decKey(vb, rb).ToFloat()),
			"golt": a < b, "goeq": a == b})
	}
	for i := range fl {
		for j := 0; j < 6; j++ {
			fEv(fl[i], fl[rng.Intn(len(fl))])
		}
		fEv(fl[i], fl[i])
	}
	rf := func() float32 {
		for {
			u := rng.Uint32()
			if okf(u) {
				return math.Float32frombits(u)
			}
		}
	}
	for i := 0; i < n; i++ {
		a := rf()
		var b float32
		switch rng.Intn(4) {
		case 0:
			u := math.Float32bits(a)
			u2 := u + uint32(rng.Intn(5)) - 2
			if okf(u2) {
				b = math.Float32frombits(u2)
			} else {
				b = a
			}
		case 1:
			b = -a
		default:
			b = rf()
		}
		fEv(a, b)
	}

	// ---- strings (no NUL bytes)
	alpha := []byte{1, 2, 'a', 'b', 'z', 0x7f, 0x80, 0xfe, 0xff}
	rs := func() string {
		ln := rng.Intn(6)
		if rng.Intn(10) == 0 {
			ln = 30 + rng.Intn(400)
		}
		b := make([]byte, ln)
		for i := range b {
			b[i] = alpha[rng.Intn(len(alpha))]
		}
		return string(b)
	}
	sEv := func(a, b string) {
		ra, rb := rid(), rid()
		if rng.Intn(4) == 0 {
			rb = ra
		}
		va, vb := types.NewVarchar(a), types.NewVarchar(b)
		tw.Emit(map[string]interface{}{"ev": "Str", "a": bytesJ([]byte(a)), "b": bytesJ([]byte(b)), "ra": ridJ(ra), "rb": ridJ(rb),
			"ea": bytesJ(encKey(va, ra)), "eb": bytesJ(encKey(vb, rb)),
			"da": bytesJ([]byte(decKey(va, ra).ToString())), "db": bytesJ([]byte(decKey(vb, rb).ToString()))})
	}
	fixed := []string{"", "\x01", "a", "a\x01", "ab", "abc", "b", "\xff", "\xff\xff", "a\xff"}
	for _, a := range fixed {
		for _, b := range fixed {
			sEv(a, b)
		}
	}
	for i := 0; i < n/2; i++ {
		a := rs()
		var b string
		switch rng.Intn(4) {
		case 0:
			b = a + string(alpha[rng.Intn(len(alpha))]) // a is a proper prefix of b
		case 1:
			if len(a) > 0 {
				b = a[:len(a)-1]
			}
		default:
			b = rs()
		}
		sEv(a, b)
	}

	// ---- row ids
	for _, r := range rids {
		rr := r
		u := samehada_util.PackRIDtoUint64(&rr)
		b8 := samehada_util.PackRIDto8bytes(&rr)
		ev := map[string]interface{}{"ev": "Rid", "r": ridJ(r),
			"u64":    []int{int(u >> 48), int((u >> 32) & 0xffff), int((u >> 16) & 0xffff), int(u & 0xffff)},
			"back64": ridJ(samehada_util.UnpackUint64toRID(u)),
			"b8":     bytesJ(b8), "back8": ridJ(samehada_util.Unpack8BytesToRID(b8))}
		if r.SlotNum <= 0xffff {
			// the B-tree index value: page (4 bytes) + low two bytes of the slot, as btree_index.go L113-117 / L166-171
			six := [6]byte{b8[0], b8[1], b8[2], b8[3], b8[6], b8[7]}
			eight := [8]byte{six[0], six[1], six[2], six[3], 0, 0, six[4], six[5]}
			ev["back6"] = ridJ(samehada_util.Unpack8BytesToRID(eight[:]))
		}
		tw.Emit(ev)
	}
	return tw.Close()
}

// encSweep walks ALL 2^32 integers and all non-NaN float patterns in numeric order and looks for
// candidate counterexamples: consecutive values whose encodings are not strictly increasing (or, for
// -0.0/+0.0, not equal), or a value that does not decode to itself.  It gives no verdict: every
// candidate (and a sample of ordinary pairs) is written as an event that TLC judges.
// enc sweep <out.ndjson> <stride>   (stride 1 = complete)
func encSweep(args []string) error {
	stride, _ := strconv.Atoi(args[1])
	if stride < 1 {
		stride = 1
	}
	tw, err := trace.New(args[0])
	if err != nil {
		return err
	}
	tw.Emit(map[string]interface{}{"ev": "Reset"})
	r0 := page.RID{PageID: 0, SlotNum: 0}
	rmax := page.RID{PageID: math.MaxInt32, SlotNum: math.MaxUint32}
	const workers = 16
	type res struct {
		cands [][2]int64
		n     int64
	}
	// integers: chunk the range [-2^31, 2^31)
	out := make(chan res, workers)
	chunk := (int64(1) << 32) / workers
	for w := 0; w < workers; w++ {
		go func(w int) {
			lo := int64(math.MinInt32) + int64(w)*chunk
			hi := lo + chunk // exclusive; pairs (v, v+stride) with v+stride < 2^31
			r := res{}
			var prev []byte
			first := true
			for v := lo; v < hi+int64(stride) && v <= math.MaxInt32; v += int64(stride) {
				val := types.NewInteger(int32(v))
				// smallest suffix for the larger value against largest suffix for the smaller: the hardest case for dominance
				eLow := encKey(val, r0)
				if !first {
					if string(prev) >= string(eLow) {
						r.cands = append(r.cands, [2]int64{v - int64(stride), v})
					}
				}
				first = false
				enc := samehada_util.EncodeValueAndRIDToDicOrderComparableVarchar(&val, &rmax)
				if samehada_util.ExtractOrgKeyFromDicOrderComparableEncodedVarchar(enc, types.Integer).ToInteger() != int32(v) {
					r.cands = append(r.cands, [2]int64{v, v})
				}
				prev = enc.SerializeOnlyVal()
				r.n++
			}
			out <- r
		}(w)
	}
	var total int64
	emitted := 0
	for w := 0; w < workers; w++ {
		r := <-out
		total += r.n
		for _, c := range r.cands {
			if emitted < 200 {
				a, b := int32(c[0]), int32(c[1])
				va, vb := types.NewInteger(a), types.NewInteger(b)
				tw.Emit(map[string]interface{}{"ev": "Int", "a": int(a), "b": int(b), "ra": ridJ(rmax), "rb": ridJ(r0),
					"ea": bytesJ(encKey(va, rmax)), "eb": bytesJ(encKey(vb, r0)),
					"da": int(decKey(va, rmax).ToInteger()), "db": int(decKey(vb, r0).ToInteger()), "candidate": true})
				emitted++
			}
		}
	}
	tw.Emit(map[string]interface{}{"ev": "Reset", "swept_ints": total, "int_candidates": emitted})
	// floats: numeric order = negatives by decreasing magnitude, then non-negatives by increasing magnitude
	// index k in [0, 2*(0x7f800000+1)): k < M -> pattern sign=1, mag = M-1-k ; else sign=0, mag = k-M
	const M = int64(0x7f800000) + 1
	fAt := func(k int64) float32 {
		if k < M {
			return math.Float32frombits(uint32(M-1-k) | 0x80000000)
		}
		return math.Float32frombits(uint32(k - M))
	}
	fchunk := (2 * M) / workers
	for w := 0; w < workers; w++ {
		go func(w int) {
			lo := int64(w) * fchunk
			hi := lo + fchunk
			if w == workers-1 {
				hi = 2 * M
			}
			r := res{}
			var prev []byte
			var prevF float32
			first := true
			for k := lo; k < hi+int64(stride) && k < 2*M; k += int64(stride) {
				f := fAt(k)
				val := types.NewFloat(f)
				eLow := encKey(val, r0)
				if !first {
					bad := false
					if prevF == f { // -0.0 / +0.0
						bad = string(prev[:4]) != string(eLow[:4])
					} else {
						bad = string(prev) >= string(eLow)
					}
					if bad {
						r.cands = append(r.cands, [2]int64{k - int64(stride), k})
					}
				}
				first = false
				enc := samehada_util.EncodeValueAndRIDToDicOrderComparableVarchar(&val, &rmax)
				if samehada_util.ExtractOrgKeyFromDicOrderComparableEncodedVarchar(enc, types.Float).ToFloat() != f {
					r.cands = append(r.cands, [2]int64{k, k})
				}
				prev = enc.SerializeOnlyVal()
				prevF = f
				r.n++
			}
			out <- r
		}(w)
	}
	total = 0
	femitted := 0
	for w := 0; w < workers; w++ {
		r := <-out
		total += r.n
		for _, c := range r.cands {
			if femitted < 200 {
				a, b := fAt(c[0]), fAt(c[1])
				va, vb := types.NewFloat(a), types.NewFloat(b)
				tw.Emit(map[string]interface{}{"ev": "Float", "a": floatJ(a), "b": floatJ(b), "ra": ridJ(rmax), "rb": ridJ(r0),
					"ea": bytesJ(encKey(va, rmax)), "eb": bytesJ(encKey(vb, r0)),
					"da": floatJ(decKey(va, rmax).ToFloat()), "db": floatJ(decKey(vb, r0).ToFloat()),
					"golt": a < b, "goeq": a == b, "candidate": true})
				femitted++
			}
		}
	}
	tw.Emit(map[string]interface{}{"ev": "Reset", "swept_floats": total, "float_candidates": femitted})
	return tw.Close()
}
