package main

// C06 workloads: single-table statements against the SqlModel reference answer.

import (
	"fmt"
	"math/rand"
	"strconv"

	"verif/harness/internal/eng"
	"verif/harness/internal/trace"
)

func init() { drivers["sql"] = sqlDriver }

func sqlDriver(args []string) error {
	eng.Quiet()
	switch args[0] {
	case "c06":
		return sqlC06(args[1:])
	case "c03":
		return sqlC03(args[1:])
	case "replay":
		return sqlReplay(args[1:])
	case "c10walk":
		return sqlC10Walk(args[1:])
	case "c09":
		return sqlC09(args[1:])
	case "c11":
		return sqlC11(args[1:])
	case "c14":
		return sqlC14(args[1:])
	}
	return fmt.Errorf("unknown sql workload %s", args[0])
}

// sql c06 <out.ndjson> <scenarios> <exhaustive 0|1>
func sqlC06(args []string) error {
	tw, err := trace.New(args[0])
	if err != nil {
		return err
	}
	nscen, _ := strconv.Atoi(args[1])
	exh := args[2] == "1"
	rng := rand.New(rand.NewSource(envSeed()))

	if exh && envStart() == 0 {
		curScenario = -1
		// every ordered conjunction of <= 3 atoms on one indexed integer column over 3 constants,
		// once with the statistics as they are after loading and once after a refresh
		s, err := newRun(tw, ctxName("C06"), 400)
		if err != nil {
			return err
		}
		t := &tableDef{name: "ex", cols: []string{"int", "varchar"}, names: []string{"x", "s"}}
		s.create(t)
		for r := 0; r < NRanks; r++ {
			s.insert(t, [][]int{{r, (r * 5) % NRanks}}, nil)
			if r%2 == 0 {
				s.insert(t, [][]int{{r, (r + 1) % NRanks}}, nil)
			}
		}
		s.scan(t)
		consts := []int{1, 2, 4}
		atoms := []*pred{}
		for _, op := range cmpOps {
			for _, c := range consts {
				atoms = append(atoms, atom(0, op, c))
			}
		}
		for round := 0; round < 2; round++ {
			for _, a := range atoms {
				s.selectQ(t, a, []int{0}, false)
				for _, b := range atoms {
					s.selectQ(t, and(a, b), []int{0}, false)
					for _, c := range atoms {
						if rng.Intn(3) == 0 || round == 1 { // 1/3 of the triples before the refresh, all after
							s.selectQ(t, and(and(a, b), c), []int{0}, false)
						}
					}
				}
			}
			s.stats()
		}
	}

	if envStart() == 0 {
		// one dedicated scenario: a string column that holds the values the engine uses in-band as minus / plus infinity
		// of the string type, compared with every operator against every value (KF-C06-varchar-sentinel)
		s, err := newRun(tw, ctxName("C06"), 400)
		if err != nil {
			return err
		}
		t := &tableDef{name: "sent0", cols: []string{"int", "svarchar"}, names: []string{"c0", "c1"}, kinds: []string{"none", "skiplist"}}
		s.createAPI(t)
		for r := 0; r < NRanks; r++ {
			s.insert(t, [][]int{{1, r}}, nil)
		}
		s.scan(t)
		for _, op := range cmpOps {
			for r := 0; r < NRanks; r++ {
				s.selectQ(t, atom(1, op, r), nil, false)
			}
		}
	}
	for sc := envStart(); sc < nscen; sc++ {
		rng := scenarioRng(sc)
		if sc%8 == 7 {
			if err := dmlUnderPressure(tw, rng, sc); err != nil {
				return err
			}
			continue
		}
		s, err := newRun(tw, ctxName("C06"), 400)
		if err != nil {
			return err
		}
		if sc%6 == 5 {
			s.emptiedPages(rng, sc)
			continue
		}
		t := randSchema(rng, fmt.Sprintf("t%d", sc))
		s.create(t)
		maxRank := NRanks
		if rng.Intn(3) != 0 {
			maxRank = NRanks - 1 // keep most tables on one page (rank 5 strings are 300 bytes)
		}
		nrows := rng.Intn(13)
		if rng.Intn(5) == 0 {
			nrows = 20 + rng.Intn(25)
		}
		for i := 0; i < nrows; {
			k := 1
			if rng.Intn(4) == 0 {
				k = 1 + rng.Intn(3)
			}
			rows := [][]int{}
			for j := 0; j < k; j++ {
				rows = append(rows, randRow(rng, t, maxRank))
			}
			var order []int
			if rng.Intn(4) == 0 {
				order = rng.Perm(len(t.cols))
			}
			s.insert(t, rows, order)
			i += k
		}
		s.scan(t)
		nc := len(t.cols)
		for q := 0; q < 40; q++ {
			if q == 12 || q == 30 {
				s.stats()
			}
			var p *pred
			switch rng.Intn(5) {
			case 0:
				p = randAtom(rng, nc)
			case 1: // conjunction on one column (redundant / contradictory bounds)
				c := rng.Intn(nc)
				p = atom(c, cmpOps[rng.Intn(6)], rng.Intn(NRanks))
				for k := 0; k < 1+rng.Intn(3); k++ {
					p = and(p, atom(c, cmpOps[rng.Intn(6)], rng.Intn(NRanks)))
				}
			case 2:
				p = randPred(rng, nc, 2, false)
			case 3:
				p = randPred(rng, nc, 2, true)
			default:
				p = predTrue
			}
			var proj []int
			if rng.Intn(2) == 0 {
				proj = rng.Perm(nc)[:1+rng.Intn(nc)]
			}
			r := rng.Intn(10)
			switch {
			case r < 6:
				s.selectQ(t, p, proj, false)
			case r < 8:
				nset := 1 + rng.Intn(nc)
				cols := rng.Perm(nc)[:nset]
				set := [][2]int{}
				for _, c := range cols {
					set = append(set, [2]int{c, rng.Intn(maxRank)})
				}
				s.update(t, set, p)
				s.scan(t)
			case r < 9:
				s.delete(t, p)
				s.scan(t)
			default:
				s.insert(t, [][]int{randRow(rng, t, maxRank)}, nil)
				s.scan(t)
			}
		}
	}
	return tw.Close()
}

// dmlUnderPressure: committed statements on a table of ~45 heap pages (560 rows of 300 bytes, no index) in a pool of
// 24 frames; between a statement and the reads that check it another table of the same size is scanned, so that every
// page the statement changed has left the pool and is read back from the file.
func dmlUnderPressure(tw *trace.Writer, rng *rand.Rand, sc int) error {
	s, err := newRun(tw, ctxName("C06"), 96)
	if err != nil {
		return err
	}
	mk := func(name string) *tableDef {
		t := &tableDef{name: name, cols: []string{"int", "varchar"}, names: []string{"c0", "c1"}, kinds: []string{"none", "none"}}
		s.createAPI(t)
		for b := 0; b < 28 && !s.dead; b++ {
			rows := [][]int{}
			for j := 0; j < 20; j++ {
				rows = append(rows, []int{rng.Intn(NRanks - 1), NRanks - 1})
			}
			s.insert(t, rows, nil)
		}
		return t
	}
	t, other := mk(fmt.Sprintf("w%d", sc)), mk(fmt.Sprintf("x%d", sc))
	for round := 0; round < 4 && !s.dead; round++ {
		switch rng.Intn(4) {
		case 0:
			s.delete(t, atom(0, "=", rng.Intn(NRanks-1)))
		case 1: // in place
			s.update(t, [][2]int{{0, rng.Intn(NRanks - 1)}}, atom(0, "=", rng.Intn(NRanks-1)))
		case 2: // rows shrink (and are moved)
			s.update(t, [][2]int{{1, rng.Intn(NRanks - 1)}}, atom(0, "=", rng.Intn(NRanks-1)))
		default:
			rows := [][]int{}
			for j := 0; j < 15; j++ {
				rows = append(rows, []int{rng.Intn(NRanks - 1), rng.Intn(NRanks)})
			}
			s.insert(t, rows, nil)
		}
		s.scan(other)
		s.scan(t)
		s.selectQ(t, atom(0, "=", rng.Intn(NRanks-1)), nil, false)
	}
	return nil
}

// emptiedPages: a heap of several pages filled in key order (about 12 rows of 300 bytes per page), from which whole
// runs of consecutive keys - at least one complete page in the middle of the chain - are deleted (committed, or rolled
// back and deleted again); the remaining rows are then asked for through the sequential scan (OR predicates) and
// through the index, updated through a sequential scan, and the space is used again.
func (s *sqlRun) emptiedPages(rng *rand.Rand, sc int) {
	t := &tableDef{name: fmt.Sprintf("ep%d", sc), cols: []string{"wint", "varchar"}, names: []string{"k", "p"},
		kinds: []string{"skiplist", "none"}}
	s.createAPI(t)
	n := 60 + rng.Intn(40)
	for k := 0; k < n; k += 5 {
		rows := [][]int{}
		for j := k; j < k+5 && j < n; j++ {
			rows = append(rows, []int{j, NRanks - 1})
		}
		s.insert(t, rows, nil)
	}
	s.scan(t)
	look := func() {
		s.scan(t)
		s.selectQ(t, atom(0, ">=", 0), nil, false)                                         // index range scan
		s.selectQ(t, or(atom(0, "<", n/3), atom(0, ">", n/2)), []int{0}, false)             // sequential scan
		s.selectQ(t, or(atom(1, "=", NRanks-1), atom(1, "=", 0)), []int{1, 0}, false)       // sequential scan, every row
		s.selectQ(t, and(atom(0, ">=", n/4), atom(0, "<=", 3*n/4)), []int{0}, false)        // index, bounded
	}
	for round := 0; round < 3 && !s.dead; round++ {
		a := rng.Intn(n - 30)
		b := a + 14 + rng.Intn(26) // 15 .. 40 consecutive keys: more than one page
		rolledBack := rng.Intn(3) == 0
		if rolledBack {
			s.begin()
		}
		s.delete(t, and(atom(0, ">=", a), atom(0, "<=", b)))
		if rolledBack {
			look()
			s.endTxn(false)
		}
		look()
		if rng.Intn(2) == 0 { // rows come back: the space of the emptied pages is used again
			rows := [][]int{}
			for j := 0; j < 3+rng.Intn(8); j++ {
				rows = append(rows, []int{a + j, rng.Intn(NRanks)})
			}
			s.insert(t, rows, nil)
			look()
		}
		// an update through the sequential scan over the chain with the emptied page
		s.update(t, [][2]int{{1, rng.Intn(3)}}, or(atom(0, "<", a), atom(0, ">", b)))
		look()
	}
}
