package main

// C09 / C10 workloads: file-backed databases with clean shutdowns, crash-style stops and reopens.

import (
	"strings"
	"encoding/json"
	"fmt"
	"math/rand"
	"os"
	"path/filepath"
	"strconv"

	"verif/harness/internal/eng"
	"verif/harness/internal/trace"
)

// newFileRun opens a fresh file-backed database under dir
func newFileRun(tw *trace.Writer, ctx string, dir string, memKB int) (*sqlRun, error) {
	dbCounter++
	name := filepath.Join(dir, fmt.Sprintf("db%d", dbCounter))
	eng.RemoveFiles(name)
	e, pm := eng.Open(name, memKB, true)
	if e == nil {
		return nil, fmt.Errorf("engine start panicked: %s", pm)
	}
	s := &sqlRun{tw: tw, e: e, ctx: ctx}
	s.emit(map[string]interface{}{"ev": "Reset", "memKB": memKB, "sc": curScenario})
	return s, nil
}

// restart stops the database (cleanly or crash-style) and opens it again on the same files
func (s *sqlRun) restart(clean bool) {
	if s.dead {
		return
	}
	wev := map[string]interface{}{"ev": "Reopen"}
	wd := s.watch(wev)
	defer wd.Stop()
	var pm string
	if clean {
		pm = s.e.Shutdown()
		s.emitRes("Shutdown", pm)
	} else {
		pm = s.e.Crash()
		s.emitRes("Crash", pm)
	}
	if pm != "" {
		s.dead = true
		return
	}
	e, pm := eng.Open(s.e.Name, s.e.MemKB, true)
	if e == nil {
		s.emitRes("Reopen", pm)
		s.dead = true
		return
	}
	s.e = e
	s.emitRes("Reopen", "")
}

func (s *sqlRun) emitRes(name, pm string) {
	res := "ok"
	if pm != "" {
		res = "panic:" + pm
	}
	s.emit(map[string]interface{}{"ev": name, "res": res})
}

func (s *sqlRun) closeFiles() {
	if s.e != nil && !s.dead {
		s.e.Crash()
	}
	if s.e != nil {
		eng.RemoveFiles(s.e.Name)
	}
}

// sql c09 <out.ndjson> <scenarios> <scratch dir> <ctx: C09|C10>
func sqlC09(args []string) error {
	tw, err := trace.New(args[0])
	if err != nil {
		return err
	}
	nscen, _ := strconv.Atoi(args[1])
	dir := args[2]
	ctx := args[3]
	os.MkdirAll(dir, 0o755)
	pools := []int{64, 128, 256, 512}
	if ctx == "C07" {
		pools = []int{1024, 2048, 4096} // a hash index keeps its bucket pages resident
	}
	if ctx == "C10" {
		pools = []int{256, 512, 1024} // up to four tables with up to four indexed columns: each index keeps pages pinned
	}
	for sc := envStart(); sc < nscen; sc++ {
		rng := scenarioRng(sc)
		pool := pools[rng.Intn(len(pools))]
		if ctx == "C09" && pool < 1024 && (sc%2 == 1 || sc%6 == 4) {
			pool = 1024 // the scenarios with a second, large table and a join, or with a hash index: more pages pinned at a time
		}
		if ctx == "C10" && sc%8 == 7 {
			pool = 8192 // fifteen tables with up to four indexes each keep their index pages pinned
		}
		s, err := newFileRun(tw, ctx, dir, pool)
		if err != nil {
			return err
		}
		if ctx == "C10" && sc%8 == 7 {
			s.wideCatalog(rng, sc)
			s.closeFiles()
			continue
		}
		if (ctx == "C07" && sc%4 == 3) || (ctx == "C09" && sc%6 == 4) { // (C09: clean restarts only)
			s.hashRestarts(rng, sc)
			s.closeFiles()
			continue
		}
		tables := []*tableDef{}
		maxRanks := map[string]int{}
		addTable := func() {
			nm := fmt.Sprintf("t%d_%d", sc, len(tables))
			if ctx == "C10" && len(tables)%2 == 1 {
				// every second table of a C10 scenario has a name with capital letters (the catalog keys tables by the
				// lower-cased name; seeded change C10r5-A persists the spelling as written and loses the table at reload)
				nm = fmt.Sprintf("Tab%d_%dX", sc, len(tables))
			}
			t := randSchema(rng, nm)
			if ctx == "C10" && rng.Intn(3) == 0 {
				// up to four columns of any type
				t.cols = append(t.cols, []string{"int", "float", "varchar"}[rng.Intn(3)])
				t.names = append(t.names, fmt.Sprintf("c%d", len(t.names)))
			}
			if ctx == "C07" {
				// every index kind the SQL layer can maintain, hash included (probed by key; no range scans on it)
				t.kinds = randKinds(rng, len(t.cols))
				for i := range t.kinds {
					if rng.Intn(3) == 0 {
						t.kinds[i] = "hash"
					}
				}
				s.createAPI(t)
			} else if rng.Intn(2) == 0 {
				t.kinds = randKinds(rng, len(t.cols))
				s.createAPI(t)
			} else {
				s.create(t)
			}
			mr := NRanks
			if rng.Intn(2) == 0 || t.hasBtreeVarchar() {
				mr = NRanks - 1
			}
			maxRanks[t.name] = mr
			tables = append(tables, t)
		}
		work := func(n int) {
			for i := 0; i < n && len(tables) > 0; i++ {
				t := tables[rng.Intn(len(tables))]
				s.randDML(rng, t, maxRanks[t.name])
			}
		}
		readAll := func() {
			for _, t := range tables {
				if ctx == "C10" {
					s.scan(t)
					s.selectQ(t, randAtom(rng, len(t.cols)), nil, false)
				} else {
					s.probes(t, rng)
				}
			}
		}
		addTable()
		if ctx == "C10" && rng.Intn(2) == 0 {
			addTable()
		}
		work(3 + rng.Intn(10))
		if rng.Intn(2) == 0 {
			s.stats()
		}
		readAll()
		if ctx == "C09" && sc%2 == 1 {
			// a join whose build side needs several temporary pages (they are deallocated afterwards), then growth that
			// takes those page ids again - all before the clean stop
			big := s.bigJoin(rng, tables[0], fmt.Sprintf("b%d", sc))
			tables = append(tables, big)
			maxRanks[big.name] = NRanks - 1
			work(6 + rng.Intn(10))
			for i := 0; i < 12; i++ {
				s.insert(tables[0], [][]int{randRow(rng, tables[0], maxRanks[tables[0].name])}, nil)
			}
			readAll()
		}
		cycles := 1 + rng.Intn(3)
		// C10: the first 32 scenarios enumerate every launch pattern of three stops: (clean | crash-style) x3 and
		// (work | read-only launch) x2 - histories like "clean stop; read-only launch, crash; work, crash" are then
		// covered by construction, not by luck
		pattern := -1
		if ctx == "C10" && sc < 32 {
			pattern = sc
			cycles = 3
		}
		for cy := 0; cy < cycles && !s.dead; cy++ {
			clean := ctx == "C09" || rng.Intn(2) == 0
			if pattern >= 0 {
				clean = pattern&(1<<uint(cy)) != 0
			}
			if ctx == "C07" && cy == 0 && rng.Intn(2) == 0 {
				// a rolled-back transaction right before the stop
				s.begin()
				for i := 0; i < 1+rng.Intn(3) && len(tables) > 0; i++ {
					t := tables[rng.Intn(len(tables))]
					s.randDML(rng, t, maxRanks[t.name])
				}
				s.endTxn(false)
			}
			s.restart(clean)
			readAll()
			if rng.Intn(2) == 0 {
				s.stats()
				readAll()
			}
			if ctx == "C10" && pattern < 0 && len(tables) < 4 && rng.Intn(3) != 0 {
				addTable()
				readAll()
			}
			if ctx == "C09" && pool >= 256 && len(tables) < 3 && rng.Intn(2) == 0 { // DDL after a reopen (every index keeps pages pinned: not in the 16 / 32 frame pools)
				addTable()
				readAll()
			}
			idle := rng.Intn(3) == 0 // (every third launch only reads)
			if pattern >= 0 && cy < 2 {
				idle = pattern&(8<<uint(cy)) != 0
			}
			if !idle {
				work(1 + rng.Intn(6))
			}
			readAll()
		}
		s.closeFiles()
	}
	return tw.Close()
}

// sql c10walk <walks.json> <out.ndjson> <scratch dir>: restart histories computed from the state graph of
// spec/Catalog (every edge taken by some history): Create(name, kind) / Write(oid) / Shutdown / Crash / Reopen.
// A table has one indexed integer column (kind from the label) and a payload column; after every reopen every
// table is read by name through the heap, through the planner and through its index.
func sqlC10Walk(args []string) error {
	raw, err := os.ReadFile(args[0])
	if err != nil {
		return err
	}
	var walks [][][]interface{}
	if err := json.Unmarshal(raw, &walks); err != nil {
		return err
	}
	tw, err := trace.New(args[1])
	if err != nil {
		return err
	}
	dir := args[2]
	os.MkdirAll(dir, 0o755)
	rng := rand.New(rand.NewSource(envSeed()))
	kindName := map[string]string{"skip": "skiplist", "btree": "btree", "hash": "hash", "none": "none"}
	for wi, w := range walks {
		s, err := newFileRun(tw, "C10", dir, 512)
		if err != nil {
			return err
		}
		tables := []*tableDef{}
		readAll := func() {
			for _, t := range tables {
				s.scan(t)
				s.selectQ(t, atom(0, ">=", 0), nil, false)
				s.idxPoint(t, 0, rng.Intn(NRanks-1))
				if t.kinds[0] != "hash" {
					s.idxRange(t, 0, -2, -2)
				}
			}
		}
		for _, st := range w {
			if s.dead {
				break
			}
			switch st[0].(string) {
			case "Create":
				t := &tableDef{name: fmt.Sprintf("w%d_%s", wi, st[1].(string)), cols: []string{"int", "varchar"}, names: []string{"c0", "c1"},
					kinds: []string{kindName[st[2].(string)], "none"}}
				s.createAPI(t)
				tables = append(tables, t)
			case "Write":
				o := 0
				switch v := st[1].(type) {
				case float64:
					o = int(v)
				case string:
					o, _ = strconv.Atoi(v)
				}
				if o >= 1 && o <= len(tables) {
					s.insert(tables[o-1], [][]int{{rng.Intn(NRanks - 1), rng.Intn(NRanks - 1)}}, nil)
				}
			case "Shutdown", "Crash":
				clean := st[0].(string) == "Shutdown"
				wev := map[string]interface{}{"ev": "Reopen"}
				wd := s.watch(wev)
				var pm string
				if clean {
					pm = s.e.Shutdown()
					s.emitRes("Shutdown", pm)
				} else {
					pm = s.e.Crash()
					s.emitRes("Crash", pm)
				}
				wd.Stop()
				if pm != "" {
					s.dead = true
				}
				s.down = true
			case "Reopen":
				if !s.down {
					break
				}
				wev := map[string]interface{}{"ev": "Reopen"}
				wd := s.watch(wev)
				e, pm := eng.Open(s.e.Name, s.e.MemKB, true)
				wd.Stop()
				if e == nil {
					s.emitRes("Reopen", pm)
					s.dead = true
					break
				}
				s.e = e
				s.down = false
				s.emitRes("Reopen", "")
				readAll()
			}
		}
		if s.down && !s.dead { // a history may end with the database stopped
			if e, _ := eng.Open(s.e.Name, s.e.MemKB, true); e != nil {
				s.e = e
			} else {
				s.dead = true
			}
		}
		s.closeFiles()
	}
	return tw.Close()
}

// wideCatalog: enough tables and long column names that the columns catalog outgrows its first heap page; a
// restart; tables created afterwards with short and long column names (their catalog rows land on different pages of
// the catalog heap, between the rows of older tables); another restart; every column of every table must still be there.
func (s *sqlRun) wideCatalog(rng *rand.Rand, sc int) {
	tables := []*tableDef{}
	mk := func(n int, long []bool) *tableDef {
		t := &tableDef{name: fmt.Sprintf("wc%d_%d", sc, len(tables)), kinds: nil}
		for c := 0; c < n; c++ {
			t.cols = append(t.cols, []string{"int", "varchar", "float"}[rng.Intn(3)])
			name := fmt.Sprintf("c%d", c)
			if long[c] {
				name = fmt.Sprintf("c%d_%s", c, strings.Repeat("n", 50+rng.Intn(30)))
			}
			t.names = append(t.names, name)
		}
		t.kinds = make([]string, n)
		for c := range t.kinds {
			t.kinds[c] = []string{"none", "skiplist"}[rng.Intn(2)]
		}
		s.createAPI(t)
		s.insert(t, [][]int{randRow(rng, t, NRanks-1), randRow(rng, t, NRanks-1)}, nil)
		tables = append(tables, t)
		return t
	}
	all := func(n int, v bool) []bool {
		out := make([]bool, n)
		for i := range out {
			out[i] = v
		}
		return out
	}
	for i := 0; i < 12; i++ {
		mk(4, all(4, true))
	}
	check := func() {
		for _, t := range tables {
			s.scan(t)
			// every column by name, alone
			for c := range t.cols {
				s.selectQ(t, predTrue, []int{c}, false)
			}
		}
	}
	check()
	s.restart(rng.Intn(2) == 0)
	check()
	// short first column, long later ones - and the other way round
	mk(4, []bool{false, true, true, false})
	mk(3, []bool{true, false, true})
	mk(4, []bool{false, false, true, true})
	check()
	s.restart(rng.Intn(2) == 0)
	check()
	for _, t := range tables[len(tables)-3:] {
		s.insert(t, [][]int{randRow(rng, t, NRanks-1)}, nil)
	}
	s.restart(true)
	check()
}

// hashRestarts: a table with a hash index over MANY distinct keys (so that every block of the hash table holds
// entries), a skip list index and an unindexed payload; committed inserts and deletes, a rolled-back transaction,
// clean and crash-style restarts in every order; after each step every key (present, deleted, never present) is
// looked up through the hash index and through the skip list index.
func (s *sqlRun) hashRestarts(rng *rand.Rand, sc int) {
	t := &tableDef{name: fmt.Sprintf("hw%d", sc), cols: []string{"wint", "wint", "varchar"}, names: []string{"k", "v", "p"},
		kinds: []string{"hash", "skiplist", "none"}}
	s.createAPI(t)
	nextK := 0
	add := func(n int) {
		for i := 0; i < n; i++ {
			s.insert(t, [][]int{{nextK, nextK % 7, rng.Intn(NRanks - 1)}}, nil)
			nextK++
		}
	}
	look := func() {
		s.scan(t)
		for k := 0; k < nextK+3; k++ {
			s.idxPoint(t, 0, k)
		}
		for v := 0; v < 7; v++ {
			s.idxPoint(t, 1, v)
		}
		s.idxRange(t, 1, -2, -2)
	}
	add(40 + rng.Intn(40))
	look()
	for cy := 0; cy < 3 && !s.dead; cy++ {
		s.restart(rng.Intn(2) == 0 || s.ctx == "C09")
		look()
		// committed deletes (by the skip-list column) and inserts
		s.delete(t, atom(1, "=", rng.Intn(7)))
		if rng.Intn(2) == 0 {
			s.delete(t, atom(1, "=", rng.Intn(7)))
		}
		add(3 + rng.Intn(6))
		if rng.Intn(2) == 0 { // rolled-back work
			s.begin()
			s.delete(t, atom(1, "=", rng.Intn(7)))
			add(2)
			s.endTxn(false)
			nextK -= 0
		}
		look()
	}
}

// bigJoin creates a table with ~150 rows of 300-byte payloads whose first column has the type of t's first column,
// and joins it with t in both orders: the build side of a hash join then needs several temporary pages.
func (s *sqlRun) bigJoin(rng *rand.Rand, t *tableDef, name string) *tableDef {
	big := &tableDef{name: name, cols: []string{t.cols[0], "varchar"}, names: []string{"g0", "g1"}, kinds: []string{"none", "none"}}
	s.createAPI(big)
	for i := 0; i < 15 && !s.dead; i++ {
		rows := [][]int{}
		for j := 0; j < 10; j++ {
			rows = append(rows, []int{rng.Intn(NRanks - 1), NRanks - 1}) // (rank 5 strings are 300 bytes)
		}
		s.insert(big, rows, nil)
	}
	s.stats()
	on := [][4]int{{1, 0, 2, 0}}
	// (the payload column is selected, so the build side carries 300-byte tuples)
	s.joinQ([]*tableDef{big, t}, on, nil, [][2]int{{1, 0}, {1, 1}, {2, 0}}, false)
	s.joinQ([]*tableDef{t, big}, on, nil, [][2]int{{2, 1}, {2, 0}, {1, 0}}, rng.Intn(2) == 0)
	return big
}
