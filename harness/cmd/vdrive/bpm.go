package main

// Driver for C13 (BufferPool spec): performs pool operations on a real BufferPoolManager over an
// in-memory disk, records results and the full projection (frames, page table, free list, replacer
// members, reusable ids, disk versions).

import (
	"encoding/binary"
	"encoding/json"
	"fmt"
	"math/rand"
	"os"
	"sort"
	"strconv"

	"github.com/ryogrid/SamehadaDB/lib/recovery"
	"github.com/ryogrid/SamehadaDB/lib/storage/buffer"
	"github.com/ryogrid/SamehadaDB/lib/storage/disk"
	"github.com/ryogrid/SamehadaDB/lib/storage/page"
	"github.com/ryogrid/SamehadaDB/lib/types"
	"verif/harness/internal/iorec"
	"verif/harness/internal/trace"
)

func init() { drivers["bpm"] = bpmDriver }

type bpmEnv struct {
	nf     int
	maxPid int
	md     *iorec.MemDisk
	bpm    *buffer.BufferPoolManager
	held   map[int][]*page.Page // pins the driver's users hold, per page id
	ver    map[int]int          // last version written per page id
	live   map[int]bool
	virgin map[int]bool
	dead   bool // pool poisoned by a panic (its mutex may be left locked)
	raceFirst map[string]interface{}
	raceSecond map[string]interface{}
}

func newBpmEnv(nf, maxPid int) *bpmEnv {
	md := iorec.NewMemDisk()
	var dm disk.DiskManager = md
	lg := recovery.NewLogManager(&dm)
	lg.ActivateLogging()
	return &bpmEnv{nf: nf, maxPid: maxPid, md: md, bpm: buffer.NewBufferPoolManager(uint32(nf), dm, lg),
		held: map[int][]*page.Page{}, ver: map[int]int{}, live: map[int]bool{}, virgin: map[int]bool{}}
}

const stampOff = 64

func stamp(pg *page.Page, v int) {
	d := pg.Data()
	binary.LittleEndian.PutUint32(d[stampOff:], uint32(v))
	for i := stampOff + 4; i < 4096; i += 97 {
		d[i] = byte(v*13 + i)
	}
}
func readStamp(b []byte) int { return int(binary.LittleEndian.Uint32(b[stampOff:])) }

func (e *bpmEnv) project(ev map[string]interface{}) {
	pt, free, repl, reuse := e.bpm.VerifSnapshot()
	frames := []interface{}{}
	for _, pg := range e.bpm.GetPages() {
		if pg == nil {
			frames = append(frames, map[string]interface{}{"pid": -1, "pin": 0, "dirty": false, "dealloc": false, "val": 0})
		} else {
			frames = append(frames, map[string]interface{}{"pid": int(pg.GetPageID()), "pin": int(pg.PinCount()), "dirty": pg.IsDirty(),
				"dealloc": pg.IsDeallocated(), "val": readStamp(pg.Data()[:])})
		}
	}
	ev["fr"] = frames
	ptl := make([]int, e.maxPid+1)
	for i := range ptl {
		ptl[i] = -1
	}
	extra := []int{}
	for k, v := range pt {
		if int(k) <= e.maxPid && int(k) >= 0 {
			ptl[int(k)] = int(v)
		} else {
			extra = append(extra, int(k))
		}
	}
	sort.Ints(extra)
	ev["pt"] = ptl
	ev["ptExtra"] = extra
	fl := []int{}
	for _, f := range free {
		fl = append(fl, int(f))
	}
	ev["free"] = fl
	rl := []int{}
	for _, f := range repl {
		rl = append(rl, int(f))
	}
	sort.Ints(rl)
	ev["repl"] = rl
	ru := []int{}
	for _, p := range reuse {
		ru = append(ru, int(p))
	}
	ev["reuse"] = ru
	dk := make([]int, e.maxPid+1)
	for i := range dk {
		b := e.md.PageOnDisk(i)
		if b == nil {
			dk[i] = -1
		} else {
			dk[i] = readStamp(b)
		}
	}
	ev["disk"] = dk
	ev["nextPid"] = e.md.NextID()
}

// applicable reports whether the driver's users may issue op now (user-level contract only; it
// never looks at which frames are resident)
func (e *bpmEnv) applicable(op []string) bool {
	if e.dead {
		return false
	}
	p := -1
	if len(op) > 1 {
		p, _ = strconv.Atoi(op[1])
	}
	switch op[0] {
	case "NewPage", "FetchMissing":
		return true
	case "FetchPage":
		return e.live[p]
	case "WriteUnpin":
		return len(e.held[p]) > 0
	case "UnpinClean":
		return len(e.held[p]) > 0 && !e.virgin[p]
	case "FlushPage":
		return e.live[p]
	case "FlushRace":
		return e.live[p] && len(e.held[p]) > 0
	case "DeallocNoWait":
		return e.live[p] && len(e.held[p]) <= 1
	case "LazyDeallocUnpin":
		return e.live[p] && len(e.held[p]) == 1
	}
	return false
}

func (e *bpmEnv) do(op []string) map[string]interface{} {
	ev := map[string]interface{}{"ev": op[0], "panic": "", "pid": -1}
	p := -1
	if len(op) > 1 {
		p, _ = strconv.Atoi(op[1])
		ev["pid"] = p
	}
	func() {
		defer func() {
			if x := recover(); x != nil {
				ev["panic"] = fmt.Sprint(x)
				e.dead = true
			}
		}()
		switch op[0] {
		case "NewPage":
			pg := e.bpm.NewPage()
			if pg == nil {
				ev["res"] = "nil"
				return
			}
			id := int(pg.GetPageID())
			ev["pid"] = id
			ev["res"] = "ok"
			ev["val"] = readStamp(pg.Data()[:])
			e.held[id] = append(e.held[id], pg)
			e.live[id] = true
			e.virgin[id] = true
			e.ver[id] = 0
		case "FetchPage":
			pg := e.bpm.FetchPage(types.PageID(p))
			if pg == nil {
				ev["res"] = "nil"
				e.dead = true // FetchPage's error path leaves the pool mutex locked
				return
			}
			ev["res"] = "ok"
			ev["val"] = readStamp(pg.Data()[:])
			ev["gotpid"] = int(pg.GetPageID())
			e.held[p] = append(e.held[p], pg)
		case "FetchMissing": // a page id far beyond the end of the db file: the read fails
			if pg := e.bpm.FetchPage(types.PageID(1 << 20)); pg != nil {
				ev["res"] = "unexpected page"
			} else {
				ev["res"] = "missing"
			}
		case "WriteUnpin":
			pg := e.held[p][len(e.held[p])-1]
			e.held[p] = e.held[p][:len(e.held[p])-1]
			e.ver[p]++
			pg.WLatch()
			stamp(pg, e.ver[p])
			pg.WUnlatch()
			ev["val"] = e.ver[p]
			e.virgin[p] = false
			e.bpm.UnpinPage(types.PageID(p), true)
			ev["res"] = "ok"
		case "UnpinClean":
			e.held[p] = e.held[p][:len(e.held[p])-1]
			e.bpm.UnpinPage(types.PageID(p), false)
			ev["res"] = "ok"
		case "FlushPage":
			if e.bpm.FlushPage(types.PageID(p)) {
				ev["res"] = "ok"
			} else {
				ev["res"] = "notresident"
			}
		case "FlushRace":
			// another user (holding a pin) writes the page and unpins it dirty while FlushPage's disk write is
			// in progress: the two recorded steps are FlushPage (state seen inside the write) and WriteUnpin
			fired := false
			e.md.OnWritePage = func(id int) {
				if id != p || fired {
					return
				}
				fired = true
				e.md.OnWritePage = nil
				// three recorded steps: FlushHold (state seen inside the disk write: the flusher holds a pin),
				// WriteUnpin of the user (still inside the write), FlushRelease (after FlushPage returned)
				first := map[string]interface{}{"ev": "FlushHold", "panic": "", "pid": p, "res": "ok", "race": true}
				e.project(first)
				e.raceFirst = first
				pg := e.held[p][len(e.held[p])-1]
				e.held[p] = e.held[p][:len(e.held[p])-1]
				e.ver[p]++
				pg.WLatch()
				stamp(pg, e.ver[p])
				pg.WUnlatch()
				e.virgin[p] = false
				e.bpm.UnpinPage(types.PageID(p), true)
				second := map[string]interface{}{"ev": "WriteUnpin", "panic": "", "pid": p, "res": "ok", "race": true, "val": e.ver[p]}
				e.project(second)
				e.raceSecond = second
			}
			ok := e.bpm.FlushPage(types.PageID(p))
			e.md.OnWritePage = nil
			if !fired || !ok {
				ev["ev"] = "FlushPage"
				ev["res"] = "notresident"
				return
			}
			ev["ev"] = "FlushRelease"
			ev["res"] = "ok"
			ev["race"] = true
		case "DeallocNoWait":
			e.bpm.DeallocatePage(types.PageID(p), true)
			e.live[p] = false
			e.virgin[p] = false
			e.held[p] = nil // a pin still held on the dropped page is abandoned (hash join does this)
			ev["res"] = "ok"
		case "LazyDeallocUnpin":
			pg := e.held[p][0]
			e.held[p] = nil
			pg.SetIsDeallocated(true)
			e.bpm.DeallocatePage(types.PageID(p), false)
			e.bpm.UnpinPage(types.PageID(p), true)
			e.live[p] = false
			e.virgin[p] = false
			ev["res"] = "ok"
		default:
			panic("unknown bpm op " + op[0])
		}
	}()
	if !e.dead {
		e.project(ev)
	}
	return ev
}

func bpmDriver(args []string) error {
	if len(args) > 0 && args[0] == "conc" {
		return bpmConc(args[1:])
	}
	switch args[0] {
	case "walk":
		// bpm walk <walks.json> <out.ndjson> <frames> <maxpid>
		var walks [][][]string
		b, err := os.ReadFile(args[1])
		if err != nil {
			return err
		}
		if err := json.Unmarshal(b, &walks); err != nil {
			return err
		}
		nf, _ := strconv.Atoi(args[3])
		mp, _ := strconv.Atoi(args[4])
		tw, err := trace.New(args[2])
		if err != nil {
			return err
		}
		for _, w := range walks {
			e := newBpmEnv(nf, mp)
			tw.Emit(map[string]interface{}{"ev": "Reset", "nf": nf})
			for _, op := range w {
				if !e.applicable(op) {
					continue
				}
				ev := e.do(op)
				if e.raceFirst != nil {
					tw.Emit(e.raceFirst)
					e.raceFirst = nil
				}
				if e.raceSecond != nil {
					tw.Emit(e.raceSecond)
					e.raceSecond = nil
				}
				tw.Emit(ev)
				if e.dead {
					break
				}
			}
		}
		return tw.Close()
	case "random":
		// bpm random <out.ndjson> <sequences> <ops> <maxpid> <frames list csv>
		nseq, _ := strconv.Atoi(args[2])
		nops, _ := strconv.Atoi(args[3])
		mp, _ := strconv.Atoi(args[4])
		fl := splitCSV(args[5])
		tw, err := trace.New(args[1])
		if err != nil {
			return err
		}
		rng := rand.New(rand.NewSource(envSeed()))
		names := []string{"NewPage", "FetchPage", "WriteUnpin", "UnpinClean", "FlushPage", "DeallocNoWait", "LazyDeallocUnpin", "FlushRace", "FetchMissing"}
		weights := []int{14, 24, 20, 11, 8, 7, 6, 6, 4}
		for q := 0; q < nseq; q++ {
			nf, _ := strconv.Atoi(fl[q%len(fl)])
			e := newBpmEnv(nf, mp)
			tw.Emit(map[string]interface{}{"ev": "Reset", "nf": nf})
			maxPin := 1 + rng.Intn(3)
			for k := 0; k < nops && !e.dead; k++ {
				r := rng.Intn(100)
				name := names[len(names)-1]
				for i, w := range weights {
					if r < w {
						name = names[i]
						break
					}
					r -= w
				}
				op := []string{name}
				hi := e.md.NextID()
				if name != "NewPage" {
					if hi == 0 {
						continue
					}
					op = append(op, strconv.Itoa(rng.Intn(hi)))
				}
				if !e.applicable(op) {
					continue
				}
				// keep pins bounded so that the driver itself does not exhaust the pool, and stay inside the page-id range of the trace spec
				pinned := 0
				for _, h := range e.held {
					if len(h) > 0 {
						pinned++
					}
				}
				if name == "NewPage" {
					nlive := 0
					for _, l := range e.live {
						if l {
							nlive++
						}
					}
					if hi >= mp-1 || nlive >= nf+3 || pinned >= nf {
						continue
					}
				}
				if name == "FetchPage" {
					p, _ := strconv.Atoi(op[1])
					if len(e.held[p]) >= maxPin || (len(e.held[p]) == 0 && pinned >= nf) {
						continue
					}
				}
				ev := e.do(op)
				if e.raceFirst != nil {
					tw.Emit(e.raceFirst)
					e.raceFirst = nil
				}
				if e.raceSecond != nil {
					tw.Emit(e.raceSecond)
					e.raceSecond = nil
				}
				tw.Emit(ev)
			}
		}
		return tw.Close()
	}
	return fmt.Errorf("unknown bpm mode")
}
