package main

// Driver for C16 (LockManager spec): replays operation walks derived from the TLC state graph on a
// real LockManager/TransactionManager and records results plus the full projection; also a
// concurrent mode whose events are sequenced under the lock-manager mutex (hook H3).

import (
	"encoding/json"
	"fmt"
	"math/rand"
	"os"
	"sort"
	"strconv"
	"sync"

	"github.com/ryogrid/SamehadaDB/lib/recovery"
	"github.com/ryogrid/SamehadaDB/lib/storage/access"
	"github.com/ryogrid/SamehadaDB/lib/storage/disk"
	"github.com/ryogrid/SamehadaDB/lib/storage/page"
	"github.com/ryogrid/SamehadaDB/lib/types"
	"verif/harness/internal/trace"
)

func init() { drivers["lock"] = lockDriver }

type lockEnv struct {
	lm     *access.LockManager
	tm     *access.TransactionManager
	txns   map[string]*access.Transaction
	idName map[int32]string
	rids   map[string]page.RID
	ridNm  map[page.RID]string
}

func newLockEnv(txnNames, ridNames []string) *lockEnv {
	dm := disk.NewVirtualDiskManagerImpl("lockdrv.db")
	lg := recovery.NewLogManager(&dm)
	lg.DeactivateLogging()
	lm := access.NewLockManager(access.STRICT, access.SS2PLMode)
	tm := access.NewTransactionManager(lm, lg)
	e := &lockEnv{lm: lm, tm: tm, txns: map[string]*access.Transaction{}, idName: map[int32]string{},
		rids: map[string]page.RID{}, ridNm: map[page.RID]string{}}
	for i, r := range ridNames {
		rid := page.RID{}
		// rows on different pages and slots, including two rows sharing a page
		rid.Set(types.PageID(3+i/2), uint32(i%2)*7)
		e.rids[r] = rid
		e.ridNm[rid] = r
	}
	for _, t := range txnNames {
		e.begin(t)
	}
	return e
}

func (e *lockEnv) begin(name string) {
	txn := e.tm.Begin(nil)
	e.txns[name] = txn
	e.idName[int32(txn.GetTransactionID())] = name
}

func sortedStrs(m map[string]bool) []string {
	out := make([]string, 0, len(m))
	for k := range m {
		out = append(out, k)
	}
	sort.Strings(out)
	return out
}

// projection of the real objects onto the spec's variables
func (e *lockEnv) project(ev map[string]interface{}) {
	tS := map[string]interface{}{}
	tX := map[string]interface{}{}
	for name, txn := range e.txns {
		s := map[string]bool{}
		for _, r := range txn.GetSharedLockSet() {
			s[e.ridName(r)] = true
		}
		x := map[string]bool{}
		for _, r := range txn.GetExclusiveLockSet() {
			x[e.ridName(r)] = true
		}
		// cross-check with the predicate API the executors use
		for rn, rid := range e.rids {
			rr := rid
			if txn.IsSharedLocked(&rr) != s[rn] || txn.IsExclusiveLocked(&rr) != x[rn] {
				s["inconsistent-IsLocked-"+rn] = true
			}
		}
		tS[name] = sortedStrs(s)
		tX[name] = sortedStrs(x)
	}
	shT, exT := e.lm.VerifSnapshot()
	sh := map[string]interface{}{}
	ex := map[string]interface{}{}
	for rn := range e.rids {
		sh[rn] = []string{}
		ex[rn] = "None"
	}
	for rid, l := range shT {
		m := map[string]bool{}
		for _, id := range l {
			m[e.txnName(id)] = true
		}
		sh[e.ridName(rid)] = sortedStrs(m)
	}
	for rid, id := range exT {
		ex[e.ridName(rid)] = e.txnName(id)
	}
	ev["tS"], ev["tX"], ev["sh"], ev["ex"] = tS, tX, sh, ex
}

func (e *lockEnv) ridName(r page.RID) string {
	if n, ok := e.ridNm[r]; ok {
		return n
	}
	return fmt.Sprintf("rid?%d.%d", r.GetPageID(), r.GetSlotNum())
}
func (e *lockEnv) txnName(id int32) string {
	if n, ok := e.idName[id]; ok {
		return n
	}
	return "txn?" + strconv.Itoa(int(id))
}

func (e *lockEnv) do(op string, t, r string) (ok bool, panicked string) {
	defer func() {
		if x := recover(); x != nil {
			panicked = fmt.Sprint(x)
		}
	}()
	txn := e.txns[t]
	rid := e.rids[r]
	switch op {
	case "LockShared":
		ok = e.lm.LockShared(txn, &rid)
	case "LockExclusive":
		ok = e.lm.LockExclusive(txn, &rid)
	case "LockUpgrade":
		ok = e.lm.LockUpgrade(txn, &rid)
	case "ReleaseAll":
		// transaction end as the engine does it: Commit -> releaseLocks -> Unlock
		if len(txn.GetSharedLockSet())%2 == 0 {
			e.tm.Commit(nil, txn)
		} else {
			e.tm.Abort(nil, txn)
		}
		delete(e.idName, int32(txn.GetTransactionID()))
		e.begin(t)
		ok = true
	default:
		panic("unknown op " + op)
	}
	return
}

var evName = map[string]string{"LockShared": "S", "LockExclusive": "X", "LockUpgrade": "U", "ReleaseAll": "End"}

func lockDriver(args []string) error {
	if len(args) < 1 {
		return fmt.Errorf("lock walk|conc ...")
	}
	switch args[0] {
	case "walk":
		// lock walk <walks.json> <out.ndjson> <txn names csv> <rid names csv>
		var walks [][][]string
		b, err := os.ReadFile(args[1])
		if err != nil {
			return err
		}
		if err := json.Unmarshal(b, &walks); err != nil {
			return err
		}
		tw, err := trace.New(args[2])
		if err != nil {
			return err
		}
		txns, rids := splitCSV(args[3]), splitCSV(args[4])
		for _, w := range walks {
			e := newLockEnv(txns, rids)
			tw.Emit(map[string]interface{}{"ev": "Reset"})
			for _, op := range w {
				r := "None"
				if len(op) > 2 {
					r = op[2]
				}
				ok, pn := e.do(op[0], op[1], r)
				ev := map[string]interface{}{"ev": evName[op[0]], "t": op[1], "r": r, "ok": ok, "panic": pn}
				e.project(ev)
				tw.Emit(ev)
			}
		}
		return tw.Close()
	case "conc":
		// lock conc <out.ndjson> <goroutines> <requests per goroutine> <rows> <runs>
		g, _ := strconv.Atoi(args[2])
		n, _ := strconv.Atoi(args[3])
		nr, _ := strconv.Atoi(args[4])
		runs, _ := strconv.Atoi(args[5])
		seed := envSeed()
		tw, err := trace.New(args[1])
		if err != nil {
			return err
		}
		for run := 0; run < runs; run++ {
			lockConc(tw, g, n, nr, seed*1000+int64(run))
		}
		return tw.Close()
	}
	return fmt.Errorf("unknown lock mode %s", args[0])
}

// Concurrent mode: every goroutine owns one model transaction identity.  The hook runs under the
// lock-manager mutex after the decision, so the order of hook calls is the linearization order; the
// result is attached by the calling goroutine afterwards (events are emitted in hook order).
func lockConc(tw *trace.Writer, g, n, nr int, seed int64) {
	txns := make([]string, g)
	for i := range txns {
		txns[i] = "t" + strconv.Itoa(i+1)
	}
	rids := make([]string, nr)
	for i := range rids {
		rids[i] = "r" + strconv.Itoa(i+1)
	}
	e := newLockEnv(txns, rids)
	type rec struct {
		op, t, r string
		ok       bool
		done     bool
		rs       []string
	}
	var mu sync.Mutex // protects recs (the hook already runs under the lock-manager mutex; this is for the result fill-in)
	recs := make([]*rec, 0, g*n)
	last := make(map[*access.Transaction]*rec)
	var lastMu sync.Mutex
	access.VerifLockSeq = func(op string, txn *access.Transaction, rs []page.RID) {
		r := &rec{op: op, rs: []string{}}
		for _, x := range rs {
			r.rs = append(r.rs, e.ridName(x))
		}
		mu.Lock()
		recs = append(recs, r)
		mu.Unlock()
		lastMu.Lock()
		last[txn] = r
		lastMu.Unlock()
	}
	defer func() { access.VerifLockSeq = nil }()
	var wg sync.WaitGroup
	for gi := 0; gi < g; gi++ {
		wg.Add(1)
		go func(gi int) {
			defer wg.Done()
			rng := rand.New(rand.NewSource(seed*131 + int64(gi)))
			name := txns[gi]
			txn := e.tm.Begin(nil)
			for i := 0; i < n; i++ {
				rn := rids[rng.Intn(nr)]
				rid := e.rids[rn]
				k := rng.Intn(10)
				var ok bool
				var op string
				switch {
				case k < 4:
					op = "S"
					ok = e.lm.LockShared(txn, &rid)
				case k < 7:
					op = "X"
					ok = e.lm.LockExclusive(txn, &rid)
				case k < 9:
					if !txn.IsSharedLocked(&rid) {
						continue
					}
					op = "U"
					ok = e.lm.LockUpgrade(txn, &rid)
				default:
					op = "End"
					e.tm.Commit(nil, txn)
					ok = true
				}
				lastMu.Lock()
				r := last[txn]
				lastMu.Unlock()
				r.t, r.r, r.ok, r.done = name, rn, ok, true
				if op == "End" {
					r.r = "None"
					txn = e.tm.Begin(nil)
				}
			}
			e.tm.Commit(nil, txn)
			lastMu.Lock()
			r := last[txn]
			lastMu.Unlock()
			r.t, r.r, r.ok, r.done = name, "None", true, true
		}(gi)
	}
	wg.Wait()
	tw.Emit(map[string]interface{}{"ev": "Reset"})
	for _, r := range recs {
		evn := r.op
		if r.op == "unlock" {
			evn = "End"
		}
		tw.Emit(map[string]interface{}{"ev": evn, "t": r.t, "r": r.r, "ok": r.ok, "panic": "", "conc": true, "rs": r.rs})
	}
}
