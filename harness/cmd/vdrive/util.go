package main

import (
	"os"
	"strconv"
	"strings"
	"time"

	"verif/harness/internal/trace"
)

// opWatch arms a watchdog for one call into the engine: if it does not return in time the event is
// recorded with the outcome "hang" (and the given extra fields) and the driver process ends with exit code 3.
func opWatch(tw *trace.Writer, ev map[string]interface{}, d time.Duration, extra map[string]interface{}) *time.Timer {
	return time.AfterFunc(d, func() {
		out := map[string]interface{}{}
		for k, v := range ev {
			out[k] = v
		}
		for k, v := range extra {
			out[k] = v
		}
		out["res"] = "hang"
		out["panic"] = "hang"
		tw.Emit(out)
		tw.Flush()
		os.Exit(3)
	})
}

func splitCSV(s string) []string {
	if s == "" {
		return nil
	}
	return strings.Split(s, ",")
}

func envSeed() int64 {
	v, err := strconv.ParseInt(os.Getenv("VERIF_SEED"), 10, 64)
	if err != nil {
		return 1
	}
	return v
}
