package main

import (
	"math/rand"
	"os"
	"strconv"
	"strings"
	"time"

	"verif/harness/internal/trace"
)

// opWatch arms a watchdog for one call into the engine: if it does not return in time the event is
// recorded with the outcome "hang" (and the given extra fields) and the driver process ends with exit code 3.
func opWatch(tw *trace.Writer, ev map[string]interface{}, d time.Duration, extra map[string]interface{}) *time.Timer {
	return time.AfterFunc(d, func() {
		out := map[string]interface{}{}
		for k, v := range ev {
			out[k] = v
		}
		for k, v := range extra {
			out[k] = v
		}
		out["res"] = "hang"
		out["panic"] = "hang"
		tw.Emit(out)
		tw.Flush()
		os.Exit(3)
	})
}

func splitCSV(s string) []string {
	if s == "" {
		return nil
	}
	return strings.Split(s, ",")
}

// curScenario is the index of the scenario a SQL-level driver is running (recorded in its Reset event, so that a run
// that ended with a recorded hang can be resumed behind that scenario: VERIF_START).
var curScenario int

func envStart() int {
	v, err := strconv.Atoi(os.Getenv("VERIF_START"))
	if err != nil || v < 0 {
		return 0
	}
	return v
}

// scenarioRng: every scenario has a random stream of its own (seed, scenario index), so that scenario k is the same
// whether the run started at 0 or was resumed
func scenarioRng(sc int) *rand.Rand {
	curScenario = sc
	return rand.New(rand.NewSource(envSeed()*1000003 + int64(sc)*7919 + 17))
}

func envSeed() int64 {
	v, err := strconv.ParseInt(os.Getenv("VERIF_SEED"), 10, 64)
	if err != nil {
		return 1
	}
	return v
}
