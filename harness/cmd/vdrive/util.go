package main

import (
	"os"
	"strconv"
	"strings"
)

func splitCSV(s string) []string {
	if s == "" {
		return nil
	}
	return strings.Split(s, ",")
}

func envSeed() int64 {
	v, err := strconv.ParseInt(os.Getenv("VERIF_SEED"), 10, 64)
	if err != nil {
		return 1
	}
	return v
}
