package main

import (
	"fmt"
	"os"
)

type driver func(args []string) error

var drivers = map[string]driver{}

func main() {
	if len(os.Args) < 2 {
		fmt.Fprintln(os.Stderr, "usage: vdrive <driver> [args]")
		os.Exit(2)
	}
	d, ok := drivers[os.Args[1]]
	if !ok {
		fmt.Fprintln(os.Stderr, "unknown driver", os.Args[1])
		os.Exit(2)
	}
	if err := d(os.Args[2:]); err != nil {
		fmt.Fprintln(os.Stderr, "driver error:", err)
		os.Exit(2)
	}
}
