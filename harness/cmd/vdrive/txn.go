package main

// Driver for C04 / C05 (TxnModel): executes statement-level interleavings of two (or three)
// multi-statement transactions on a fresh in-memory engine per schedule, in one goroutine, and records
// every statement's outcome.

import (
	"encoding/json"
	"fmt"
	"math/rand"
	"os"
	"strconv"
	"strings"
	"time"

	"github.com/ryogrid/SamehadaDB/lib/storage/access"
	"github.com/ryogrid/SamehadaDB/lib/storage/index/index_constants"
	"github.com/ryogrid/SamehadaDB/lib/storage/table/column"
	"github.com/ryogrid/SamehadaDB/lib/storage/table/schema"
	"github.com/ryogrid/SamehadaDB/lib/types"
	"verif/harness/internal/eng"
	"verif/harness/internal/trace"
)

func init() { drivers["txn"] = txnDriver }

type tstmt struct {
	K    string // pread rread sread ins del upd kupd rupd
	A, B int
}

var bigPay = strings.Repeat("p", 1200)
var hugePay = strings.Repeat("q", 1500)

const txnTable = "tt"

func (s tstmt) sql(ver int) string {
	switch s.K {
	case "pread":
		return fmt.Sprintf("SELECT k, v FROM %s WHERE k = %d;", txnTable, s.A)
	case "rread":
		return fmt.Sprintf("SELECT k, v FROM %s WHERE k >= %d AND k <= %d;", txnTable, s.A, s.B)
	case "sread":
		return fmt.Sprintf("SELECT k, v FROM %s WHERE v >= 0 OR v >= 0;", txnTable)
	case "ins":
		return fmt.Sprintf("INSERT INTO %s(k, v, p) VALUES (%d, %d, 's');", txnTable, s.A, ver)
	case "del":
		return fmt.Sprintf("DELETE FROM %s WHERE k = %d;", txnTable, s.A)
	case "upd":
		return fmt.Sprintf("UPDATE %s SET v = %d WHERE k = %d;", txnTable, ver, s.A)
	case "kupd":
		return fmt.Sprintf("UPDATE %s SET k = %d, v = %d WHERE k = %d;", txnTable, s.B, ver, s.A)
	case "rupd":
		return fmt.Sprintf("UPDATE %s SET v = %d, p = '%s' WHERE k = %d;", txnTable, ver, hugePay, s.A)
	case "supd": // the same update answered by a sequential scan (OR): the scan looks ahead over rows of other transactions
		return fmt.Sprintf("UPDATE %s SET v = %d WHERE k = %d OR k = %d;", txnTable, ver, s.A, s.A)
	}
	panic("bad stmt")
}

type tprog struct {
	stmts  []tstmt
	commit bool
}

func kvRows(rows [][]*types.Value) [][]int {
	out := [][]int{}
	for _, r := range rows {
		if len(r) >= 2 && !r[0].IsNull() && !r[1].IsNull() {
			out = append(out, []int{int(r[0].ToInteger()), int(r[1].ToInteger())})
		} else {
			out = append(out, []int{-99, -99})
		}
	}
	return out
}

type schedRunner struct {
	tw    *trace.Writer
	nsch  int
	nstmt int
	nok   int
}

// run one schedule: order is a sequence of transaction indexes (one entry per step of that transaction's
// program, the last step being its commit / abort)
func (sr *schedRunner) run(progs []tprog, order []int, relocating bool, label string) {
	sr.nsch++
	dbCounter++
	e, pm := eng.Open(fmt.Sprintf("vtxn%d", dbCounter), 400, false)
	if e == nil {
		sr.tw.Emit(map[string]interface{}{"ev": "Reset", "rows": [][]int{}})
		sr.tw.Emit(map[string]interface{}{"ev": "Final", "res": "panic:open " + pm, "seq": [][]int{}, "idx": [][]int{}, "sched": label})
		return
	}
	wd := time.AfterFunc(60*time.Second, func() {
		sr.tw.Emit(map[string]interface{}{"ev": "Final", "res": "hang", "seq": [][]int{}, "idx": [][]int{}, "sched": label})
		sr.tw.Flush()
		os.Exit(3)
	})
	defer wd.Stop()
	// k and v indexed (skip list), the payload column not (its values are up to 1500 bytes)
	func() {
		cols := []*column.Column{
			column.NewColumn("k", types.Integer, true, index_constants.IndexKindSkipList, types.PageID(-1), nil),
			column.NewColumn("v", types.Integer, true, index_constants.IndexKindSkipList, types.PageID(-1), nil),
			column.NewColumn("p", types.Varchar, false, index_constants.IndexKindInvalid, types.PageID(-1), nil),
		}
		txn := e.TM().Begin(nil)
		e.Catalog().CreateTable(txnTable, schema.NewSchema(cols), txn)
		e.TM().Commit(e.Catalog(), txn)
	}()
	init := [][]int{}
	ver := 0
	for k := 1; k <= 3; k++ {
		ver++
		pay := "s"
		if relocating {
			pay = bigPay
		}
		e.Exec(fmt.Sprintf("INSERT INTO %s(k, v, p) VALUES (%d, %d, '%s');", txnTable, k, ver, pay))
		init = append(init, []int{k, ver})
	}
	e.RefreshStats()
	sr.tw.Emit(map[string]interface{}{"ev": "Reset", "rows": init})
	txns := make([]*access.Transaction, len(progs))
	pos := make([]int, len(progs))
	dead := make([]bool, len(progs))
	poisoned := false
	for _, ti := range order {
		if poisoned {
			break
		}
		if dead[ti] {
			continue
		}
		name := ti + 1
		if txns[ti] == nil {
			txns[ti] = e.TM().Begin(nil)
			sr.tw.Emit(map[string]interface{}{"ev": "Begin", "t": name})
		}
		p := progs[ti]
		if pos[ti] < len(p.stmts) {
			s := p.stmts[pos[ti]]
			pos[ti]++
			ver++
			res, _ := e.ExecTxn(txns[ti], s.sql(ver))
			sr.nstmt++
			ev := map[string]interface{}{"ev": "Stmt", "t": name, "k": s.K, "a": s.A, "b": s.B, "v": ver, "res": res.Res, "rows": kvRows(res.Rows)}
			sr.tw.Emit(ev)
			if res.Res == "ok" {
				sr.nok++
			} else if res.Res == "abort" {
				r := endTxn(e, txns[ti], false)
				sr.tw.Emit(map[string]interface{}{"ev": "Abort", "t": name, "res": r})
				dead[ti] = true
				if r != "ok" {
					poisoned = true
				}
			} else {
				poisoned = true // a panic inside a statement leaves latches and locks behind
			}
			continue
		}
		// end of program
		r := endTxn(e, txns[ti], p.commit)
		if p.commit {
			sr.tw.Emit(map[string]interface{}{"ev": "Commit", "t": name, "res": r})
		} else {
			sr.tw.Emit(map[string]interface{}{"ev": "Abort", "t": name, "res": r})
		}
		dead[ti] = true
		if r != "ok" {
			poisoned = true
		}
	}
	if poisoned {
		return
	}
	// transactions still open (cannot happen with complete orders) are rolled back
	for i, t := range txns {
		if t != nil && !dead[i] {
			r := endTxn(e, t, false)
			sr.tw.Emit(map[string]interface{}{"ev": "Abort", "t": i + 1, "res": r})
		}
	}
	r1 := e.Exec(fmt.Sprintf("SELECT k, v FROM %s WHERE v >= 0 OR v >= 0;", txnTable))
	r2 := e.Exec(fmt.Sprintf("SELECT k, v FROM %s WHERE k >= 0;", txnTable))
	res := "ok"
	if r1.Res != "ok" || r2.Res != "ok" {
		res = r1.Res + " / " + r2.Res
	}
	sr.tw.Emit(map[string]interface{}{"ev": "Final", "res": res, "seq": kvRows(r1.Rows), "idx": kvRows(r2.Rows), "sched": label})
}

func endTxn(e *eng.Engine, t *access.Transaction, commit bool) (res string) {
	res = "ok"
	defer func() {
		if x := recover(); x != nil {
			res = "panic:" + fmt.Sprint(x)
		}
	}()
	if commit {
		e.TM().Commit(e.Catalog(), t)
	} else {
		e.TM().Abort(e.Catalog(), t)
	}
	return
}

// all merges of the step sequences (steps[i] entries of value i)
func interleavings(steps []int) [][]int {
	var out [][]int
	var rec func(rem []int, cur []int)
	rec = func(rem []int, cur []int) {
		done := true
		for i, r := range rem {
			if r > 0 {
				done = false
				rem[i]--
				rec(rem, append(cur, i))
				rem[i]++
			}
		}
		if done {
			out = append(out, append([]int{}, cur...))
		}
	}
	rec(append([]int{}, steps...), nil)
	return out
}

func alphabet(ti int, relocating bool) []tstmt {
	fresh := 10 + ti*10
	a := []tstmt{
		{"pread", 1, 0}, {"pread", 2, 0}, {"rread", 1, 2}, {"rread", 2, 9}, {"sread", 0, 0},
		{"ins", fresh, 0}, {"del", 1, 0}, {"del", 2, 0}, {"upd", 1, 0}, {"upd", 2, 0}, {"supd", 1, 0}, {"supd", 3, 0}, {"kupd", 2, 5 + ti}, {"kupd", 3, 8 + ti}, // fresh target keys: the model keeps keys unique
	}
	if relocating {
		a = append(a, tstmt{"rupd", 1, 0}, tstmt{"rupd", 2, 0})
	}
	return a
}

func progLabel(progs []tprog, order []int) string {
	parts := []string{}
	for i, p := range progs {
		s := []string{}
		for _, st := range p.stmts {
			s = append(s, fmt.Sprintf("%s(%d,%d)", st.K, st.A, st.B))
		}
		end := "abort"
		if p.commit {
			end = "commit"
		}
		parts = append(parts, fmt.Sprintf("T%d:[%s;%s]", i+1, strings.Join(s, ";"), end))
	}
	return strings.Join(parts, " ") + " order=" + fmt.Sprint(order)
}

// txn sched <out.ndjson> <pairs of programs> <three-transaction schedules>
func txnDriver(args []string) error {
	if args[0] == "walk" {
		return txnWalk(args[1:])
	}
	if args[0] == "conc" {
		return txnConc(args[1:])
	}
	if args[0] != "sched" {
		return fmt.Errorf("txn sched ...")
	}
	eng.Quiet()
	tw, err := trace.New(args[1])
	if err != nil {
		return err
	}
	npairs, _ := strconv.Atoi(args[2])
	n3, _ := strconv.Atoi(args[3])
	rng := rand.New(rand.NewSource(envSeed()))
	sr := &schedRunner{tw: tw}
	randProg := func(ti int, relocating bool, maxLen int) tprog {
		al := alphabet(ti, relocating)
		n := 1 + rng.Intn(maxLen)
		p := tprog{commit: rng.Intn(5) != 0}
		for i := 0; i < n; i++ {
			p.stmts = append(p.stmts, al[rng.Intn(len(al))])
		}
		return p
	}
	for i := 0; i < npairs; i++ {
		relocating := rng.Intn(4) == 0
		maxLen := 2
		if rng.Intn(5) == 0 {
			maxLen = 3
		}
		progs := []tprog{randProg(0, relocating, maxLen), randProg(1, relocating, maxLen)}
		// every interleaving of the two programs (statements + the final commit/abort)
		for _, order := range interleavings([]int{len(progs[0].stmts) + 1, len(progs[1].stmts) + 1}) {
			sr.run(progs, order, relocating, progLabel(progs, order))
		}
	}
	for i := 0; i < n3; i++ {
		progs := []tprog{randProg(0, false, 2), randProg(1, false, 2), randProg(2, false, 1)}
		all := interleavings([]int{len(progs[0].stmts) + 1, len(progs[1].stmts) + 1, len(progs[2].stmts) + 1})
		// a seeded sample of the three-way interleavings
		for j := 0; j < 12; j++ {
			order := all[rng.Intn(len(all))]
			sr.run(progs, order, false, progLabel(progs, order))
		}
	}
	fmt.Fprintf(os.Stderr, "schedules=%d statements=%d ok=%d\n", sr.nsch, sr.nstmt, sr.nok)
	return tw.Close()
}

// txn walk <walks.json> <out.ndjson>: schedules computed from the state graph of spec/TwoPL (every edge of the
// graph is taken by some schedule); each entry gives the programs and the step order.
func txnWalk(args []string) error {
	eng.Quiet()
	raw, err := os.ReadFile(args[0])
	if err != nil {
		return err
	}
	var ws []struct {
		Progs []struct {
			Stmts  [][]interface{} `json:"stmts"`
			Commit bool            `json:"commit"`
		} `json:"progs"`
		Order []int `json:"order"`
	}
	if err := json.Unmarshal(raw, &ws); err != nil {
		return err
	}
	tw, err := trace.New(args[1])
	if err != nil {
		return err
	}
	sr := &schedRunner{tw: tw}
	for _, w := range ws {
		progs := []tprog{}
		for _, p := range w.Progs {
			tp := tprog{commit: p.Commit}
			for _, st := range p.Stmts {
				tp.stmts = append(tp.stmts, tstmt{K: st[0].(string), A: int(st[1].(float64)), B: int(st[2].(float64))})
			}
			progs = append(progs, tp)
		}
		sr.run(progs, w.Order, false, progLabel(progs, w.Order))
	}
	fmt.Fprintf(os.Stderr, "schedules=%d statements=%d ok=%d\n", sr.nsch, sr.nstmt, sr.nok)
	return tw.Close()
}
