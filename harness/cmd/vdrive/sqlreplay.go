package main

// sql replay <trace.ndjson> <out.ndjson> <scratch dir> <from line> <to line> [memKB]
// Re-executes the statements of one recorded scenario (the lines from..to of a SqlModel trace, 1-based, starting at
// its Reset event) on a fresh file-backed database and records a new trace: the replay of a reported violation.

import (
	"bufio"
	"encoding/json"
	"fmt"
	"math/rand"
	"os"
	"strconv"

	"verif/harness/internal/trace"
)

func predFromJSON(m map[string]interface{}) *pred {
	if m == nil {
		return predTrue
	}
	switch m["k"] {
	case "cmp":
		return &pred{K: "cmp", C: int(m["c"].(float64)), Op: m["op"].(string), V: int(m["v"].(float64))}
	case "and", "or":
		return &pred{K: m["k"].(string), A: predFromJSON(m["a"].(map[string]interface{})), B: predFromJSON(m["b"].(map[string]interface{}))}
	}
	return predTrue
}

func intRows(v interface{}) [][]int {
	out := [][]int{}
	if l, ok := v.([]interface{}); ok {
		for _, r := range l {
			row := []int{}
			for _, x := range r.([]interface{}) {
				row = append(row, int(x.(float64)))
			}
			out = append(out, row)
		}
	}
	return out
}

func sqlReplay(args []string) error {
	from, _ := strconv.Atoi(args[3])
	to, _ := strconv.Atoi(args[4])
	memKB := 0
	if len(args) > 5 {
		memKB, _ = strconv.Atoi(args[5])
	}
	f, err := os.Open(args[0])
	if err != nil {
		return err
	}
	defer f.Close()
	tw, err := trace.New(args[1])
	if err != nil {
		return err
	}
	os.MkdirAll(args[2], 0o755)
	rng := rand.New(rand.NewSource(1))
	var s *sqlRun
	tabs := map[string]*tableDef{}
	sc := bufio.NewScanner(f)
	sc.Buffer(make([]byte, 1<<20), 1<<28)
	ln := 0
	for sc.Scan() {
		ln++
		if ln < from || ln > to {
			continue
		}
		var e map[string]interface{}
		if json.Unmarshal(sc.Bytes(), &e) != nil {
			continue
		}
		ev, _ := e["ev"].(string)
		if s == nil {
			kb := memKB
			if kb == 0 {
				if v, ok := e["memKB"].(float64); ok {
					kb = int(v)
				} else {
					kb = 1024
				}
			}
			ctx, _ := e["ctx"].(string)
			s, err = newFileRun(tw, ctx, args[2], kb)
			if err != nil {
				return err
			}
			if ev == "Reset" {
				continue
			}
		}
		t := tabs[fmt.Sprint(e["t"])]
		switch ev {
		case "Create":
			td := &tableDef{name: e["t"].(string)}
			for i, c := range e["cols"].([]interface{}) {
				td.cols = append(td.cols, c.(string))
				td.names = append(td.names, fmt.Sprintf("x%d", i))
			}
			if ks, ok := e["kinds"].([]interface{}); ok {
				for _, k := range ks {
					td.kinds = append(td.kinds, k.(string))
				}
				s.createAPI(td)
			} else {
				s.create(td)
			}
			tabs[td.name] = td
		case "Insert":
			if t != nil {
				if _, other := e["other"]; other {
					s.insertOther(t, intRows(e["rows"]))
				} else {
					s.insert(t, intRows(e["rows"]), nil)
				}
			}
		case "Update":
			if t != nil {
				set := [][2]int{}
				for _, r := range intRows(e["set"]) {
					set = append(set, [2]int{r[0], r[1]})
				}
				s.update(t, set, predFromJSON(e["pred"].(map[string]interface{})))
			}
		case "Delete":
			if t != nil {
				s.delete(t, predFromJSON(e["pred"].(map[string]interface{})))
			}
		case "Select":
			if t != nil && e["rejected"] == nil {
				proj := []int{}
				for _, x := range e["proj"].([]interface{}) {
					proj = append(proj, int(x.(float64)))
				}
				_, sync := e["sync"]
				if sync {
					s.scan(t)
				} else {
					s.selectQ(t, predFromJSON(e["pred"].(map[string]interface{})), proj, false)
				}
			}
		case "Join":
			ts := []*tableDef{}
			for _, n := range e["ts"].([]interface{}) {
				ts = append(ts, tabs[n.(string)])
			}
			on := [][4]int{}
			for _, r := range intRows(e["on"]) {
				on = append(on, [4]int{r[0], r[1], r[2], r[3]})
			}
			filt := []joinFilt{}
			if l, ok := e["filt"].([]interface{}); ok {
				for _, x := range l {
					m := x.(map[string]interface{})
					filt = append(filt, joinFilt{int(m["t"].(float64)), int(m["c"].(float64)), m["op"].(string), int(m["v"].(float64))})
				}
			}
			proj := [][2]int{}
			for _, r := range intRows(e["proj"]) {
				proj = append(proj, [2]int{r[0], r[1]})
			}
			s.joinQ(ts, on, filt, proj, len(ts) > 2)
		case "IdxPoint":
			if t != nil {
				s.idxPoint(t, int(e["c"].(float64)), int(e["v"].(float64)))
			}
		case "IdxRange":
			if t != nil {
				s.idxRange(t, int(e["c"].(float64)), int(e["lo"].(float64)), int(e["hi"].(float64)))
			}
		case "Stats":
			s.stats()
		case "Begin":
			s.begin()
		case "Commit":
			s.endTxn(true)
		case "Abort":
			s.endTxn(false)
		case "Shutdown", "Crash":
			s.restart(ev == "Shutdown") // (emits the stop and the Reopen)
		}
		_ = rng
		if s.dead {
			break
		}
	}
	if s != nil {
		s.closeFiles()
	}
	return tw.Close()
}
