package main

// C14 workload: statements that fail in the planner, statements aborted by a lock conflict with a
// second open transaction, rolled-back transactions - all with pin vectors before / after.

import (
	"fmt"
	"strconv"

	"verif/harness/internal/trace"
)

// sql c14 <out.ndjson> <scenarios>
func sqlC14(args []string) error {
	tw, err := trace.New(args[0])
	if err != nil {
		return err
	}
	nscen, _ := strconv.Atoi(args[1])
	for sc := envStart(); sc < nscen; sc++ {
		rng := scenarioRng(sc)
		s, err := newRun(tw, ctxName("C14"), 256) // 64 frames
		if err != nil {
			return err
		}
		t := randSchema(rng, fmt.Sprintf("p%d", sc))
		s.create(t)
		maxRank := NRanks - 1
		if rng.Intn(3) == 0 {
			maxRank = NRanks
		}
		for i := 0; i < 6+rng.Intn(30); i++ {
			s.insert(t, [][]int{randRow(rng, t, maxRank)}, nil)
		}
		s.stats()
		s.scan(t)
		if sc%3 == 0 { // joins whose build side spills over several temporary pages
			s.bigJoin(rng, t, fmt.Sprintf("pb%d", sc))
			s.scan(t)
		}
		nc := len(t.cols)
		for round := 0; round < 12 && !s.dead; round++ {
			switch rng.Intn(4) {
			case 0: // statements the planner rejects
				for _, q := range []string{"SELECT * FROM nosuchtable;", "SELECT nosuchcol FROM " + t.name + ";",
					"INSERT INTO " + t.name + "(" + t.names[0] + ") VALUES ('x', 1);", "CREATE TABLE " + t.name + "(a int);"} {
					ev := map[string]interface{}{"ev": "Select", "t": t.name, "pred": predTrue.json(), "proj": []int{}, "rows": [][]int{}, "plan": "rejected", "rejected": true}
					r := s.stmt(ev, q)
					_ = r
					s.emit(ev)
				}
			case 1: // a transaction that is rolled back
				s.begin()
				for i := 0; i < 1+rng.Intn(4); i++ {
					s.randDML(rng, t, maxRank)
				}
				s.endTxn(false)
				s.scan(t)
			case 2: // lock conflict: another transaction holds exclusive locks on some rows
				c := rng.Intn(nc)
				v := rng.Intn(maxRank)
				set := [][2]int{{rng.Intn(nc), rng.Intn(maxRank)}}
				p := atom(c, "=", v)
				holder := s.e.TM().Begin(nil)
				sqlU := "UPDATE " + t.name + " SET " + t.names[set[0][0]] + " = " + lit(t.cols[set[0][0]], set[0][1]) + where(p, t) + ";"
				hr, _ := s.e.ExecTxn(holder, sqlU)
				if hr.Res == "ok" {
					// serial order: the holder first (statements that meet one of its rows abort, the others touch disjoint rows)
					s.emit(map[string]interface{}{"ev": "Update", "t": t.name, "pred": p.json(), "set": [][]int{{set[0][0], set[0][1]}}, "res": "ok", "plan": "holder", "sql": sqlU})
				}
				// statements of other (autocommit) transactions: those that touch a locked row abort
				for i := 0; i < 3 && !s.dead; i++ {
					switch rng.Intn(3) {
					case 0:
						s.conflict = true
						s.selectQ(t, predTrue, nil, false)
					case 1:
						s.conflict = true
						s.update(t, [][2]int{{rng.Intn(nc), rng.Intn(maxRank)}}, randAtom(rng, nc))
					default:
						s.conflict = true
						s.delete(t, randAtom(rng, nc))
					}
					s.conflict = false
				}
				if hr.Res == "ok" {
					s.e.TM().Commit(s.e.Catalog(), holder)
				} else {
					s.e.TM().Abort(s.e.Catalog(), holder)
				}
				s.scan(t)
			default:
				for i := 0; i < 4; i++ {
					s.randDML(rng, t, maxRank)
				}
				s.scan(t)
			}
		}
	}
	return tw.Close()
}
