package main

// C14 workload: statements that fail in the planner, statements aborted by a lock conflict with a
// second open transaction, rolled-back transactions - all with pin vectors before / after.

import (
	"fmt"
	"os"
	"strconv"
	"strings"
	"sync"
	"sync/atomic"
	"time"

	"github.com/ryogrid/SamehadaDB/lib/storage/page/skip_list_page"

	"verif/harness/internal/trace"
)

// sql c14 <out.ndjson> <scenarios>
func sqlC14(args []string) error {
	tw, err := trace.New(args[0])
	if err != nil {
		return err
	}
	nscen, _ := strconv.Atoi(args[1])
	for sc := envStart(); sc < nscen; sc++ {
		rng := scenarioRng(sc)
		s, err := newRun(tw, ctxName("C14"), 256) // 64 frames
		if err != nil {
			return err
		}
		t := randSchema(rng, fmt.Sprintf("p%d", sc))
		s.create(t)
		maxRank := NRanks - 1
		if rng.Intn(3) == 0 {
			maxRank = NRanks
		}
		for i := 0; i < 6+rng.Intn(30); i++ {
			s.insert(t, [][]int{randRow(rng, t, maxRank)}, nil)
		}
		s.stats()
		s.scan(t)
		if sc%3 == 0 { // joins whose build side spills over several temporary pages
			s.bigJoin(rng, t, fmt.Sprintf("pb%d", sc))
			s.scan(t)
		}
		nc := len(t.cols)
		for round := 0; round < 12 && !s.dead; round++ {
			switch rng.Intn(4) {
			case 0: // statements the planner rejects
				for _, q := range []string{"SELECT * FROM nosuchtable;", "SELECT nosuchcol FROM " + t.name + ";",
					"INSERT INTO " + t.name + "(" + t.names[0] + ") VALUES ('x', 1);", "CREATE TABLE " + t.name + "(a int);"} {
					ev := map[string]interface{}{"ev": "Select", "t": t.name, "pred": predTrue.json(), "proj": []int{}, "rows": [][]int{}, "plan": "rejected", "rejected": true}
					r := s.stmt(ev, q)
					_ = r
					s.emit(ev)
				}
			case 1: // a transaction that is rolled back
				s.begin()
				for i := 0; i < 1+rng.Intn(4); i++ {
					s.randDML(rng, t, maxRank)
				}
				s.endTxn(false)
				s.scan(t)
			case 2: // lock conflict: another transaction holds exclusive locks on some rows
				c := rng.Intn(nc)
				v := rng.Intn(maxRank)
				set := [][2]int{{rng.Intn(nc), rng.Intn(maxRank)}}
				p := atom(c, "=", v)
				holder := s.e.TM().Begin(nil)
				sqlU := "UPDATE " + t.name + " SET " + t.names[set[0][0]] + " = " + lit(t.cols[set[0][0]], set[0][1]) + where(p, t) + ";"
				hr, _ := s.e.ExecTxn(holder, sqlU)
				if hr.Res == "ok" {
					// serial order: the holder first (statements that meet one of its rows abort, the others touch disjoint rows)
					s.emit(map[string]interface{}{"ev": "Update", "t": t.name, "pred": p.json(), "set": [][]int{{set[0][0], set[0][1]}}, "res": "ok", "plan": "holder", "sql": sqlU})
				}
				// statements of other (autocommit) transactions: those that touch a locked row abort
				for i := 0; i < 3 && !s.dead; i++ {
					switch rng.Intn(3) {
					case 0:
						s.conflict = true
						s.selectQ(t, predTrue, nil, false)
					case 1:
						s.conflict = true
						s.update(t, [][2]int{{rng.Intn(nc), rng.Intn(maxRank)}}, randAtom(rng, nc))
					default:
						s.conflict = true
						s.delete(t, randAtom(rng, nc))
					}
					s.conflict = false
				}
				if hr.Res == "ok" {
					s.e.TM().Commit(s.e.Catalog(), holder)
				} else {
					s.e.TM().Abort(s.e.Catalog(), holder)
				}
				s.scan(t)
			default:
				for i := 0; i < 4; i++ {
					s.randDML(rng, t, maxRank)
				}
				s.scan(t)
			}
		}
	}
	// concurrent windows: goroutines insert rows with 1 100-byte strings into a table whose string column has a skip
	// list index (three entries fill a node), so that inserters meet on full nodes - one splits, the other's validation
	// fails and it starts over.  One event per window with the pinned pages before and after it.
	nwin := nscen / 10
	if nwin < 4 {
		nwin = 4
	}
	if envStart() > 0 {
		nwin = 0
	}
	for w := 0; w < nwin; w++ {
		s, err := newRun(tw, ctxName("C14"), 4000)
		if err != nil {
			return err
		}
		t := &tableDef{name: fmt.Sprintf("cw%d", w), cols: []string{"int", "varchar"}, names: []string{"k", "p"}, kinds: []string{"skiplist", "skiplist"}} // (k indexed too: the interleaved DELETE must not scan into the row being inserted)
		s.createAPI(t)
		pad := strings.Repeat("w", 1100)
		pb := s.e.Pins()
		var wg sync.WaitGroup
		var failed int32
		if w%2 == 1 {
			// the same meeting made certain: one inserter; every time it is about to re-validate a node it found full
			// (gate hook H8: it holds no latch there) another statement - the DELETE of the row inserted before -
			// runs to completion, which changes the node in half of the cases
			cur := int32(-1)
			var gates, inner int32
			skip_list_page.VerifGate = func(point string) {
				c := atomic.LoadInt32(&cur)
				if point != "validate" || c < 1 || atomic.AddInt32(&gates, 1)%2 == 0 || atomic.LoadInt32(&inner) != 0 {
					return
				}
				atomic.StoreInt32(&inner, 1)
				s.e.DB.ExecuteSQL(fmt.Sprintf("DELETE FROM %s WHERE k = %d;", t.name, c-1))
				atomic.StoreInt32(&inner, 0)
			}
			res := "ok"
			for i := 0; i < 60 && res == "ok"; i++ {
				atomic.StoreInt32(&cur, int32(i))
				done := make(chan error, 1)
				go func() {
					defer func() {
						if x := recover(); x != nil {
							done <- fmt.Errorf("panic: %v", x)
						}
					}()
					err, _ := s.e.DB.ExecuteSQL(fmt.Sprintf("INSERT INTO %s(k, p) VALUES (%d, '%03d-%s');", t.name, i, i, pad))
					done <- err
				}()
				select {
				case err := <-done:
					if err != nil {
						res = "err:" + err.Error()
					}
				case <-time.After(60 * time.Second):
					res = "hang"
				}
			}
			skip_list_page.VerifGate = nil
			s.emit(map[string]interface{}{"ev": "Window", "t": t.name, "res": res, "pb": pb, "pa": s.e.Pins(), "goroutines": 1, "statements": 60, "gates": int(gates)})
			if res == "hang" {
				tw.Flush()
				tw.Close()
				os.Exit(3)
			}
			continue
		}
		for g := 0; g < 8; g++ {
			wg.Add(1)
			go func(g int) {
				defer wg.Done()
				defer func() {
					if recover() != nil {
						atomic.AddInt32(&failed, 1)
					}
				}()
				for i := 0; i < 20; i++ {
					// neighbours in key order come from different goroutines
					if err, _ := s.e.DB.ExecuteSQL(fmt.Sprintf("INSERT INTO %s(k, p) VALUES (%d, '%03d-%d-%s');", t.name, g*100+i, i, g, pad)); err != nil {
						atomic.AddInt32(&failed, 1)
					}
				}
			}(g)
		}
		done := make(chan struct{})
		go func() { wg.Wait(); close(done) }()
		res := "ok"
		select {
		case <-done:
		case <-time.After(90 * time.Second):
			res = "hang"
		}
		if failed != 0 && res == "ok" {
			res = fmt.Sprintf("err:%d statements failed", failed)
		}
		s.emit(map[string]interface{}{"ev": "Window", "t": t.name, "res": res, "pb": pb, "pa": s.e.Pins(), "goroutines": 8, "statements": 160})
		if res == "hang" {
			tw.Flush()
			tw.Close()
			os.Exit(3)
		}
	}
	return tw.Close()
}
