package main

// txn conc <out.ndjson> <windows> <goroutines> <transactions per goroutine> <gomaxprocs>
// C04 / C05 under real goroutine concurrency: every goroutine runs multi-statement transactions of its own
// (its own *access.Transaction handle, statements through the parser / optimizer / executors) on one shared table.
// Versions are unique, so every row read names its writer.  Invocation and return of every statement, commit and
// abort are stamped with one shared atomic counter (never wall-clock time); the merged history is judged by TLC
// (spec/TxnModel/TxnHistoryTrace).

import (
	"fmt"
	"math/rand"
	"os"
	"runtime"
	"sort"
	"strconv"
	"sync"
	"sync/atomic"
	"time"

	"github.com/ryogrid/SamehadaDB/lib/storage/index/index_constants"
	"github.com/ryogrid/SamehadaDB/lib/storage/table/column"
	"github.com/ryogrid/SamehadaDB/lib/storage/table/schema"
	"github.com/ryogrid/SamehadaDB/lib/types"
	"verif/harness/internal/eng"
	"verif/harness/internal/trace"
)

type hEvt struct {
	at int64
	ev map[string]interface{}
}

func txnConc(args []string) error {
	eng.Quiet()
	tw, err := trace.New(args[0])
	if err != nil {
		return err
	}
	windows, _ := strconv.Atoi(args[1])
	ng, _ := strconv.Atoi(args[2])
	ntx, _ := strconv.Atoi(args[3])
	procs, _ := strconv.Atoi(args[4])
	runtime.GOMAXPROCS(procs)
	const nwork, nfixed = 4, 2 // keys 1..4 are worked on, keys 5..6 are never written
	for w := 0; w < windows; w++ {
		dbCounter++
		e, pm := eng.Open(fmt.Sprintf("vtc%d", dbCounter), 2000, false)
		if e == nil {
			return fmt.Errorf("open: %s", pm)
		}
		func() {
			cols := []*column.Column{
				column.NewColumn("k", types.Integer, true, index_constants.IndexKindSkipList, types.PageID(-1), nil),
				column.NewColumn("v", types.Integer, true, index_constants.IndexKindSkipList, types.PageID(-1), nil),
				column.NewColumn("p", types.Varchar, false, index_constants.IndexKindInvalid, types.PageID(-1), nil),
			}
			txn := e.TM().Begin(nil)
			e.Catalog().CreateTable(txnTable, schema.NewSchema(cols), txn)
			e.TM().Commit(e.Catalog(), txn)
		}()
		init := [][]int{}
		for k := 1; k <= nwork+nfixed; k++ {
			e.Exec(fmt.Sprintf("INSERT INTO %s(k, v, p) VALUES (%d, %d, 's');", txnTable, k, k))
			init = append(init, []int{k, k})
		}
		e.RefreshStats()
		tw.Emit(map[string]interface{}{"ev": "Reset", "rows": init, "fixed": []int{nwork + 1, nwork + 2}, "gomaxprocs": procs, "goroutines": ng})
		var clock, ver, nextKey int64 = 0, 100, 1000
		var tid int64
		evs := make([][]hEvt, ng)
		var wg sync.WaitGroup
		var stuck int32
		var died atomic.Value
		for g := 0; g < ng; g++ {
			wg.Add(1)
			go func(g int) {
				defer wg.Done()
				defer func() { // a panic inside Commit / Abort: the window ends, the final event reports it
					if x := recover(); x != nil {
						died.Store(fmt.Sprint(x))
						atomic.StoreInt32(&stuck, 1)
					}
				}()
				rng := rand.New(rand.NewSource(envSeed()*1009 + int64(w*64+g)))
				myKeys := []int{} // keys inserted and committed by this goroutine, not deleted yet
				add := func(ev map[string]interface{}) {
					evs[g] = append(evs[g], hEvt{atomic.AddInt64(&clock, 1), ev})
				}
				for i := 0; i < ntx && atomic.LoadInt32(&stuck) == 0; i++ {
					t := int(atomic.AddInt64(&tid, 1))
					txn := e.TM().Begin(nil)
					add(map[string]interface{}{"ev": "TBegin", "t": t})
					alive := true
					insertedNow, deletedNow := []int{}, []int{}
					stmt := func(kind string, a int, v int, sql string) (rows [][]int, ok bool) {
						s := len(evs[g])
						add(map[string]interface{}{"ev": "SInv", "t": t, "s": s, "k": kind, "a": a, "v": v})
						done := make(chan eng.Result, 1)
						go func() { r, _ := e.ExecTxn(txn, sql); done <- r }()
						var r eng.Result
						select {
						case r = <-done:
						case <-time.After(60 * time.Second):
							atomic.StoreInt32(&stuck, 1)
							r = eng.Result{Res: "stuck"}
						}
						rows = kvRows(r.Rows)
						add(map[string]interface{}{"ev": "SRet", "t": t, "s": s, "k": kind, "a": a, "v": v, "res": r.Res, "rows": rows})
						return rows, r.Res == "ok"
					}
					n := 1 + rng.Intn(3)
					for j := 0; j < n && alive; j++ {
						k := 1 + rng.Intn(nwork)
						switch x := rng.Intn(10); {
						case x < 2:
							_, alive = stmt("pread", k, 0, fmt.Sprintf("SELECT k, v FROM %s WHERE k = %d;", txnTable, k))
						case x < 3:
							_, alive = stmt("sread", 0, 0, fmt.Sprintf("SELECT k, v FROM %s WHERE v >= 0 OR v >= 0;", txnTable))
						case x < 4:
							_, alive = stmt("rread", 1, nwork+nfixed, fmt.Sprintf("SELECT k, v FROM %s WHERE k >= 1 AND k <= %d;", txnTable, nwork+nfixed))
						case x < 8: // read-modify-write of one row: the version overwritten is the version read
							var rows [][]int
							rows, alive = stmt("pread", k, 0, fmt.Sprintf("SELECT k, v FROM %s WHERE k = %d;", txnTable, k))
							if alive && len(rows) == 1 {
								nv := int(atomic.AddInt64(&ver, 1))
								_, alive = stmt("upd", k, nv, fmt.Sprintf("UPDATE %s SET v = %d WHERE k = %d;", txnTable, nv, k))
							}
						case x < 9:
							nk := int(atomic.AddInt64(&nextKey, 1))
							nv := int(atomic.AddInt64(&ver, 1))
							_, alive = stmt("ins", nk, nv, fmt.Sprintf("INSERT INTO %s(k, v, p) VALUES (%d, %d, 's');", txnTable, nk, nv))
							if alive {
								insertedNow = append(insertedNow, nk)
							}
						default:
							if len(myKeys) > 0 {
								dk := myKeys[rng.Intn(len(myKeys))]
								var rows [][]int
								rows, alive = stmt("pread", dk, 0, fmt.Sprintf("SELECT k, v FROM %s WHERE k = %d;", txnTable, dk))
								if alive && len(rows) == 1 {
									_, alive = stmt("del", dk, 0, fmt.Sprintf("DELETE FROM %s WHERE k = %d;", txnTable, dk))
									if alive {
										deletedNow = append(deletedNow, dk)
									}
								}
							}
						}
					}
					commit := alive && rng.Intn(5) != 0
					if commit {
						add(map[string]interface{}{"ev": "CInv", "t": t})
						e.TM().Commit(e.Catalog(), txn)
						add(map[string]interface{}{"ev": "CRet", "t": t})
						myKeys = append(myKeys, insertedNow...)
						for _, d := range deletedNow {
							for x, y := range myKeys {
								if y == d {
									myKeys = append(myKeys[:x], myKeys[x+1:]...)
									break
								}
							}
						}
					} else {
						add(map[string]interface{}{"ev": "AInv", "t": t})
						e.TM().Abort(e.Catalog(), txn)
						add(map[string]interface{}{"ev": "ARet", "t": t})
					}
				}
			}(g)
		}
		wg.Wait()
		all := []hEvt{}
		for _, l := range evs {
			all = append(all, l...)
		}
		sort.Slice(all, func(i, j int) bool { return all[i].at < all[j].at })
		for _, h := range all {
			tw.Emit(h.ev)
		}
		if stuck != 0 {
			res := "stuck"
			if d, ok := died.Load().(string); ok {
				res = "panic:" + d
			}
			tw.Emit(map[string]interface{}{"ev": "Final", "res": res, "rows": [][]int{}})
			tw.Close()
			os.Exit(3)
		}
		r1 := e.Exec(fmt.Sprintf("SELECT k, v FROM %s WHERE v >= 0 OR v >= 0;", txnTable))
		r2 := e.Exec(fmt.Sprintf("SELECT k, v FROM %s WHERE k >= 0;", txnTable))
		res := "ok"
		if r1.Res != "ok" || r2.Res != "ok" {
			res = r1.Res + " / " + r2.Res
		}
		tw.Emit(map[string]interface{}{"ev": "Final", "res": res, "rows": kvRows(r1.Rows), "idx": kvRows(r2.Rows)})
	}
	return tw.Close()
}
