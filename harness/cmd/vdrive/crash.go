package main

// Crash-probe pipeline (DESIGN.md 3.4 mode 3) for C01 / C02 / C08 / C20.
//
//   crash run   <scratch dir> <trace.ndjson> <ops.gob> <memKB>
//       runs a seeded workload of multi-statement transactions on a file-backed database whose disk
//       manager is wrapped by the recording wrapper (hook H1); driver events (Begin, Write, CommitStart,
//       CommitRet, AbortRet, Ckpt) and I/O events (WLog with the parsed records, WPage with page id and
//       page LSN, GC) are written in the order they happen (single goroutine, background threads off).
//   crash probe <ops.gob> <scratch dir> <from> <to> <out.ndjson> <memKB> <nested depth> <torn 0|1>
//       for every prefix k in [from, to) of the recorded I/O list: materialise the crash image, start
//       the real NewSamehadaDB on it, read the table back, check that a new statement is accepted;
//       optionally tear the next log write, and recurse into the recovery run's own I/O (C20).

import (
	"github.com/ryogrid/SamehadaDB/lib/storage/index/index_constants"
	"github.com/ryogrid/SamehadaDB/lib/storage/table/column"
	"github.com/ryogrid/SamehadaDB/lib/storage/table/schema"
	"github.com/ryogrid/SamehadaDB/lib/types"
	"encoding/binary"
	"encoding/gob"
	"fmt"
	"math/rand"
	"os"
	"path/filepath"
	"sort"
	"strconv"
	"strings"
	"time"

	"github.com/ryogrid/SamehadaDB/lib/samehada"
	"github.com/ryogrid/SamehadaDB/lib/storage/access"
	"github.com/ryogrid/SamehadaDB/lib/storage/disk"
	"verif/harness/internal/eng"
	"verif/harness/internal/iorec"
	"verif/harness/internal/trace"
)

func init() { drivers["crash"] = crashDriver }

type logRec struct {
	Lsn, Txn, Prev, Typ, Size int
	A, B                      int // NewTablePage: prev page, page
}

var recTypeName = []string{"INVALID", "INSERT", "MARKDELETE", "APPLYDELETE", "ROLLBACKDELETE", "UPDATE", "BEGIN", "COMMIT", "ABORT", "NEWPAGE", "DEALLOC", "REUSE", "GRACEFUL"}

// ioHook turns recorded I/O calls into trace events.  A log write lists its records as
// [lsn, txn, type, size, prevLSN, new page id (NewTablePage records, else -1)]; a page write carries the page LSN
// and, for pages known to be heap pages (a NewTablePage record named them), the next-page link of the image.
var ioLite bool

func ioHook(tw *trace.Writer, heap map[int]bool) func(idx int, op *iorec.Op) {
	return func(idx int, op *iorec.Op) {
		switch op.Kind {
		case "L":
			recs, ok := parseLog(op.Data)
			rj := [][]int{}
			for _, r := range recs {
				np := -1
				if r.Typ == 9 {
					heap[r.B] = true
					np = r.B
				}
				rj = append(rj, []int{r.Lsn, r.Txn, r.Typ, r.Size, r.Prev, np})
			}
			if ioLite {
				// storm workloads (half a megabyte of records per write): completeness of the write, its greatest LSN
				// (one synthetic BEGIN-typed record of a transaction id nobody has) and the NewTablePage records (each
				// under a transaction id of its own) are kept; the per-transaction chain rule is not judged there
				lite := [][]int{}
				maxLsn := -1
				for _, r := range rj {
					if r[0] > maxLsn {
						maxLsn = r[0]
					}
					if r[2] == 9 {
						lite = append(lite, []int{r[0], -(r[0] + 10), 9, r[3], -1, r[5]})
					}
				}
				if maxLsn >= 0 {
					lite = append(lite, []int{maxLsn, -(maxLsn + 1000010), 6, 20, -1, -1})
				}
				rj = lite
			}
			tw.Emit(map[string]interface{}{"ev": "WLog", "io": idx, "recs": rj, "parsed": ok, "bytes": len(op.Data)})
		case "P":
			lsn := int(int32(binary.LittleEndian.Uint32(op.Data[4:8])))
			next := -1
			if heap[int(op.Page)] {
				next = int(int32(binary.LittleEndian.Uint32(op.Data[12:16])))
			}
			tw.Emit(map[string]interface{}{"ev": "WPage", "io": idx, "p": int(op.Page), "lsn": lsn, "heap": heap[int(op.Page)], "next": next})
		case "GC":
			tw.Emit(map[string]interface{}{"ev": "GC", "io": idx})
		}
	}
}

// parseLog splits one WriteLog payload into records with a strict parser of its own.
// ok=false when the payload is not a sequence of complete records.
func parseLog(b []byte) (recs []logRec, ok bool) {
	pos := 0
	for pos < len(b) {
		if len(b)-pos < 20 {
			return recs, false
		}
		r := logRec{
			Size: int(binary.LittleEndian.Uint32(b[pos:])), Lsn: int(int32(binary.LittleEndian.Uint32(b[pos+4:]))),
			Txn: int(int32(binary.LittleEndian.Uint32(b[pos+8:]))), Prev: int(int32(binary.LittleEndian.Uint32(b[pos+12:]))),
			Typ: int(int32(binary.LittleEndian.Uint32(b[pos+16:]))),
		}
		if r.Size < 20 || pos+r.Size > len(b) || r.Typ <= 0 || r.Typ >= len(recTypeName) {
			return recs, false
		}
		if r.Typ == 9 && r.Size >= 28 {
			r.A = int(int32(binary.LittleEndian.Uint32(b[pos+20:])))
			r.B = int(int32(binary.LittleEndian.Uint32(b[pos+24:])))
		}
		recs = append(recs, r)
		pos += r.Size
	}
	return recs, true
}

func crashDriver(args []string) error {
	eng.Quiet()
	switch args[0] {
	case "run":
		return crashRun(args[1:])
	case "probe":
		return crashProbe(args[1:])
	case "open": // crash open <db name> <memKB>: start the engine on the files as they are (debug aid)
		memKB, _ := strconv.Atoi(args[2])
		e, pm := eng.Open(args[1], memKB, true)
		if e == nil {
			fmt.Println("open: panic:", pm)
			return nil
		}
		r := e.Exec("SELECT k, v FROM " + crashTable + ";")
		fmt.Println("open: ok; select:", r.Res, len(r.Rows), "rows")
		e.Crash()
		return nil
	}
	return fmt.Errorf("crash run|probe")
}

const crashTable = "acct"

var longPay = strings.Repeat("L", 900)

type crashTxn struct {
	name string
	txn  *access.Transaction
	n    int
	own  []int // keys this transaction inserted itself and has not deleted
}

func crashRun(args []string) error {
	dir, tracePath, opsPath := args[0], args[1], args[2]
	memKB, _ := strconv.Atoi(args[3])
	os.MkdirAll(dir, 0o755)
	name := filepath.Join(dir, "crashdb")
	eng.RemoveFiles(name)
	tw, err := trace.New(tracePath)
	if err != nil {
		return err
	}
	var rec *iorec.Rec
	heap := map[int]bool{}
	samehada.VerifWrapDisk = func(d disk.DiskManager, dbName string) disk.DiskManager {
		rec = iorec.NewRec(d)
		rec.Hook = ioHook(tw, heap)
		return rec
	}
	tw.Emit(map[string]interface{}{"ev": "Reset", "memKB": memKB})
	e, pm := eng.Open(name, memKB, true)
	if e == nil {
		return fmt.Errorf("open: %s", pm)
	}
	rng := rand.New(rand.NewSource(envSeed()))
	if os.Getenv("VERIF_CRASH_MODE") == "big" {
		// no index at all: an index page that is given back forces the log, and this mode needs more than one log buffer
		// (528 KB) of records appended without any flush in between
		cols := []*column.Column{
			column.NewColumn("k", types.Integer, false, index_constants.IndexKindInvalid, types.PageID(-1), nil),
			column.NewColumn("v", types.Integer, false, index_constants.IndexKindInvalid, types.PageID(-1), nil),
			column.NewColumn("p", types.Varchar, false, index_constants.IndexKindInvalid, types.PageID(-1), nil),
		}
		txn := e.TM().Begin(nil)
		e.Catalog().CreateTable(crashTable, schema.NewSchema(cols), txn)
		e.TM().Commit(e.Catalog(), txn)
	} else if os.Getenv("VERIF_CRASH_MODE") == "wide" {
		// only k is indexed: the SQL form indexes every column, and three skip lists (one over 900-byte strings) keep
		// about ten pages pinned and pin more per operation - in the 16-frame pool of this mode one restart in a few
		// thousand then ran out of frames, which is a limit of the configuration, not a defect
		cols := []*column.Column{
			column.NewColumn("k", types.Integer, true, index_constants.IndexKindSkipList, types.PageID(-1), nil),
			column.NewColumn("v", types.Integer, false, index_constants.IndexKindInvalid, types.PageID(-1), nil),
			column.NewColumn("p", types.Varchar, false, index_constants.IndexKindInvalid, types.PageID(-1), nil),
		}
		txn := e.TM().Begin(nil)
		e.Catalog().CreateTable(crashTable, schema.NewSchema(cols), txn)
		e.TM().Commit(e.Catalog(), txn)
	} else {
		r := e.Exec("CREATE TABLE " + crashTable + "(k int, v int, p varchar(1000));")
		if r.Res != "ok" {
			return fmt.Errorf("create: %s", r.Res)
		}
	}
	// the table's first heap page
	tm := e.Catalog().GetTableByName(crashTable)
	heap[int(tm.Table().GetFirstPageID())] = true
	tw.Emit(map[string]interface{}{"ev": "Ddl", "io0": rec.Len(), "firstPage": int(tm.Table().GetFirstPageID())})

	version := 0
	nextKey := 0
	liveKeys := map[int]bool{} // keys some transaction has inserted and nobody is known to have deleted (a hint for choosing targets only)
	open := []*crashTxn{}
	ntx := 0
	begin := func() *crashTxn {
		ntx++
		t := &crashTxn{name: fmt.Sprintf("t%d", ntx), txn: e.TM().Begin(nil)}
		tw.Emit(map[string]interface{}{"ev": "Begin", "t": t.name, "tid": int(t.txn.GetTransactionID())})
		open = append(open, t)
		return t
	}
	closeTxn := func(t *crashTxn) {
		for i, o := range open {
			if o == t {
				open = append(open[:i:i], open[i+1:]...)
			}
		}
	}
	abort := func(t *crashTxn, why string) {
		tw.Emit(map[string]interface{}{"ev": "AbortStart", "t": t.name, "why": why})
		e.TM().Abort(e.Catalog(), t.txn)
		tw.Emit(map[string]interface{}{"ev": "AbortRet", "t": t.name})
		closeTxn(t)
	}
	commit := func(t *crashTxn) {
		tw.Emit(map[string]interface{}{"ev": "CommitStart", "t": t.name})
		e.TM().Commit(e.Catalog(), t.txn)
		tw.Emit(map[string]interface{}{"ev": "CommitRet", "t": t.name})
		closeTxn(t)
	}
	keysSorted := func() []int {
		ks := []int{}
		for k, ok := range liveKeys {
			if ok {
				ks = append(ks, k)
			}
		}
		sort.Ints(ks)
		return ks
	}
	// one statement; returns false when the transaction was aborted by it
	forceKind := -1
	growMode := os.Getenv("VERIF_CRASH_MODE") == "grow"
	stmt := func(t *crashTxn) bool {
		ks := keysSorted()
		kind := rng.Intn(10)
		if growMode && rng.Intn(3) != 0 {
			kind = 0 // mostly inserts: the heap grows over pages that never reach the db file before the crash
		}
		if forceKind >= 0 {
			kind = forceKind
		}
		if len(ks) == 0 {
			kind = 0
		}
		var sql string
		var wev map[string]interface{}
		switch {
		case kind < 4: // insert
			k := nextKey
			nextKey++
			version++
			pay := "s"
			if rng.Intn(3) == 0 || (os.Getenv("VERIF_CRASH_STEPS") != "" && rng.Intn(2) == 0) || (growMode && rng.Intn(4) != 0) {
				pay = longPay[:300+rng.Intn(600)]
			}
			sql = fmt.Sprintf("INSERT INTO %s(k, v, p) VALUES (%d, %d, '%s');", crashTable, k, version, pay)
			wev = map[string]interface{}{"ev": "Write", "t": t.name, "op": "ins", "k": k, "v": version}
			liveKeys[k] = true
			t.own = append(t.own, k)
		case kind < 6: // in-place update of the version
			k := ks[rng.Intn(len(ks))]
			version++
			sql = fmt.Sprintf("UPDATE %s SET v = %d WHERE k = %d;", crashTable, version, k)
			wev = map[string]interface{}{"ev": "Write", "t": t.name, "op": "upd", "k": k, "v": version}
		case kind < 8: // update that grows or shrinks the row (relocation when the page is full)
			k := ks[rng.Intn(len(ks))]
			version++
			pay := "x"
			if rng.Intn(2) == 0 {
				pay = longPay[:400+rng.Intn(500)]
			}
			sql = fmt.Sprintf("UPDATE %s SET v = %d, p = '%s' WHERE k = %d;", crashTable, version, pay, k)
			wev = map[string]interface{}{"ev": "Write", "t": t.name, "op": "upd", "k": k, "v": version}
		default:
			k := ks[rng.Intn(len(ks))]
			if len(t.own) > 0 && rng.Intn(2) == 0 {
				// the transaction deletes a row it inserted itself: when it is unfinished at the crash, undo meets the delete
				// mark of a slot that the undo of the insert empties (repeated recovery: seeded change C20r5-A)
				k = t.own[len(t.own)-1]
				t.own = t.own[:len(t.own)-1]
			}
			sql = fmt.Sprintf("DELETE FROM %s WHERE k = %d;", crashTable, k)
			wev = map[string]interface{}{"ev": "Write", "t": t.name, "op": "del", "k": k, "v": -1}
		}
		res, _ := e.ExecTxn(t.txn, sql)
		switch {
		case res.Res == "ok":
			tw.Emit(wev)
			t.n++
			return true
		case res.Res == "abort":
			abort(t, "conflict")
			return false
		default:
			tw.Emit(map[string]interface{}{"ev": "StmtFail", "t": t.name, "res": res.Res, "sql": shortSQL(sql)})
			tw.Close()
			return false
		}
	}
	if os.Getenv("VERIF_CRASH_MODE") == "big" {
		// ONE transaction whose records do not fit into one log buffer: the record that finds the buffer full is appended
		// behind a flush of the whole buffer (AppendLogRecord's second exit; seeded changes C08r2-A / C01r4-A), the commit
		// record goes into the second buffer; then two small transactions
		tw.Emit(map[string]interface{}{"ev": "ProbeFrom", "io0": rec.Len()})
		t := begin()
		for j := 0; j < 640+rng.Intn(40); j++ {
			k := nextKey
			nextKey++
			version++
			res, _ := e.ExecTxn(t.txn, fmt.Sprintf("INSERT INTO %s(k, v, p) VALUES (%d, %d, '%s');", crashTable, k, version, longPay[:850+rng.Intn(50)]))
			if res.Res != "ok" {
				return fmt.Errorf("big insert: %s", res.Res)
			}
			tw.Emit(map[string]interface{}{"ev": "Write", "t": t.name, "op": "ins", "k": k, "v": version})
			liveKeys[k] = true
		}
		commit(t)
		for i := 0; i < 2; i++ {
			t2 := begin()
			forceKind = 0
			if stmt(t2) {
				commit(t2)
			}
			forceKind = -1
		}
		tw.Emit(map[string]interface{}{"ev": "End", "ios": rec.Len()})
		if err := tw.Close(); err != nil {
			return err
		}
		f, err := os.Create(opsPath)
		if err != nil {
			return err
		}
		defer f.Close()
		return gob.NewEncoder(f).Encode(rec.Snapshot())
	}
	if os.Getenv("VERIF_CRASH_MODE") == "wide" {
		// a heap several times the pool, filled by committed transactions (not probed), then ONE transaction whose
		// statement marks rows on every page - so that its undo (at abort, or by recovery when the crash finds it
		// unfinished) and its commit (one APPLYDELETE per row) run over more pages than the pool holds
		for i := 0; i < 36; i++ {
			t := begin()
			for j := 0; j < 4; j++ {
				k := nextKey
				nextKey++
				version++
				res, _ := e.ExecTxn(t.txn, fmt.Sprintf("INSERT INTO %s(k, v, p) VALUES (%d, %d, '%s');", crashTable, k, version, longPay[:850+rng.Intn(50)]))
				if res.Res != "ok" {
					return fmt.Errorf("wide prefill: %s", res.Res)
				}
				tw.Emit(map[string]interface{}{"ev": "Write", "t": t.name, "op": "ins", "k": k, "v": version})
				liveKeys[k] = true
			}
			commit(t)
		}
		tw.Emit(map[string]interface{}{"ev": "ProbeFrom", "io0": rec.Len()})
		lo := rng.Intn(20)
		hi := nextKey - rng.Intn(20)
		t := begin()
		res, _ := e.ExecTxn(t.txn, fmt.Sprintf("DELETE FROM %s WHERE k >= %d AND k < %d;", crashTable, lo, hi))
		if res.Res != "ok" {
			return fmt.Errorf("wide delete: %s", res.Res)
		}
		for k := lo; k < hi; k++ {
			tw.Emit(map[string]interface{}{"ev": "Write", "t": t.name, "op": "del", "k": k, "v": -1})
			delete(liveKeys, k)
		}
		// a few small transactions while the wide one is open (they evict its pages and move the log on)
		for i := 0; i < 3; i++ {
			t2 := begin()
			forceKind = 0
			if stmt(t2) {
				commit(t2)
			}
			forceKind = -1
		}
		switch rng.Intn(3) {
		case 0:
			abort(t, "explicit")
		case 1:
			commit(t)
		default: // still open at the end: every later crash point finds it unfinished
		}
		for i := 0; i < 2; i++ {
			t2 := begin()
			forceKind = 0
			if stmt(t2) {
				commit(t2)
			}
			forceKind = -1
		}
		tw.Emit(map[string]interface{}{"ev": "End", "ios": rec.Len()})
		if err := tw.Close(); err != nil {
			return err
		}
		f, err := os.Create(opsPath)
		if err != nil {
			return err
		}
		defer f.Close()
		return gob.NewEncoder(f).Encode(rec.Snapshot())
	}
	steps := 14 + rng.Intn(14)
	if v, err := strconv.Atoi(os.Getenv("VERIF_CRASH_STEPS")); err == nil && v > 0 {
		steps = v // long I/O-order workloads (no crash probes): heaps several times the pool size
	}
	for i := 0; i < steps; i++ {
		c := rng.Intn(10)
		switch {
		case c < 6: // one transaction start to end
			t := begin()
			ok := true
			n := 1 + rng.Intn(3)
			if rng.Intn(5) == 0 { // a transaction that removes (or relocates) several rows: several APPLYDELETE records at commit
				forceKind = 8 - 2*rng.Intn(2)
				n = 2 + rng.Intn(3)
			}
			for j := 0; j < n && ok; j++ {
				ok = stmt(t)
			}
			forceKind = -1
			if ok {
				if rng.Intn(5) == 0 {
					abort(t, "explicit")
				} else {
					commit(t)
				}
			}
		case c < 8: // two interleaved transactions (conflicts abort one of them)
			t1, t2 := begin(), begin()
			ok1, ok2 := true, true
			for j := 0; j < 2+rng.Intn(3); j++ {
				if ok1 && rng.Intn(2) == 0 {
					ok1 = stmt(t1)
				} else if ok2 {
					ok2 = stmt(t2)
				}
			}
			if ok1 {
				if rng.Intn(4) == 0 {
					abort(t1, "explicit")
				} else {
					commit(t1)
				}
			}
			if ok2 {
				commit(t2)
			}
		default: // forced checkpoint (no transaction is open here)
			if growMode {
				break
			}
			tw.Emit(map[string]interface{}{"ev": "CkptStart"})
			e.DB.ForceCheckpointingForTestcase()
			tw.Emit(map[string]interface{}{"ev": "CkptRet"})
		}
	}
	tw.Emit(map[string]interface{}{"ev": "End", "ios": rec.Len()})
	if err := tw.Close(); err != nil {
		return err
	}
	f, err := os.Create(opsPath)
	if err != nil {
		return err
	}
	defer f.Close()
	return gob.NewEncoder(f).Encode(rec.Snapshot())
}

// ---------------------------------------------------------------------------------------------

type image struct {
	db  []byte
	log []byte
}

func (im *image) apply(op iorec.Op) {
	switch op.Kind {
	case "P":
		off := int(op.Page) * 4096
		if off+4096 > len(im.db) {
			im.db = append(im.db, make([]byte, off+4096-len(im.db))...)
		}
		copy(im.db[off:], op.Data[:4096])
	case "L":
		im.log = append(im.log, op.Data...)
	case "GC":
		im.log = im.log[:0]
	}
}

func (im *image) clone() *image {
	return &image{db: append([]byte{}, im.db...), log: append([]byte{}, im.log...)}
}

func (im *image) write(name string) error {
	if err := os.WriteFile(name+".db", im.db, 0o644); err != nil {
		return err
	}
	return os.WriteFile(name+".log", im.log, 0o644)
}

func allZero(b []byte) bool {
	for _, x := range b {
		if x != 0 {
			return false
		}
	}
	return true
}

type prober struct {
	dir    string
	memKB  int
	tw     *trace.Writer
	n      int
	rec    *iorec.Rec
	nprobe int
}

// probe restarts the engine on the image and returns the observation; when depth > 0 it recurses into
// every prefix of the recovery run's own I/O list.
func (p *prober) probe(im *image, depth int, label map[string]interface{}) map[string]interface{} {
	p.n++
	p.nprobe++
	name := filepath.Join(p.dir, fmt.Sprintf("img%d", p.n%4))
	out := map[string]interface{}{"restart": "ok", "rows": [][]int{}, "accepts": false, "nested": []interface{}{}}
	if err := im.write(name); err != nil {
		out["restart"] = "harness:" + err.Error()
		return out
	}
	var rec *iorec.Rec
	samehada.VerifWrapDisk = func(d disk.DiskManager, dbName string) disk.DiskManager {
		rec = iorec.NewRec(d)
		return rec
	}
	wd := time.AfterFunc(30*time.Second, func() {
		out["restart"] = "hang"
		ev := map[string]interface{}{"ev": "Probe", "probe": out}
		for k, v := range label {
			ev[k] = v
		}
		p.tw.Emit(ev)
		p.tw.Flush()
		os.Exit(3)
	})
	e, pm := eng.Open(name, p.memKB, true)
	if e == nil {
		wd.Stop()
		out["restart"] = "panic:" + pm
		return out
	}
	// recovery is over here: remember how much I/O it did, then look at the tables
	var recov []iorec.Op
	if rec != nil {
		recov = rec.Snapshot()
	}
	r := e.Exec("SELECT k, v FROM " + crashTable + ";")
	if r.Res != "ok" {
		out["restart"] = "read:" + r.Res
	} else {
		rows := [][]int{}
		for _, row := range r.Rows {
			if len(row) == 2 && !row[0].IsNull() && !row[1].IsNull() {
				rows = append(rows, []int{int(row[0].ToInteger()), int(row[1].ToInteger())})
			} else {
				rows = append(rows, []int{-99, -99})
			}
		}
		sort.Slice(rows, func(i, j int) bool {
			if rows[i][0] != rows[j][0] {
				return rows[i][0] < rows[j][0]
			}
			return rows[i][1] < rows[j][1]
		})
		out["rows"] = rows
		// "the database accepts new statements afterwards"
		r1 := e.Exec("INSERT INTO " + crashTable + "(k, v, p) VALUES (999999, 1, 'probe');")
		r2 := e.Exec("SELECT v FROM " + crashTable + " WHERE k = 999999;")
		out["accepts"] = r1.Res == "ok" && r2.Res == "ok" && len(r2.Rows) == 1
		if !(r1.Res == "ok" && r2.Res == "ok") {
			out["acceptsRes"] = r1.Res + " / " + r2.Res
		}
	}
	wd.Stop()
	e.Crash()
	if depth == 0 && out["restart"] == "ok" && out["accepts"] == true {
		// the run that just ended committed one more row and crashed: start once more on what it left behind -
		// the tables must be the same (recovery repeated) and the row committed in between must be there
		again := map[string]interface{}{"restart": "ok", "rows": [][]int{}, "probe": false}
		wd2 := time.AfterFunc(30*time.Second, func() {
			again["restart"] = "hang"
			out["again"] = again
			ev := map[string]interface{}{"ev": "Probe", "probe": out}
			for k, v := range label {
				ev[k] = v
			}
			p.tw.Emit(ev)
			p.tw.Flush()
			os.Exit(3)
		})
		p.nprobe++
		e2, pm2 := eng.Open(name, p.memKB, true)
		if e2 == nil {
			again["restart"] = "panic:" + pm2
		} else {
			r := e2.Exec("SELECT k, v FROM " + crashTable + ";")
			if r.Res != "ok" {
				again["restart"] = "read:" + r.Res
			} else {
				rows := [][]int{}
				for _, row := range r.Rows {
					if len(row) == 2 && !row[0].IsNull() && !row[1].IsNull() {
						if row[0].ToInteger() == 999999 {
							again["probe"] = true
							continue
						}
						rows = append(rows, []int{int(row[0].ToInteger()), int(row[1].ToInteger())})
					} else {
						rows = append(rows, []int{-99, -99})
					}
				}
				sort.Slice(rows, func(i, j int) bool {
					if rows[i][0] != rows[j][0] {
						return rows[i][0] < rows[j][0]
					}
					return rows[i][1] < rows[j][1]
				})
				again["rows"] = rows
			}
			e2.Crash()
		}
		wd2.Stop()
		out["again"] = again
	}
	if depth > 0 && len(recov) > 0 {
		nested := []interface{}{}
		cur := im.clone()
		for j := 0; j < len(recov); j++ {
			// crash inside the recovery run, after its first j I/O calls (j = 0 is the image itself: recovery repeated)
			n := p.probe(cur.clone(), depth-1, label)
			n["after"] = j
			n["afterKind"] = ""
			if j > 0 {
				n["afterKind"] = recov[j-1].Kind // the recovery run's last completed I/O call before this crash
			}
			nested = append(nested, n)
			cur.apply(recov[j])
		}
		out["nested"] = nested
		out["recoveryIO"] = len(recov)
	}
	return out
}

func crashProbe(args []string) error {
	opsPath, dir := args[0], args[1]
	from, _ := strconv.Atoi(args[2])
	to, _ := strconv.Atoi(args[3])
	outPath := args[4]
	memKB, _ := strconv.Atoi(args[5])
	depth, _ := strconv.Atoi(args[6])
	torn := args[7] == "1"
	nestEvery := 1
	if len(args) > 8 {
		nestEvery, _ = strconv.Atoi(args[8])
	}
	os.MkdirAll(dir, 0o755)
	f, err := os.Open(opsPath)
	if err != nil {
		return err
	}
	var ops []iorec.Op
	if err := gob.NewDecoder(f).Decode(&ops); err != nil {
		return err
	}
	f.Close()
	tw, err := trace.New(outPath)
	if err != nil {
		return err
	}
	p := &prober{dir: dir, memKB: memKB, tw: tw}
	im := &image{}
	for k := 0; k < len(ops) && k < to; k++ {
		// image after ops[0..k]
		im.apply(ops[k])
		if k < from {
			continue
		}
		d := 0
		if depth > 0 && (k-from)%nestEvery == 0 {
			d = depth
		}
		label := map[string]interface{}{"io": k}
		pr := p.probe(im.clone(), d, label)
		ev := map[string]interface{}{"ev": "Probe", "io": k, "probe": pr}
		// torn variants of the NEXT log write: the crash hits while that write is in progress
		if torn && k+1 < len(ops) && ops[k+1].Kind == "L" && len(ops[k+1].Data) > 1 {
			tv := []interface{}{}
			data := ops[k+1].Data
			cuts := []int{1, 7, 19, 20, 21, len(data) / 2, len(data) - 1}
			// and every record boundary of the write (the crash falls between two records, e.g. right before the
			// COMMIT record), plus one byte into the following record
			if recs, _ := parseLog(data); len(recs) > 1 {
				off := 0
				for _, r := range recs[:len(recs)-1] {
					off += r.Size
					cuts = append(cuts, off, off+1)
				}
			}
			seen := map[int]bool{}
			for _, c := range cuts {
				if c <= 0 || c >= len(data) || seen[c] {
					continue
				}
				seen[c] = true
				ti := im.clone()
				ti.log = append(ti.log, data[:c]...)
				if os.Getenv("VERIF_DUMP_TORN") == fmt.Sprintf("%d:%d", k, c) {
					ti.write(filepath.Join(dir, "dump"))
					os.Exit(0)
				}
				t := p.probe(ti, 0, map[string]interface{}{"io": k, "cut": c})
				t["cut"] = c
				tv = append(tv, t)
			}
			ev["torn"] = tv
		}
		// torn variant of the NEXT page write when it extends the db file: the file ends in the middle of the page
		// (an in-place page write torn between old and new sectors is only probed on request - VERIF_TORN_MID - no
		// engine without page checksums survives that in general)
		if torn && k+1 < len(ops) && ops[k+1].Kind == "P" {
			off := int(ops[k+1].Page) * 4096
			tv := []interface{}{}
			if off >= len(im.db) {
				ti := im.clone()
				if off > len(ti.db) {
					ti.db = append(ti.db, make([]byte, off-len(ti.db))...)
				}
				ti.db = append(ti.db, ops[k+1].Data[:2048]...)
				t := p.probe(ti, 0, map[string]interface{}{"io": k, "cut": 2048})
				t["cut"] = 2048
				tv = append(tv, t)
			} else if off+4096 <= len(im.db) && allZero(im.db[off:off+4096]) {
				// the page lies in a hole of the file (a higher page was written first): the second half of the page
				// reads as zeros, but the read is not short, so nothing tells the engine that the page is incomplete
				// (known finding KF-C01-torn-page-inside-file)
				ti := im.clone()
				copy(ti.db[off:], ops[k+1].Data[:2048])
				t := p.probe(ti, 0, map[string]interface{}{"io": k, "cut": -2048})
				t["cut"] = -2048 // (negative: torn INSIDE the file)
				tv = append(tv, t)
			} else if os.Getenv("VERIF_TORN_MID") != "" && off+4096 <= len(im.db) {
				ti := im.clone()
				copy(ti.db[off:], ops[k+1].Data[:2048])
				t := p.probe(ti, 0, map[string]interface{}{"io": k, "cut": -2048})
				t["cut"] = -2048
				tv = append(tv, t)
			}
			if len(tv) > 0 {
				ev["torn"] = tv
			}
		}
		tw.Emit(ev)
	}
	tw.Emit(map[string]interface{}{"ev": "ProbeEnd", "probes": p.nprobe})
	return tw.Close()
}
