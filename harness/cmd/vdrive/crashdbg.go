package main

import (
	"encoding/gob"
	"fmt"
	"os"
	"path/filepath"
	"strconv"

	"github.com/ryogrid/SamehadaDB/lib/storage/access"
	"github.com/ryogrid/SamehadaDB/lib/types"
	"verif/harness/internal/eng"
	"verif/harness/internal/iorec"
)

func init() { drivers["crashdbg"] = crashDbg }

// crashdbg <ops.gob> <dir> <k> <memKB>: recover the image after I/O call k and dump the heap pages
func crashDbg(args []string) error {
	f, _ := os.Open(args[0])
	var ops []iorec.Op
	gob.NewDecoder(f).Decode(&ops)
	k, _ := strconv.Atoi(args[2])
	memKB, _ := strconv.Atoi(args[3])
	im := &image{}
	for i := 0; i <= k; i++ {
		im.apply(ops[i])
	}
	if len(args) > 4 { // tear the next log write at this byte
		cut, _ := strconv.Atoi(args[4])
		im.log = append(im.log, ops[k+1].Data[:cut]...)
	}
	fmt.Fprintln(os.Stderr, "db pages on disk:", len(im.db)/4096, "log bytes:", len(im.log))
	recs, ok := parseLog(im.log)
	for _, r := range recs {
		fmt.Fprintf(os.Stderr, "  %d:%s(t%d,prev %d,%d/%d) ", r.Lsn, recTypeName[r.Typ], r.Txn, r.Prev, r.A, r.B)
	}
	fmt.Fprintln(os.Stderr, ok)
	name := filepath.Join(args[1], "dbg")
	im.write(name)
	e, pm := eng.Open(name, memKB, true)
	if e == nil {
		return fmt.Errorf("open panic %s", pm)
	}
	r := e.Exec("SELECT k, v FROM " + crashTable + ";")
	for _, row := range r.Rows {
		fmt.Fprintf(os.Stderr, "(%v,%v) ", row[0].ToIFValue(), row[1].ToIFValue())
	}
	fmt.Fprintln(os.Stderr)
	tm := e.Catalog().GetTableByName(crashTable)
	bpm := e.DB.GetSamehadaInstance().GetBufferPoolManager()
	pid := tm.Table().GetFirstPageID()
	for pid.IsValid() {
		pg := access.CastPageAsTablePage(bpm.FetchPage(pid))
		if pg == nil {
			fmt.Fprintln(os.Stderr, "page", pid, "nil")
			break
		}
		fmt.Fprintf(os.Stderr, "page %d lsn %d next %d cnt %d fsp %d: ", pid, pg.GetLSN(), pg.GetNextPageID(), pg.GetTupleCount(), pg.GetFreeSpacePointer())
		for s := uint32(0); s < pg.GetTupleCount(); s++ {
			fmt.Fprintf(os.Stderr, "[%d:%d+%d] ", s, pg.GetTupleOffsetAtSlot(s), pg.GetTupleSize(s))
		}
		fmt.Fprintln(os.Stderr)
		next := pg.GetNextPageID()
		bpm.UnpinPage(pid, false)
		pid = next
	}
	_ = types.PageID(0)
	return nil
}
