package main

// Driver for the TableHeap L1 specification (C15, heap level): performs TableHeap operations on a real heap over its
// own buffer pool in recovery-phase mode (one transaction, no row locks, logging off) with rows of 900-2600 bytes, so
// that a page holds one to four rows and the chain grows quickly; after every call it records the outcome and the
// projection of the whole chain (per page: slot array with offsets, sizes, marks and decoded content tags, free-space
// pointer, next pointer).
//
//   heap seq <out.ndjson> <sequences> <ops>

import (
	"fmt"
	"math/rand"
	"strconv"
	"time"

	"github.com/ryogrid/SamehadaDB/lib/common"
	"github.com/ryogrid/SamehadaDB/lib/recovery"
	"github.com/ryogrid/SamehadaDB/lib/storage/access"
	"github.com/ryogrid/SamehadaDB/lib/storage/buffer"
	"github.com/ryogrid/SamehadaDB/lib/storage/disk"
	"github.com/ryogrid/SamehadaDB/lib/storage/page"
	"github.com/ryogrid/SamehadaDB/lib/storage/tuple"
	"github.com/ryogrid/SamehadaDB/lib/types"
	"verif/harness/internal/eng"
	"verif/harness/internal/iorec"
	"verif/harness/internal/trace"
)

func init() { drivers["heap"] = heapDriver }

type heapEnv struct {
	bpm  *buffer.BufferPoolManager
	th   *access.TableHeap
	txn  *access.Transaction
	tag  int
	pids []types.PageID // chain order, as of the last projection
}

func newHeapEnv() *heapEnv {
	md := iorec.NewMemDisk()
	var dm disk.DiskManager = md
	lg := recovery.NewLogManager(&dm)
	lg.DeactivateLogging()
	lm := access.NewLockManager(access.STRICT, access.SS2PLMode)
	bpm := buffer.NewBufferPoolManager(64, dm, lg)
	txn := access.NewTransaction(1)
	txn.SetIsRecoveryPhase(true)
	return &heapEnv{bpm: bpm, th: access.NewTableHeap(bpm, lg, lm, txn), txn: txn}
}

func (e *heapEnv) project(ev map[string]interface{}) {
	pages := []interface{}{}
	e.pids = e.pids[:0]
	id := e.th.GetFirstPageID()
	seen := map[types.PageID]bool{}
	for id.IsValid() && !seen[id] && len(pages) < 64 {
		seen[id] = true
		pg := e.bpm.FetchPage(id)
		if pg == nil {
			pages = append(pages, map[string]interface{}{"cnt": -1, "fsp": -1, "slots": []interface{}{}})
			break
		}
		tp := access.CastPageAsTablePage(pg)
		cnt := int(tp.GetTupleCount())
		slots := make([]interface{}, 0, cnt)
		data := tp.Data()
		for i := 0; i < cnt && i < 500; i++ {
			off := int(tp.GetTupleOffsetAtSlot(uint32(i)))
			raw := tp.GetTupleSize(uint32(i))
			mark := raw&(1<<31) != 0
			size := int(raw &^ (1 << 31))
			tag := -1
			if size > 0 {
				if off >= 0 && off+size <= common.PageSize {
					tag = decodeTag(data[off : off+size])
				} else {
					tag = -3
				}
			}
			slots = append(slots, map[string]interface{}{"off": off, "size": size, "mark": mark, "tag": tag})
		}
		pages = append(pages, map[string]interface{}{"cnt": cnt, "fsp": int(tp.GetFreeSpacePointer()), "slots": slots})
		e.pids = append(e.pids, id)
		next := tp.GetNextPageID()
		e.bpm.UnpinPage(id, false)
		id = next
	}
	ev["pages"] = pages
}

func (e *heapEnv) pos(id types.PageID) int {
	for i, p := range e.pids {
		if p == id {
			return i + 1
		}
	}
	return 0
}

func (e *heapEnv) rid(k, i int) *page.RID {
	r := &page.RID{}
	r.Set(e.pids[k-1], uint32(i-1))
	return r
}

func heapDriver(args []string) error {
	if args[0] != "seq" {
		return fmt.Errorf("heap seq ...")
	}
	eng.Quiet()
	tw, err := trace.New(args[1])
	if err != nil {
		return err
	}
	defer tw.Close()
	nseq, _ := strconv.Atoi(args[2])
	nops, _ := strconv.Atoi(args[3])
	sizes := []int{900, 1300, 1800, 2000, 2600, 300}
	for q := envStart(); q < nseq; q++ {
		rng := rand.New(rand.NewSource(envSeed()*10007 + int64(q)))
		e := newHeapEnv()
		ev0 := map[string]interface{}{"ev": "Reset", "q": q}
		e.project(ev0)
		tw.Emit(ev0)
		for n := 0; n < nops; n++ {
			ev := map[string]interface{}{"ev": "Heap", "q": q, "panic": "", "k": 0, "i": 0, "s": 0, "tag": 0, "nk": 0, "ni": 0, "res": "", "rows": [][]int{}, "gtag": -1, "gsize": 0}
			// choose a target row id among the slots that exist (any state), sometimes one that does not
			pickSlot := func() (int, int, bool) {
				if len(e.pids) == 0 {
					return 1, 1, false
				}
				k := 1 + rng.Intn(len(e.pids))
				tp := access.CastPageAsTablePage(e.bpm.FetchPage(e.pids[k-1]))
				cnt := int(tp.GetTupleCount())
				e.bpm.UnpinPage(e.pids[k-1], false)
				if cnt == 0 {
					return k, 1, false
				}
				return k, 1 + rng.Intn(cnt), true
			}
			c := rng.Intn(20)
			wd := opWatch(tw, ev, 20*time.Second, map[string]interface{}{"pages": []interface{}{}})
			func() {
				defer func() {
					if x := recover(); x != nil {
						ev["panic"] = fmt.Sprint(x)
						ev["res"] = "panic"
					}
				}()
				switch {
				case c < 7:
					s := sizes[rng.Intn(len(sizes))]
					e.tag++
					ev["op"], ev["s"], ev["tag"] = "Insert", s, e.tag
					rid, err := e.th.InsertTuple(tuple.NewTuple(nil, uint32(s), payload(e.tag, s)), e.txn, 0, false)
					if err != nil {
						ev["res"] = "err:" + err.Error()
					} else {
						ev["res"] = "ok"
						ev["ridpage"], ev["i"] = int(rid.GetPageID()), int(rid.GetSlotNum())+1
					}
				case c < 11:
					k, i, _ := pickSlot()
					s := sizes[rng.Intn(len(sizes))]
					e.tag++
					ev["op"], ev["k"], ev["i"], ev["s"], ev["tag"] = "Update", k, i, s, e.tag
					r := e.rid(k, i)
					nt := tuple.NewTuple(r, uint32(s), payload(e.tag, s))
					ok, newRID, err, _, _ := e.th.UpdateTuple(nt, nil, nil, 0, *r, e.txn, false)
					switch {
					case ok && newRID == nil:
						ev["res"] = "ok"
					case ok:
						ev["res"] = "moved"
						ev["nridpage"], ev["ni"] = int(newRID.GetPageID()), int(newRID.GetSlotNum())+1
					case err != nil:
						ev["res"] = "fail" // (ErrGeneral: the transaction would be aborted)
					default:
						ev["res"] = "fail"
					}
					e.txn.SetState(access.GROWING)
				case c < 13:
					k, i, _ := pickSlot()
					ev["op"], ev["k"], ev["i"] = "MarkDelete", k, i
					if e.th.MarkDelete(e.rid(k, i), 0, e.txn, false) {
						ev["res"] = "ok"
					} else {
						ev["res"] = "fail"
					}
					e.txn.SetState(access.GROWING)
				case c < 15:
					// (ApplyDelete / RollbackDelete are called for occupied slots only: the code asserts it)
					k, i, ok := pickSlot()
					if ok {
						tp := access.CastPageAsTablePage(e.bpm.FetchPage(e.pids[k-1]))
						occ := tp.GetTupleSize(uint32(i-1))&^(1<<31) != 0
						e.bpm.UnpinPage(e.pids[k-1], false)
						if occ {
							if rng.Intn(2) == 0 {
								ev["op"], ev["k"], ev["i"] = "ApplyDelete", k, i
								e.th.ApplyDelete(e.rid(k, i), e.txn)
							} else {
								ev["op"], ev["k"], ev["i"] = "RollbackDelete", k, i
								e.th.RollbackDelete(e.rid(k, i), e.txn)
							}
							ev["res"] = "ok"
							return
						}
					}
					fallthrough
				case c < 18:
					k, i, _ := pickSlot()
					ev["op"], ev["k"], ev["i"] = "Get", k, i
					tpl, err := e.th.GetTuple(e.rid(k, i), e.txn)
					switch {
					case err == nil && tpl != nil:
						ev["res"] = "ok"
						ev["gtag"], ev["gsize"] = decodeTag(tpl.Data()[:tpl.Size()]), int(tpl.Size())
					case err == access.ErrSelfDeletedCase:
						ev["res"] = "deleted"
					case err == access.ErrGeneral:
						ev["res"] = "badslot"
					default:
						ev["res"] = "other"
						if err != nil {
							ev["res"] = "err:" + err.Error()
						}
					}
					e.txn.SetState(access.GROWING)
				default:
					ev["op"] = "Scan"
					rows := [][]int{}
					it := e.th.Iterator(e.txn)
					for t := it.Current(); !it.End() && len(rows) < 2000; t = it.Next() {
						rows = append(rows, []int{int(t.GetRID().GetPageID()), int(t.GetRID().GetSlotNum()) + 1, decodeTag(t.Data()[:t.Size()])})
					}
					ev["res"] = "ok"
					ev["rows"] = rows
				}
			}()
			wd.Stop()
			e.project(ev)
			// page ids -> chain positions (after the projection: a new page is in the chain now)
			if v, ok := ev["ridpage"]; ok {
				ev["k"] = e.pos(types.PageID(v.(int)))
			}
			if v, ok := ev["nridpage"]; ok {
				ev["nk"] = e.pos(types.PageID(v.(int)))
			}
			if rows, ok := ev["rows"].([][]int); ok {
				for _, r := range rows {
					r[0] = e.pos(types.PageID(r[0]))
				}
			}
			tw.Emit(ev)
			if ev["panic"] != "" {
				break
			}
		}
	}
	return nil
}
