package main

// Driver for the ClockReplacer spec (C13): replays operation walks derived from the TLC state graph on a real
// buffer.ClockReplacer, and random sequences with more frames; records every call's answer and the Size() read
// after it.  At the end of every sequence the replacer is drained with Victim calls, which are events like any
// other (so the order of all remaining candidates is observed too).

import (
	"encoding/json"
	"fmt"
	"math/rand"
	"os"
	"strconv"
	"time"

	"github.com/ryogrid/SamehadaDB/lib/storage/buffer"
	"verif/harness/internal/trace"
)

func init() { drivers["clock"] = clockDriver }

func frameName(i int) string { return "f" + strconv.Itoa(i) }

// clockCall performs one call under a watchdog (a Victim whose hand left the list spins for ever).
func clockCall(c *buffer.ClockReplacer, op string, f int) (res string, size int, hung bool) {
	type out struct {
		res  string
		size int
	}
	ch := make(chan out, 1)
	go func() {
		o := out{res: "ok", size: -1}
		defer func() {
			if x := recover(); x != nil {
				o.res = "panic"
			}
			ch <- o
		}()
		switch op {
		case "Unpin":
			c.Unpin(buffer.FrameID(f))
		case "Pin":
			c.Pin(buffer.FrameID(f))
		case "Victim":
			v := c.Victim()
			if v == nil {
				o.res = "nil"
			} else {
				o.res = frameName(int(*v))
			}
		}
		o.size = int(c.Size())
	}()
	select {
	case o := <-ch:
		return o.res, o.size, false
	case <-time.After(5 * time.Second):
		return "hang", -1, true
	}
}

func clockRun(tw *trace.Writer, capacity int, ops [][]string) {
	c := buffer.NewClockReplacer(uint32(capacity))
	tw.Emit(map[string]interface{}{"ev": "Reset"})
	step := func(op string, f int) bool {
		res, size, hung := clockCall(c, op, f)
		ev := map[string]interface{}{"ev": op, "res": res, "size": size}
		if op != "Victim" {
			ev["f"] = frameName(f)
		}
		tw.Emit(ev)
		return !hung
	}
	for _, op := range ops {
		f := 0
		if len(op) > 1 {
			f, _ = strconv.Atoi(op[1][1:])
		}
		if !step(op[0], f) {
			return // the goroutine of the hung call is left behind; the object is not used again
		}
	}
	for i := 0; i <= capacity && c.Size() > 0; i++ {
		if !step("Victim", 0) {
			return
		}
	}
}

func clockDriver(args []string) error {
	if len(args) < 1 {
		return fmt.Errorf("clock walk|random ...")
	}
	switch args[0] {
	case "walk":
		// clock walk <walks.json> <out.ndjson> <frames>
		var walks [][][]string
		b, err := os.ReadFile(args[1])
		if err != nil {
			return err
		}
		if err := json.Unmarshal(b, &walks); err != nil {
			return err
		}
		tw, err := trace.New(args[2])
		if err != nil {
			return err
		}
		n, _ := strconv.Atoi(args[3])
		for _, w := range walks {
			clockRun(tw, n, w)
		}
		return tw.Close()
	case "random":
		// clock random <out.ndjson> <sequences> <calls per sequence> <frames>
		tw, err := trace.New(args[1])
		if err != nil {
			return err
		}
		nseq, _ := strconv.Atoi(args[2])
		nops, _ := strconv.Atoi(args[3])
		n, _ := strconv.Atoi(args[4])
		rng := rand.New(rand.NewSource(envSeed()*7919 + int64(n)))
		for s := 0; s < nseq; s++ {
			ops := make([][]string, 0, nops)
			// phases with different mixes, so that the list is sometimes full, sometimes nearly empty
			pU, pP := 40+rng.Intn(40), 10+rng.Intn(40)
			for i := 0; i < nops; i++ {
				x := rng.Intn(pU + pP + 20)
				switch {
				case x < pU:
					ops = append(ops, []string{"Unpin", frameName(rng.Intn(n))})
				case x < pU+pP:
					ops = append(ops, []string{"Pin", frameName(rng.Intn(n))})
				default:
					ops = append(ops, []string{"Victim"})
				}
			}
			clockRun(tw, n, ops)
		}
		return tw.Close()
	}
	return fmt.Errorf("unknown clock mode %s", args[0])
}
