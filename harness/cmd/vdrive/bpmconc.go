package main

// bpm conc <out.ndjson> <windows> <goroutines> <ops per goroutine> <gomaxprocs>
// C13 "by any number of users": goroutines share one small buffer pool; each owns a handful of pages (so the latest
// bytes of a page are known from its owner's program order) and keeps allocating, fetching, stamping, re-reading while
// pinned, unpinning, flushing and deallocating them while the others force evictions.  Calls are stamped with one
// shared atomic counter; TLC judges the merged history (spec/BufferPool/BufferPoolHistoryTrace).

import (
	"fmt"
	"math/rand"
	"os"
	"runtime"
	"sort"
	"strconv"
	"sync"
	"sync/atomic"
	"time"

	"github.com/ryogrid/SamehadaDB/lib/types"
	"verif/harness/internal/trace"
)

func bpmConc(args []string) error {
	tw, err := trace.New(args[0])
	if err != nil {
		return err
	}
	windows, _ := strconv.Atoi(args[1])
	ng, _ := strconv.Atoi(args[2])
	nops, _ := strconv.Atoi(args[3])
	procs, _ := strconv.Atoi(args[4])
	runtime.GOMAXPROCS(procs)
	for w := 0; w < windows; w++ {
		nf := ng + 1 + w%3 // every goroutine pins at most one page at a time: the pool never runs dry, but is always full
		e := newBpmEnv(nf, 1<<30)
		tw.Emit(map[string]interface{}{"ev": "Reset", "nf": nf, "goroutines": ng, "gomaxprocs": procs})
		var clock, ver int64
		evs := make([][]hEvt, ng)
		var wg sync.WaitGroup
		var stop int32
		wd := time.AfterFunc(120*time.Second, func() {
			tw.Emit(map[string]interface{}{"ev": "Hang"})
			tw.Flush()
			os.Exit(3)
		})
		for g := 0; g < ng; g++ {
			wg.Add(1)
			go func(g int) {
				defer wg.Done()
				rng := rand.New(rand.NewSource(envSeed()*4099 + int64(w*64+g)))
				own := []int{}
				add := func(ev map[string]interface{}) {
					ev["g"] = g
					evs[g] = append(evs[g], hEvt{atomic.AddInt64(&clock, 1), ev})
				}
				defer func() {
					if p := recover(); p != nil {
						add(map[string]interface{}{"ev": "Panic", "msg": fmt.Sprint(p)})
						atomic.StoreInt32(&stop, 1)
					}
				}()
				for i := 0; i < nops && atomic.LoadInt32(&stop) == 0; i++ {
					switch x := rng.Intn(10); {
					case len(own) < 3 || (x == 0 && len(own) < 6):
						add(map[string]interface{}{"ev": "NewInv"})
						pg := e.bpm.NewPage()
						if pg == nil {
							add(map[string]interface{}{"ev": "NewRet", "p": -1})
							continue
						}
						p := int(pg.GetPageID())
						v := int(atomic.AddInt64(&ver, 1))
						stamp(pg, v)
						add(map[string]interface{}{"ev": "NewRet", "p": p, "v": v})
						e.bpm.UnpinPage(types.PageID(p), true)
						add(map[string]interface{}{"ev": "Unpin", "p": p})
						own = append(own, p)
					case x == 1 && len(own) > 3:
						j := rng.Intn(len(own))
						p := own[j]
						own = append(own[:j], own[j+1:]...)
						add(map[string]interface{}{"ev": "DeallocInv", "p": p})
						e.bpm.DeallocatePage(types.PageID(p), true)
						add(map[string]interface{}{"ev": "DeallocRet", "p": p})
					case x == 2:
						p := own[rng.Intn(len(own))]
						e.bpm.FlushPage(types.PageID(p))
						add(map[string]interface{}{"ev": "Flush", "p": p})
					default:
						p := own[rng.Intn(len(own))]
						pg := e.bpm.FetchPage(types.PageID(p))
						if pg == nil {
							add(map[string]interface{}{"ev": "Fetch", "p": p, "v": -1, "id": -1})
							continue
						}
						d := pg.Data()
						add(map[string]interface{}{"ev": "Fetch", "p": p, "v": readStamp(d[:]), "id": int(pg.GetPageID())})
						dirty := false
						if rng.Intn(2) == 0 {
							v := int(atomic.AddInt64(&ver, 1))
							stamp(pg, v)
							dirty = true
							add(map[string]interface{}{"ev": "Write", "p": p, "v": v})
						}
						runtime.Gosched() // the others evict meanwhile; a pinned page must stay what it is
						d = pg.Data()
						add(map[string]interface{}{"ev": "Reread", "p": p, "v": readStamp(d[:]), "id": int(pg.GetPageID())})
						e.bpm.UnpinPage(types.PageID(p), dirty)
						add(map[string]interface{}{"ev": "Unpin", "p": p})
					}
				}
			}(g)
		}
		wg.Wait()
		wd.Stop()
		all := []hEvt{}
		for _, l := range evs {
			all = append(all, l...)
		}
		sort.Slice(all, func(i, j int) bool { return all[i].at < all[j].at })
		for _, h := range all {
			tw.Emit(h.ev)
		}
	}
	return tw.Close()
}
