package main

// C03 / C07 workloads: committed work, a transaction that is rolled back (explicitly or by a lock
// conflict), the full probe battery (heap + every index) before and after, more committed work.

import (
	"fmt"
	"math/rand"
	"strconv"

	"verif/harness/internal/trace"
)

func randKinds(rng *rand.Rand, n int) []string {
	ks := []string{"skiplist", "btree", "none", "skiplist"}
	out := make([]string, n)
	for i := range out {
		out[i] = ks[rng.Intn(len(ks))]
	}
	return out
}

// one DML statement of a transaction; returns false when the statement aborted the transaction
func (s *sqlRun) randDML(rng *rand.Rand, t *tableDef, maxRank int) bool {
	nc := len(t.cols)
	before := s.n
	switch rng.Intn(6) {
	case 0, 1:
		s.insert(t, [][]int{randRow(rng, t, maxRank)}, nil)
	case 2:
		s.delete(t, randAtom(rng, nc))
	case 3: // update that may grow or shrink the row (rank 5 strings are 300 bytes) and change keys
		cols := rng.Perm(nc)[:1+rng.Intn(nc)]
		set := [][2]int{}
		for _, c := range cols {
			set = append(set, [2]int{c, rng.Intn(maxRank)})
		}
		s.update(t, set, randAtom(rng, nc))
	case 4: // repeated change of the same rows
		c := rng.Intn(nc)
		v := rng.Intn(maxRank)
		s.update(t, [][2]int{{c, rng.Intn(maxRank)}}, atom(c, "=", v))
	default:
		s.selectQ(t, randPred(rng, nc, 1, false), nil, false)
	}
	_ = before
	return true
}

// rollbackUnderPressure: a table of ~45 heap pages (560 rows of 300 bytes, no index) in a pool of 24 frames; one
// transaction deletes / updates rows on every page - so its pages are written back and evicted while it runs - and is
// rolled back; the rolled-back pages are read again only after another table has been scanned through the pool.
func rollbackUnderPressure(tw *trace.Writer, ctx string, rng *rand.Rand, sc int) error {
	s, err := newRun(tw, ctx, 96)
	if err != nil {
		return err
	}
	mk := func(name string) *tableDef {
		t := &tableDef{name: name, cols: []string{"int", "varchar"}, names: []string{"c0", "c1"}, kinds: []string{"none", "none"}}
		s.createAPI(t)
		for b := 0; b < 28 && !s.dead; b++ {
			rows := [][]int{}
			for j := 0; j < 20; j++ {
				rows = append(rows, []int{rng.Intn(NRanks - 1), NRanks - 1})
			}
			s.insert(t, rows, nil)
		}
		return t
	}
	t, other := mk(fmt.Sprintf("u%d", sc)), mk(fmt.Sprintf("v%d", sc))
	for round := 0; round < 2 && !s.dead; round++ {
		s.begin()
		if rng.Intn(2) == 0 {
			s.delete(t, atom(0, []string{"<", ">=", "<>"}[rng.Intn(3)], 1+rng.Intn(3)))
		} else {
			s.update(t, [][2]int{{0, rng.Intn(NRanks - 1)}}, atom(0, "<=", 1+rng.Intn(3)))
			s.delete(t, atom(0, "=", rng.Intn(NRanks-1)))
		}
		s.endTxn(false)
		s.scan(other)
		s.scan(t)
		s.selectQ(t, atom(0, "=", rng.Intn(NRanks-1)), nil, false)
	}
	return nil
}

// sql c03 <out.ndjson> <scenarios> <ctx>
func sqlC03(args []string) error {
	tw, err := trace.New(args[0])
	if err != nil {
		return err
	}
	nscen, _ := strconv.Atoi(args[1])
	ctx := args[2]
	for sc := envStart(); sc < nscen; sc++ {
		rng := scenarioRng(sc)
		if sc%7 == 6 && ctx == "C03" {
			if err := rollbackUnderPressure(tw, ctx, rng, sc); err != nil {
				return err
			}
			continue
		}
		s, err := newRun(tw, ctx, 600)
		if err != nil {
			return err
		}
		t := randSchema(rng, fmt.Sprintf("t%d", sc))
		if len(t.cols) == 1 && rng.Intn(2) == 0 {
			t = &tableDef{name: t.name, cols: []string{"int", "varchar"}, names: []string{"c0", "c1"}}
		}
		if rng.Intn(3) != 0 {
			t.kinds = randKinds(rng, len(t.cols))
			s.createAPI(t)
		} else {
			s.create(t)
		}
		maxRank := NRanks
		if rng.Intn(2) == 0 || t.hasBtreeVarchar() {
			maxRank = NRanks - 1 // (the B-tree index accepts short keys only)
		}
		n0 := rng.Intn(9)
		if rng.Intn(4) == 0 {
			n0 = 15 + rng.Intn(20) // several heap pages when rank-5 strings are present
		}
		for i := 0; i < n0; i++ {
			s.insert(t, [][]int{randRow(rng, t, maxRank)}, nil)
		}
		if rng.Intn(2) == 0 {
			s.stats()
		}
		s.probes(t, rng)
		if sc%3 == 2 {
			s.squeeze(rng, t, maxRank)
		}
		for round := 0; round < 2; round++ {
			// a transaction that is rolled back
			s.begin()
			k := 1 + rng.Intn(4)
			for i := 0; i < k; i++ {
				s.randDML(rng, t, maxRank)
				// committed inserts of other transactions in between (sometimes enough to fill the page)
				if rng.Intn(3) == 0 {
					n := 1 + rng.Intn(3)
					if rng.Intn(3) == 0 {
						n = 20 + rng.Intn(50)
					}
					rows := [][]int{}
					for j := 0; j < n; j++ {
						rows = append(rows, randRow(rng, t, maxRank))
					}
					s.insertOther(t, rows)
				}
			}
			s.endTxn(false)
			s.probes(t, rng)
			// committed work that reuses the space
			m := 1 + rng.Intn(4)
			if rng.Intn(3) == 0 {
				s.begin()
				for i := 0; i < m; i++ {
					s.randDML(rng, t, maxRank)
				}
				s.endTxn(true)
			} else {
				for i := 0; i < m; i++ {
					s.randDML(rng, t, maxRank)
				}
			}
			s.probes(t, rng)
		}
	}
	return tw.Close()
}

// squeeze: an open transaction shrinks / deletes / grows rows, other transactions then commit enough rows to use up
// the room of the pages it touched, then it is rolled back: the rollback must still find the room to restore the
// old images, and the rows of the others must survive.
func (s *sqlRun) squeeze(rng *rand.Rand, t *tableDef, maxRank int) {
	nc := len(t.cols)
	s.begin()
	for i := 0; i < 1+rng.Intn(2); i++ {
		switch rng.Intn(4) {
		case 0: // every row gets short values
			set := [][2]int{}
			for c := 0; c < nc; c++ {
				if t.cols[c] == "varchar" {
					set = append(set, [2]int{c, rng.Intn(3)})
				}
			}
			if len(set) == 0 {
				set = append(set, [2]int{rng.Intn(nc), rng.Intn(maxRank)})
			}
			s.update(t, set, predTrue)
		case 1:
			s.update(t, [][2]int{{rng.Intn(nc), rng.Intn(maxRank)}}, randAtom(rng, nc))
		case 2:
			s.delete(t, randAtom(rng, nc))
		default:
			s.randDML(rng, t, maxRank)
		}
	}
	n := 30 + rng.Intn(220)
	rows := [][]int{}
	for j := 0; j < n; j++ {
		rows = append(rows, randRow(rng, t, maxRank))
	}
	s.insertOther(t, rows)
	if rng.Intn(2) == 0 {
		s.randDML(rng, t, maxRank)
	}
	s.endTxn(false)
	s.probes(t, rng)
}
