package main

// Shared machinery of the SQL-level drivers (SqlModel trace vocabulary): rank <-> value mapping,
// predicate trees, statement rendering, event recording.

import (
	"fmt"
	"math"
	"math/rand"
	"strings"

	"github.com/ryogrid/SamehadaDB/lib/types"
	"verif/harness/internal/eng"
	"verif/harness/internal/trace"
)

// order-preserving rank tables (6 ranks per type), restricted to the literal forms the SQL front end
// accepts: non-negative integers, plain decimals, quoted strings.
var intVals = []int32{0, 1, 7, 65536, 2147483646, 2147483647}
var floatVals = []float32{0.0, 0.5, 1.5, 2.25, 1024.125, 100000000.0}
var strVals = []string{"", "a", "a b", "ab", "b", strings.Repeat("zy", 150)}
var floatLits = []string{"0.0", "0.5", "1.5", "2.25", "1024.125", "100000000.0"}

const NRanks = 6

func lit(typ string, rank int) string {
	switch typ {
	case "int":
		return fmt.Sprint(intVals[rank])
	case "float":
		return floatLits[rank]
	default:
		return "'" + strVals[rank] + "'"
	}
}

func valueOf(typ string, rank int) types.Value {
	switch typ {
	case "int":
		return types.NewInteger(intVals[rank])
	case "float":
		return types.NewFloat(floatVals[rank])
	default:
		return types.NewVarchar(strVals[rank])
	}
}

// rankOf maps a value read back from the engine to its rank with Go's own equality; -1 = NULL,
// -99 = a value that was never stored.
func rankOf(v *types.Value) int {
	if v == nil {
		return -99
	}
	if v.IsNull() {
		return -1
	}
	switch v.ValueType() {
	case types.Integer:
		x := v.ToInteger()
		for i, y := range intVals {
			if x == y {
				return i
			}
		}
	case types.Float:
		x := v.ToFloat()
		for i, y := range floatVals {
			if x == y && !math.IsNaN(float64(x)) {
				return i
			}
		}
	case types.Varchar:
		x := v.ToVarchar()
		for i, y := range strVals {
			if x == y {
				return i
			}
		}
	}
	return -99
}

func rowsToRanks(rows [][]*types.Value) [][]int {
	out := make([][]int, 0, len(rows))
	for _, r := range rows {
		rr := make([]int, 0, len(r))
		for _, v := range r {
			rr = append(rr, rankOf(v))
		}
		out = append(out, rr)
	}
	return out
}

type tableDef struct {
	name  string
	cols  []string // types
	names []string // column names
}

func (t *tableDef) createSQL() string {
	parts := []string{}
	for i, c := range t.cols {
		ty := map[string]string{"int": "int", "float": "float", "varchar": "varchar(400)"}[c]
		parts = append(parts, t.names[i]+" "+ty)
	}
	return "CREATE TABLE " + t.name + "(" + strings.Join(parts, ", ") + ");"
}

// predicate tree
type pred struct {
	K    string // true | cmp | and | or
	C    int
	Op   string
	V    int
	A, B *pred
}

func (p *pred) json() map[string]interface{} {
	switch p.K {
	case "true":
		return map[string]interface{}{"k": "true"}
	case "cmp":
		return map[string]interface{}{"k": "cmp", "c": p.C, "op": p.Op, "v": p.V}
	default:
		return map[string]interface{}{"k": p.K, "a": p.A.json(), "b": p.B.json()}
	}
}

func (p *pred) sql(t *tableDef, top bool) string {
	switch p.K {
	case "true":
		return ""
	case "cmp":
		return t.names[p.C] + " " + p.Op + " " + lit(t.cols[p.C], p.V)
	default:
		s := p.A.sql(t, false) + " " + strings.ToUpper(p.K) + " " + p.B.sql(t, false)
		if !top {
			s = "(" + s + ")"
		}
		return s
	}
}

func where(p *pred, t *tableDef) string {
	if p == nil || p.K == "true" {
		return ""
	}
	return " WHERE " + p.sql(t, true)
}

var cmpOps = []string{"=", "<>", "<", "<=", ">", ">="}

func atom(c int, op string, v int) *pred { return &pred{K: "cmp", C: c, Op: op, V: v} }
func and(a, b *pred) *pred              { return &pred{K: "and", A: a, B: b} }
func or(a, b *pred) *pred               { return &pred{K: "or", A: a, B: b} }

var predTrue = &pred{K: "true"}

func randAtom(rng *rand.Rand, ncols int) *pred {
	return atom(rng.Intn(ncols), cmpOps[rng.Intn(len(cmpOps))], rng.Intn(NRanks))
}

func randPred(rng *rand.Rand, ncols int, depth int, allowOr bool) *pred {
	if depth == 0 || rng.Intn(3) == 0 {
		return randAtom(rng, ncols)
	}
	k := "and"
	if allowOr && rng.Intn(3) == 0 {
		k = "or"
	}
	return &pred{K: k, A: randPred(rng, ncols, depth-1, allowOr), B: randPred(rng, ncols, depth-1, allowOr)}
}

// sqlRun is one recorded database session.
type sqlRun struct {
	tw  *trace.Writer
	e   *eng.Engine
	ctx string
	n   int
}

func (s *sqlRun) emit(ev map[string]interface{}) {
	ev["ctx"] = s.ctx
	s.tw.Emit(ev)
	s.n++
}

func (s *sqlRun) stmt(ev map[string]interface{}, sql string) eng.Result {
	pb := s.e.Pins()
	r := s.e.Exec(sql)
	ev["res"] = r.Res
	ev["pb"], ev["pa"] = pb, s.e.Pins()
	ev["sql"] = shortSQL(sql)
	return r
}

func shortSQL(s string) string {
	if len(s) > 200 {
		return s[:200] + "..."
	}
	return s
}

func (s *sqlRun) create(t *tableDef) {
	ev := map[string]interface{}{"ev": "Create", "t": t.name, "cols": t.cols}
	s.stmt(ev, t.createSQL())
	s.emit(ev)
}

// insert rows (ranks) with one INSERT statement; colOrder is a permutation of the columns used in the column list
func (s *sqlRun) insert(t *tableDef, rows [][]int, colOrder []int) {
	if colOrder == nil {
		colOrder = make([]int, len(t.cols))
		for i := range colOrder {
			colOrder[i] = i
		}
	}
	names := []string{}
	for _, c := range colOrder {
		names = append(names, t.names[c])
	}
	tuples := []string{}
	for _, r := range rows {
		vs := []string{}
		for _, c := range colOrder {
			vs = append(vs, lit(t.cols[c], r[c]))
		}
		tuples = append(tuples, "("+strings.Join(vs, ", ")+")")
	}
	sql := "INSERT INTO " + t.name + "(" + strings.Join(names, ",") + ") VALUES " + strings.Join(tuples, ", ") + ";"
	ev := map[string]interface{}{"ev": "Insert", "t": t.name, "rows": rows}
	s.stmt(ev, sql)
	s.emit(ev)
}

func (s *sqlRun) selectQ(t *tableDef, p *pred, proj []int, sync bool) {
	cols := "*"
	if proj == nil {
		proj = make([]int, len(t.cols))
		for i := range proj {
			proj[i] = i
		}
	} else {
		ns := []string{}
		for _, c := range proj {
			ns = append(ns, t.names[c])
		}
		cols = strings.Join(ns, ", ")
	}
	sql := "SELECT " + cols + " FROM " + t.name + where(p, t) + ";"
	ev := map[string]interface{}{"ev": "Select", "t": t.name, "pred": p.json(), "proj": proj}
	ev["plan"] = s.e.PlanOf(sql)
	r := s.stmt(ev, sql)
	ev["rows"] = rowsToRanks(r.Rows)
	if sync {
		ev["sync"] = true
	}
	s.emit(ev)
}

func (s *sqlRun) scan(t *tableDef) { s.selectQ(t, predTrue, nil, true) }

func (s *sqlRun) update(t *tableDef, set [][2]int, p *pred) {
	parts := []string{}
	sj := [][]int{}
	for _, sv := range set {
		parts = append(parts, t.names[sv[0]]+" = "+lit(t.cols[sv[0]], sv[1]))
		sj = append(sj, []int{sv[0], sv[1]})
	}
	sql := "UPDATE " + t.name + " SET " + strings.Join(parts, ", ") + where(p, t) + ";"
	ev := map[string]interface{}{"ev": "Update", "t": t.name, "pred": p.json(), "set": sj}
	ev["plan"] = s.e.PlanOf(sql)
	s.stmt(ev, sql)
	s.emit(ev)
}

func (s *sqlRun) delete(t *tableDef, p *pred) {
	sql := "DELETE FROM " + t.name + where(p, t) + ";"
	ev := map[string]interface{}{"ev": "Delete", "t": t.name, "pred": p.json()}
	ev["plan"] = s.e.PlanOf(sql)
	s.stmt(ev, sql)
	s.emit(ev)
}

func (s *sqlRun) stats() {
	pm := s.e.RefreshStats()
	res := "ok"
	if pm != "" {
		res = "panic:" + pm
	}
	s.emit(map[string]interface{}{"ev": "Stats", "res": res})
}

var dbCounter int

// newRun opens a fresh in-memory database and writes the Reset event.
func newRun(tw *trace.Writer, ctx string, memKB int) (*sqlRun, error) {
	dbCounter++
	e, pm := eng.Open(fmt.Sprintf("vsql%d", dbCounter), memKB, false)
	if e == nil {
		return nil, fmt.Errorf("engine start panicked: %s", pm)
	}
	s := &sqlRun{tw: tw, e: e, ctx: ctx}
	s.emit(map[string]interface{}{"ev": "Reset"})
	return s, nil
}

func randSchema(rng *rand.Rand, name string) *tableDef {
	n := 1 + rng.Intn(3)
	ty := []string{"int", "float", "varchar"}
	t := &tableDef{name: name}
	for i := 0; i < n; i++ {
		t.cols = append(t.cols, ty[rng.Intn(3)])
		t.names = append(t.names, fmt.Sprintf("c%d", i))
	}
	return t
}

func randRow(rng *rand.Rand, t *tableDef, maxRank int) []int {
	r := make([]int, len(t.cols))
	for i := range r {
		r[i] = rng.Intn(maxRank)
	}
	return r
}
