package main

// Shared machinery of the SQL-level drivers (SqlModel trace vocabulary): rank <-> value mapping,
// predicate trees, statement rendering, event recording.

import (
	"runtime"
	"github.com/ryogrid/SamehadaDB/lib/samehada/samehada_util"
	"fmt"
	"math"
	"math/rand"
	"os"
	"strings"
	"time"

	"github.com/ryogrid/SamehadaDB/lib/storage/access"
	"github.com/ryogrid/SamehadaDB/lib/storage/index/index_constants"
	"github.com/ryogrid/SamehadaDB/lib/storage/page"
	"github.com/ryogrid/SamehadaDB/lib/storage/table/column"
	"github.com/ryogrid/SamehadaDB/lib/storage/table/schema"
	"github.com/ryogrid/SamehadaDB/lib/storage/tuple"
	"github.com/ryogrid/SamehadaDB/lib/types"
	"verif/harness/internal/eng"
	"verif/harness/internal/trace"
)

// order-preserving rank tables (6 ranks per type), restricted to the literal forms the SQL front end
// accepts: integers and plain decimals with an optional sign, quoted strings (NULL literals and IS NULL are not
// accepted by the front end).
// (rank 4 is the largest integer whose B-tree key does not start with ff ff, see KF-C17-btree-ffff-stopper)
var intVals = []int32{-2147483648, 0, 1, 7, 2147418111, 2147483647} // (rank 0: the smallest integer, which the engine also uses as its "minus infinity" value)

// ffRanks: ranks of the integer domain whose order-preserving index key starts with the bytes ff ff
func ffRanks() []int {
	out := []int{}
	for i, v := range intVals {
		val := types.NewInteger(v)
		b := samehada_util.EncodeValueAndRIDToDicOrderComparableVarchar(&val, &page.RID{}).SerializeOnlyVal()
		if len(b) >= 2 && b[0] == 0xff && b[1] == 0xff {
			out = append(out, i)
		}
	}
	return out
}
var floatVals = []float32{-2.25, 0.0, 0.5, 1.5, 1024.125, 100000000.0}
var strVals = []string{"", "a", "a b", "ab", "b", strings.Repeat("zy", 150)}
var floatLits = []string{"-2.25", "0.0", "0.5", "1.5", "1024.125", "100000000.0"}

// "svarchar": strings that include the two values the engine uses in-band as "minus / plus infinity" of the string
// type (dedicated scenario, see KF-C06-varchar-sentinel)
var sentVals = []string{"", "SamehadaDBInfMaxValue", "SamehadaDBInfMinValue", "a", "ab", "b"}

const NRanks = 6

func lit(typ string, rank int) string {
	switch typ {
	case "wint": // wide integer domain: the rank is the value (dedicated scenarios that need many distinct keys)
		return fmt.Sprint(rank)
	case "int":
		return fmt.Sprint(intVals[rank])
	case "float":
		return floatLits[rank]
	case "svarchar":
		return "'" + sentVals[rank] + "'"
	default:
		return "'" + strVals[rank] + "'"
	}
}

func valueOf(typ string, rank int) types.Value {
	switch typ {
	case "wint":
		return types.NewInteger(int32(rank))
	case "int":
		return types.NewInteger(intVals[rank])
	case "float":
		return types.NewFloat(floatVals[rank])
	case "svarchar":
		return types.NewVarchar(sentVals[rank])
	default:
		return types.NewVarchar(strVals[rank])
	}
}

// rankOf maps a value read back from the engine to its rank with Go's own equality; -1 = NULL,
// -99 = a value that was never stored.
func rankOf(v *types.Value) int {
	if v == nil {
		return -99
	}
	if v.IsNull() {
		return -1
	}
	switch v.ValueType() {
	case types.Integer:
		x := v.ToInteger()
		for i, y := range intVals {
			if x == y {
				return i
			}
		}
	case types.Float:
		x := v.ToFloat()
		for i, y := range floatVals {
			if x == y && !math.IsNaN(float64(x)) {
				return i
			}
		}
	case types.Varchar:
		x := v.ToVarchar()
		for i, y := range strVals {
			if x == y {
				return i
			}
		}
	}
	return -99
}

// colRank: rank of a value read back from a column of the given driver type
func colRank(typ string, v *types.Value) int {
	if typ == "wint" {
		if v == nil {
			return -99
		}
		if v.IsNull() {
			return -1
		}
		return int(v.ToInteger())
	}
	if typ == "svarchar" {
		if v == nil {
			return -99
		}
		if v.IsNull() {
			return -1
		}
		for i, y := range sentVals {
			if v.ToVarchar() == y {
				return i
			}
		}
		return -99
	}
	return rankOf(v)
}

func rowsToRanksT(t *tableDef, proj []int, rows [][]*types.Value) [][]int {
	out := make([][]int, 0, len(rows))
	for _, r := range rows {
		rr := make([]int, 0, len(r))
		for j, v := range r {
			typ := "int"
			if j < len(proj) && proj[j] < len(t.cols) {
				typ = t.cols[proj[j]]
			}
			rr = append(rr, colRank(typ, v))
		}
		out = append(out, rr)
	}
	return out
}

func rowsToRanks(rows [][]*types.Value) [][]int {
	out := make([][]int, 0, len(rows))
	for _, r := range rows {
		rr := make([]int, 0, len(r))
		for _, v := range r {
			rr = append(rr, rankOf(v))
		}
		out = append(out, rr)
	}
	return out
}

type tableDef struct {
	name  string
	cols  []string // types
	names []string // column names
	kinds []string // index kind per column (skiplist | btree | hash | uniq | none); nil = created through SQL (all skiplist)
}

func (t *tableDef) createSQL() string {
	parts := []string{}
	for i, c := range t.cols {
		ty := map[string]string{"int": "int", "wint": "int", "float": "float", "varchar": "varchar(400)", "svarchar": "varchar(400)"}[c]
		parts = append(parts, t.names[i]+" "+ty)
	}
	return "CREATE TABLE " + t.name + "(" + strings.Join(parts, ", ") + ");"
}

// predicate tree
type pred struct {
	K    string // true | cmp | and | or
	C    int
	Op   string
	V    int
	A, B *pred
}

func (p *pred) json() map[string]interface{} {
	switch p.K {
	case "true":
		return map[string]interface{}{"k": "true"}
	case "cmp":
		return map[string]interface{}{"k": "cmp", "c": p.C, "op": p.Op, "v": p.V}
	default:
		return map[string]interface{}{"k": p.K, "a": p.A.json(), "b": p.B.json()}
	}
}

func (p *pred) sql(t *tableDef, top bool) string {
	switch p.K {
	case "true":
		return ""
	case "cmp":
		return t.names[p.C] + " " + p.Op + " " + lit(t.cols[p.C], p.V)
	default:
		s := p.A.sql(t, false) + " " + strings.ToUpper(p.K) + " " + p.B.sql(t, false)
		if !top {
			s = "(" + s + ")"
		}
		return s
	}
}

func where(p *pred, t *tableDef) string {
	if p == nil || p.K == "true" {
		return ""
	}
	return " WHERE " + p.sql(t, true)
}

var cmpOps = []string{"=", "<>", "<", "<=", ">", ">="}

func atom(c int, op string, v int) *pred { return &pred{K: "cmp", C: c, Op: op, V: v} }
func and(a, b *pred) *pred              { return &pred{K: "and", A: a, B: b} }
func or(a, b *pred) *pred               { return &pred{K: "or", A: a, B: b} }

var predTrue = &pred{K: "true"}

func randAtom(rng *rand.Rand, ncols int) *pred {
	return atom(rng.Intn(ncols), cmpOps[rng.Intn(len(cmpOps))], rng.Intn(NRanks))
}

func randPred(rng *rand.Rand, ncols int, depth int, allowOr bool) *pred {
	if depth == 0 || rng.Intn(3) == 0 {
		return randAtom(rng, ncols)
	}
	k := "and"
	if allowOr && rng.Intn(3) == 0 {
		k = "or"
	}
	return &pred{K: k, A: randPred(rng, ncols, depth-1, allowOr), B: randPred(rng, ncols, depth-1, allowOr)}
}

// sqlRun is one recorded database session.
type sqlRun struct {
	tw  *trace.Writer
	e   *eng.Engine
	ctx string
	n   int
	txn *access.Transaction // explicit transaction in progress, or nil (autocommit)
	dead    bool
	conflict bool // the next statement runs against rows another open transaction has locked
	deadEmitted bool
	aborted bool // the explicit transaction was aborted by one of its statements
	down    bool // the database is stopped (between a stop and the next reopen of a walk)
}

func (s *sqlRun) emit(ev map[string]interface{}) {
	if r, ok := ev["res"].(string); ok && strings.HasPrefix(r, "panic") && !s.dead {
		s.dead = true // a panic inside the engine leaves latches / locks behind: the instance is not used further
	}
	if s.dead && ev["ev"] != "Reset" {
		if _, isStmt := ev["res"]; !isStmt || s.deadEmitted {
			return
		}
		s.deadEmitted = true
	}
	ev["ctx"] = s.ctx
	s.tw.Emit(ev)
	s.n++
}

// watch arms a watchdog for one engine call: an engine call that does not return within the limit is
// recorded as a "hang" outcome of that call and the driver process ends (exit code 3, trace flushed).
func (s *sqlRun) watch(ev map[string]interface{}) *time.Timer {
	// (120 s: a statement of these workloads takes milliseconds; the limit is far above what an overloaded machine adds)
	return time.AfterFunc(120*time.Second, func() {
		ev["res"] = "hang"
		ev["ctx"] = s.ctx
		buf := make([]byte, 1<<16)
		ev["stacks"] = string(buf[:runtime.Stack(buf, true)]) // where the engine is stuck (diagnosis only)
		if _, ok := ev["rows"]; !ok {
			ev["rows"] = [][]int{}
		}
		s.tw.Emit(ev)
		s.tw.Flush()
		os.Exit(3)
	})
}

func (s *sqlRun) stmt(ev map[string]interface{}, sql string) eng.Result {
	wd := s.watch(ev)
	defer wd.Stop()
	pb := s.e.Pins()
	var r eng.Result
	if s.txn != nil {
		r, _ = s.e.ExecTxn(s.txn, sql)
		ev["intxn"] = true
	} else {
		r = s.e.Exec(sql)
	}
	ev["res"] = r.Res
	if s.conflict {
		ev["conflict"] = true
	}
	ev["pb"], ev["pa"] = pb, s.e.Pins()
	ev["sql"] = shortSQL(sql)
	if strings.HasPrefix(r.Res, "panic") {
		s.dead = true // a panic inside a statement leaves latches / locks behind: the instance is not used further
	}
	if r.Res == "abort" && s.txn != nil {
		s.aborted = true
	}
	return r
}

func shortSQL(s string) string {
	if len(s) > 200 {
		return s[:200] + "..."
	}
	return s
}

func (s *sqlRun) create(t *tableDef) {
	if s.dead || (s.txn != nil && s.aborted) {
		return
	}
	ev := map[string]interface{}{"ev": "Create", "t": t.name, "cols": t.cols}
	s.stmt(ev, t.createSQL())
	s.emit(ev)
}

// insert rows (ranks) with one INSERT statement; colOrder is a permutation of the columns used in the column list
func (s *sqlRun) insert(t *tableDef, rows [][]int, colOrder []int) {
	if s.dead || (s.txn != nil && s.aborted) {
		return
	}
	if colOrder == nil {
		colOrder = make([]int, len(t.cols))
		for i := range colOrder {
			colOrder[i] = i
		}
	}
	names := []string{}
	for _, c := range colOrder {
		names = append(names, t.names[c])
	}
	tuples := []string{}
	for _, r := range rows {
		vs := []string{}
		for _, c := range colOrder {
			vs = append(vs, lit(t.cols[c], r[c]))
		}
		tuples = append(tuples, "("+strings.Join(vs, ", ")+")")
	}
	sql := "INSERT INTO " + t.name + "(" + strings.Join(names, ",") + ") VALUES " + strings.Join(tuples, ", ") + ";"
	ev := map[string]interface{}{"ev": "Insert", "t": t.name, "rows": rows}
	s.stmt(ev, sql)
	s.emit(ev)
}

// insertOther: rows inserted by OTHER transactions (one auto-commit INSERT each) while the run's own explicit
// transaction stays open - committed work of others that must survive the later rollback (and that uses up the
// room on the pages the open transaction touched).
func (s *sqlRun) insertOther(t *tableDef, rows [][]int) {
	if s.dead || s.txn == nil || s.aborted {
		return
	}
	for _, r := range rows {
		vs := []string{}
		for c := range t.cols {
			vs = append(vs, lit(t.cols[c], r[c]))
		}
		sql := "INSERT INTO " + t.name + "(" + strings.Join(t.names, ",") + ") VALUES (" + strings.Join(vs, ", ") + ");"
		ev := map[string]interface{}{"ev": "Insert", "t": t.name, "rows": [][]int{r}, "other": true, "conflict": true}
		wd := s.watch(ev)
		res := s.e.Exec(sql)
		wd.Stop()
		ev["res"] = res.Res
		ev["sql"] = shortSQL(sql)
		if strings.HasPrefix(res.Res, "panic") {
			s.dead = true
		}
		s.emit(ev)
		if s.dead {
			return
		}
	}
}

func (s *sqlRun) selectQ(t *tableDef, p *pred, proj []int, sync bool) {
	if s.dead || (s.txn != nil && s.aborted) || t.usesHash(p, nil) {
		return
	}
	cols := "*"
	if proj == nil {
		proj = make([]int, len(t.cols))
		for i := range proj {
			proj[i] = i
		}
	} else {
		ns := []string{}
		for _, c := range proj {
			ns = append(ns, t.names[c])
		}
		cols = strings.Join(ns, ", ")
	}
	sql := "SELECT " + cols + " FROM " + t.name + where(p, t) + ";"
	ev := map[string]interface{}{"ev": "Select", "t": t.name, "pred": p.json(), "proj": proj}
	ev["plan"] = s.e.PlanOf(sql)
	s.scanInfo(ev, t)
	r := s.stmt(ev, sql)
	ev["rows"] = rowsToRanksT(t, proj, r.Rows)
	if sync {
		ev["sync"] = true
	}
	s.emit(ev)
}

// scanInfo records the interval of the plan's index range scan (ranks; -2 = open end) and whether the
// predicate is re-checked above it, for the plan-level clause of C06 (spec/RangeDerivation).
func (s *sqlRun) scanInfo(ev map[string]interface{}, t *tableDef) {
	if len(s.e.LastScans) != 1 {
		return
	}
	si := s.e.LastScans[0]
	if si.Col < 0 || si.Col >= len(t.cols) {
		return
	}
	lo, hi := -2, -2
	if si.Lo != nil {
		lo = colRank(t.cols[si.Col], si.Lo)
	}
	if si.Hi != nil {
		hi = colRank(t.cols[si.Col], si.Hi)
	}
	if lo == -99 || hi == -99 || lo == -1 || hi == -1 {
		return
	}
	ev["rs"] = map[string]interface{}{"c": si.Col, "lo": lo, "hi": hi, "sel": si.Sel}
}

func (s *sqlRun) scan(t *tableDef) { s.selectQ(t, predTrue, nil, true) }

func (s *sqlRun) update(t *tableDef, set [][2]int, p *pred) {
	if s.dead || (s.txn != nil && s.aborted) || t.usesHash(p, set) {
		return
	}
	parts := []string{}
	sj := [][]int{}
	for _, sv := range set {
		parts = append(parts, t.names[sv[0]]+" = "+lit(t.cols[sv[0]], sv[1]))
		sj = append(sj, []int{sv[0], sv[1]})
	}
	sql := "UPDATE " + t.name + " SET " + strings.Join(parts, ", ") + where(p, t) + ";"
	ev := map[string]interface{}{"ev": "Update", "t": t.name, "pred": p.json(), "set": sj}
	ev["plan"] = s.e.PlanOf(sql)
	s.scanInfo(ev, t)
	s.stmt(ev, sql)
	s.emit(ev)
}

func (s *sqlRun) delete(t *tableDef, p *pred) {
	if s.dead || (s.txn != nil && s.aborted) || t.usesHash(p, nil) {
		return
	}
	sql := "DELETE FROM " + t.name + where(p, t) + ";"
	ev := map[string]interface{}{"ev": "Delete", "t": t.name, "pred": p.json()}
	ev["plan"] = s.e.PlanOf(sql)
	s.scanInfo(ev, t)
	s.stmt(ev, sql)
	s.emit(ev)
}

func (s *sqlRun) stats() {
	if s.dead || (s.txn != nil && s.aborted) {
		return
	}
	pm := s.e.RefreshStats()
	res := "ok"
	if pm != "" {
		res = "panic:" + pm
	}
	s.emit(map[string]interface{}{"ev": "Stats", "res": res})
}

var dbCounter int

// newRun opens a fresh in-memory database and writes the Reset event.
func newRun(tw *trace.Writer, ctx string, memKB int) (*sqlRun, error) {
	dbCounter++
	e, pm := eng.Open(fmt.Sprintf("vsql%d", dbCounter), memKB, false)
	if e == nil {
		return nil, fmt.Errorf("engine start panicked: %s", pm)
	}
	s := &sqlRun{tw: tw, e: e, ctx: ctx}
	s.emit(map[string]interface{}{"ev": "Reset", "sc": curScenario})
	return s, nil
}

func randSchema(rng *rand.Rand, name string) *tableDef {
	n := 1 + rng.Intn(3)
	ty := []string{"int", "float", "varchar"}
	t := &tableDef{name: name}
	for i := 0; i < n; i++ {
		t.cols = append(t.cols, ty[rng.Intn(3)])
		t.names = append(t.names, fmt.Sprintf("c%d", i))
	}
	return t
}

func randRow(rng *rand.Rand, t *tableDef, maxRank int) []int {
	r := make([]int, len(t.cols))
	for i := range r {
		r[i] = rng.Intn(maxRank)
	}
	return r
}

var kindConst = map[string]index_constants.IndexKind{"skiplist": index_constants.IndexKindSkipList, "btree": index_constants.IndexKindBtree,
	"hash": index_constants.IndexKindHash, "uniq": index_constants.IndexKindUniqSkipList, "none": index_constants.IndexKindInvalid}
var typeConst = map[string]types.TypeID{"int": types.Integer, "wint": types.Integer, "float": types.Float, "varchar": types.Varchar, "svarchar": types.Varchar}

// createAPI creates the table through catalog.CreateTable so that the index kind of each column can be chosen
func (s *sqlRun) createAPI(t *tableDef) {
	if s.dead || (s.txn != nil && s.aborted) {
		return
	}
	ev := map[string]interface{}{"ev": "Create", "t": t.name, "cols": t.cols, "kinds": t.kinds, "ff": ffRanks()}
	pb := s.e.Pins()
	res := "ok"
	func() {
		defer func() {
			if x := recover(); x != nil {
				res = "panic:" + fmt.Sprint(x)
			}
		}()
		cols := []*column.Column{}
		for i := range t.cols {
			k := kindConst[t.kinds[i]]
			cols = append(cols, column.NewColumn(t.names[i], typeConst[t.cols[i]], k != index_constants.IndexKindInvalid, k, types.PageID(-1), nil))
		}
		txn := s.e.TM().Begin(nil)
		s.e.Catalog().CreateTable(t.name, schema.NewSchema(cols), txn)
		s.e.TM().Commit(s.e.Catalog(), txn)
	}()
	ev["res"], ev["pb"], ev["pa"] = res, pb, s.e.Pins()
	s.emit(ev)
}

func (s *sqlRun) begin() {
	if s.dead || (s.txn != nil && s.aborted) {
		return
	}
	s.txn = s.e.TM().Begin(nil)
	s.emit(map[string]interface{}{"ev": "Begin", "res": "ok"})
}

func (s *sqlRun) endTxn(commit bool) {
	if s.dead || s.txn == nil {
		return
	}
	if s.aborted {
		commit = false
	}
	s.aborted = false
	name := "Abort"
	if commit {
		name = "Commit"
	}
	ev := map[string]interface{}{"ev": name}
	wd := s.watch(ev)
	defer wd.Stop()
	pb := s.e.Pins()
	res := "ok"
	func() {
		defer func() {
			if x := recover(); x != nil {
				res = "panic:" + fmt.Sprint(x)
			}
		}()
		if commit {
			s.e.TM().Commit(s.e.Catalog(), s.txn)
		} else {
			s.e.TM().Abort(s.e.Catalog(), s.txn)
		}
	}()
	s.txn = nil
	ev["res"], ev["pb"], ev["pa"] = res, pb, s.e.Pins()
	s.emit(ev)
}

// fetchRows reads the rows the given row ids point to (a fresh read-only transaction)
func (s *sqlRun) fetchRows(t *tableDef, rids []page.RID) (rows [][]int, res string) {
	res = "ok"
	defer func() {
		if x := recover(); x != nil {
			res = "panic:" + fmt.Sprint(x)
		}
	}()
	tm := s.e.Catalog().GetTableByName(t.name)
	txn := s.e.TM().Begin(nil)
	defer s.e.TM().Commit(s.e.Catalog(), txn)
	rows = [][]int{}
	for _, rid := range rids {
		r := rid
		tpl, err := tm.Table().GetTuple(&r, txn)
		if tpl == nil || err != nil {
			rows = append(rows, []int{-99})
			continue
		}
		row := []int{}
		for c := range t.cols {
			v := tpl.GetValue(tm.Schema(), uint32(c))
			row = append(row, colRank(t.cols[c], &v))
		}
		rows = append(rows, row)
	}
	return rows, res
}

// idxPoint asks the index object of column c for the row ids stored under the key of rank v
func (s *sqlRun) idxPoint(t *tableDef, c int, v int) {
	if s.dead || (s.txn != nil && s.aborted) {
		return
	}
	ev := map[string]interface{}{"ev": "IdxPoint", "t": t.name, "c": c, "v": v, "kind": t.kindOf(c), "rows": [][]int{}}
	wd := s.watch(ev)
	defer wd.Stop()
	func() {
		defer func() {
			if x := recover(); x != nil {
				ev["res"] = "panic:" + fmt.Sprint(x)
			}
		}()
		tm := s.e.Catalog().GetTableByName(t.name)
		idx := tm.GetIndex(c)
		val := valueOf(t.cols[c], v)
		key := tuple.GenTupleForIndexSearch(tm.Schema(), uint32(c), &val)
		txn := s.e.TM().Begin(nil)
		rids := idx.ScanKey(key, txn)
		s.e.TM().Commit(s.e.Catalog(), txn)
		rows, res := s.fetchRows(t, rids)
		ev["rows"], ev["res"] = rows, res
	}()
	s.emit(ev)
}

// idxRange walks the ordered index of column c between ranks lo and hi (-2 = open)
func (s *sqlRun) idxRange(t *tableDef, c int, lo, hi int) {
	if s.dead || (s.txn != nil && s.aborted) {
		return
	}
	ev := map[string]interface{}{"ev": "IdxRange", "t": t.name, "c": c, "lo": lo, "hi": hi, "kind": t.kindOf(c), "rows": [][]int{}}
	wd := s.watch(ev)
	defer wd.Stop()
	func() {
		defer func() {
			if x := recover(); x != nil {
				ev["res"] = "panic:" + fmt.Sprint(x)
			}
		}()
		tm := s.e.Catalog().GetTableByName(t.name)
		idx := tm.GetIndex(c)
		var lk, hk *tuple.Tuple
		if lo != -2 {
			val := valueOf(t.cols[c], lo)
			lk = tuple.GenTupleForIndexSearch(tm.Schema(), uint32(c), &val)
		}
		if hi != -2 {
			val := valueOf(t.cols[c], hi)
			hk = tuple.GenTupleForIndexSearch(tm.Schema(), uint32(c), &val)
		}
		txn := s.e.TM().Begin(nil)
		itr := idx.GetRangeScanIterator(lk, hk, txn)
		rids := []page.RID{}
		for done, _, _, rid := itr.Next(); !done; done, _, _, rid = itr.Next() {
			rids = append(rids, *rid)
			if len(rids) > 5000 {
				break
			}
		}
		s.e.TM().Commit(s.e.Catalog(), txn)
		rows, res := s.fetchRows(t, rids)
		ev["rows"], ev["res"] = rows, res
	}()
	s.emit(ev)
}

func (t *tableDef) kindOf(c int) string {
	if t.kinds == nil {
		return "skiplist"
	}
	return t.kinds[c]
}

// probes: the full battery at a quiescent point - heap scan, every index by point lookup of every
// rank and by a full and a partial ordered range, and SQL statements through the planner
func (s *sqlRun) probes(t *tableDef, rng *rand.Rand) {
	s.scan(t)
	for c := range t.cols {
		k := t.kindOf(c)
		if k == "none" {
			continue
		}
		for v := 0; v < NRanks; v++ {
			s.idxPoint(t, c, v)
		}
		if k != "hash" {
			s.idxRange(t, c, -2, -2)
			lo := rng.Intn(NRanks)
			s.idxRange(t, c, lo, lo+rng.Intn(NRanks-lo))
		}
		s.selectQ(t, atom(c, cmpOps[rng.Intn(6)], rng.Intn(NRanks)), nil, false)
	}
}

// usesHash: the statement has a predicate on, or assigns, a hash-indexed column.  The hash index kind is reachable
// through the catalog API only; its UpdateEntry panics "not implemented yet" and the optimizer plans ordered range
// scans over it, which it does not provide - such statements are outside what the engine supports and are not issued.
func (t *tableDef) usesHash(p *pred, set [][2]int) bool {
	if t.kinds == nil {
		return false
	}
	var walk func(p *pred) bool
	walk = func(p *pred) bool {
		if p == nil {
			return false
		}
		switch p.K {
		case "cmp":
			return t.kinds[p.C] == "hash"
		case "and", "or":
			return walk(p.A) || walk(p.B)
		}
		return false
	}
	if len(set) > 0 { // an UPDATE may relocate the row, which re-files it in every index of the table
		for _, k := range t.kinds {
			if k == "hash" {
				return true
			}
		}
	}
	return walk(p)
}

func (t *tableDef) hasBtreeVarchar() bool {
	for i, k := range t.kinds {
		if k == "btree" && t.cols[i] == "varchar" {
			return true
		}
	}
	return false
}

// ctxName lets a check reuse a workload under its own property context (VERIF_CTX)
func ctxName(def string) string {
	if v := os.Getenv("VERIF_CTX"); v != "" {
		return v
	}
	return def
}
