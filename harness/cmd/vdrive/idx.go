package main

// Driver for C17 (Multimap spec), sequential part: operates the index objects of a real table
// (skip list, unique skip list, B-tree, hash) directly through the index.Index interface with
// fabricated key tuples and row ids, records every call's outcome and the pins it left behind.

import (
	"github.com/spaolacci/murmur3"
	"github.com/ryogrid/SamehadaDB/lib/common"
	"encoding/binary"
	"github.com/ryogrid/SamehadaDB/lib/samehada/samehada_util"
	"fmt"
	"math"
	"runtime"
	"sync"
	"sync/atomic"
	"math/rand"
	"os"
	"sort"
	"strconv"
	"strings"
	"time"

	"github.com/ryogrid/SamehadaDB/lib/storage/index"
	"github.com/ryogrid/SamehadaDB/lib/storage/page"
	"github.com/ryogrid/SamehadaDB/lib/storage/tuple"
	"github.com/ryogrid/SamehadaDB/lib/types"
	"verif/harness/internal/eng"
	"verif/harness/internal/trace"
)

func init() { drivers["idx"] = idxDriver }

const nKeys = 48

// order-preserving key tables (rank -> value), rich in adjacent values and extremes
func keyValue(typ string, rank int, long bool) types.Value {
	switch typ {
	case "int":
		tab := []int32{math.MinInt32, math.MinInt32 + 1, -65536, -2, -1, 0, 1, 2, 3, 255, 256, 65535, 65536, math.MaxInt32 - 1}
		if rank < len(tab) {
			return types.NewInteger(tab[rank])
		}
		return types.NewInteger(int32(100000 + rank*7)) // above 65536, below MaxInt32-1? no: keep order
	case "float":
		tab := []float32{float32(math.Inf(-1)), -3.4e38, -1.5, -1e-40, 0, 1e-40, 0.5, 1.5, 2.25, 3.4e38}
		if rank < len(tab)-1 {
			return types.NewFloat(tab[rank])
		}
		return types.NewFloat(float32(1e6) * float32(rank))
	default:
		if long {
			// lengths 239 .. 286 bytes, one per rank (the order holds: a digit sorts below 'q'): they straddle the
			// length at which the key header's low byte wraps (256 - 12)
			return types.NewVarchar(strings.Repeat("q", 236+rank) + fmt.Sprintf("%03d", rank))
		}
		if rank == 0 {
			return types.NewVarchar("")
		}
		return types.NewVarchar(fmt.Sprintf("k%03d", rank))
	}
}

// the int table above is not monotone past its fixed part; build monotone tables once
var keyTabs = map[string][]types.Value{}

func buildKeyTab(typ string, long bool) []types.Value {
	name := typ
	if long {
		name += "-long"
	}
	if t, ok := keyTabs[name]; ok {
		return t
	}
	out := make([]types.Value, nKeys)
	switch typ {
	case "int":
		vals := []int32{math.MinInt32, math.MinInt32 + 1, -65536, -2, -1, 0, 1, 2, 3, 255, 256, 65535, 65536, math.MaxInt32 - 1, math.MaxInt32 - 2, math.MaxInt32 - 3}
		for len(vals) < nKeys {
			vals = append(vals, int32(100000+len(vals)*13))
		}
		sort.Slice(vals, func(i, j int) bool { return vals[i] < vals[j] })
		for i := range out {
			out[i] = types.NewInteger(vals[i])
		}
	case "float":
		vals := []float32{-3.4e38, -1.5, -1e-40, 0, 1e-40, 0.5, 1.5, 2.25, 3.3e38, 3.4e38, -2.5e10, 7.75}
		for len(vals) < nKeys {
			vals = append(vals, float32(1000+len(vals))*3.5)
		}
		sort.Slice(vals, func(i, j int) bool { return vals[i] < vals[j] })
		for i := range out {
			out[i] = types.NewFloat(vals[i])
		}
	default:
		for i := range out {
			out[i] = keyValue("varchar", i, long)
		}
	}
	keyTabs[name] = out
	return out
}

// collidingKeys: 48 integers in 8 groups of 6 whose hash-table home slot (block and offset) coincides, so that the
// linear probing of the hash index really walks chains, over tombstones and across a wrapped block boundary, instead of
// finding every key in its home slot.  The home slot is computed from the bytes the index itself hashes.
func collidingKeys(x *idxEnv) []types.Value {
	tm := x.s.e.Catalog().GetTableByName(x.t.name)
	period := uint64(common.BucketSizeOfHashIndex) * uint64(page.BlockArraySize) // (a multiple of both moduli)
	groups := map[uint64][]int32{}
	out := []types.Value{}
	var full []uint64
	for i := int32(1); i < 4000000 && len(full) < 8; i++ {
		v := types.NewInteger(i)
		kb := tuple.GenTupleForIndexSearch(tm.Schema(), 0, &v).GetValueInBytes(tm.Schema(), 0)
		h := murmur3.New128()
		h.Write(kb)
		hv := binary.LittleEndian.Uint64(h.Sum(nil))
		home := (hv%uint64(common.BucketSizeOfHashIndex))*1000 + hv%uint64(page.BlockArraySize)
		_ = period
		if len(groups[home]) < 6 {
			groups[home] = append(groups[home], i)
			if len(groups[home]) == 6 {
				full = append(full, home)
			}
		}
	}
	vals := []int32{}
	for _, hm := range full {
		vals = append(vals, groups[hm]...)
	}
	sort.Slice(vals, func(i, j int) bool { return vals[i] < vals[j] })
	for _, v := range vals {
		out = append(out, types.NewInteger(v))
	}
	return out
}

type idxEnv struct {
	s    *sqlRun
	t    *tableDef
	idx  index.Index
	kind string
	typ  string
	keys []types.Value
	sch  interface{}
	q    int
	ff   map[int]bool // key ranks whose order-preserving encoding starts with ff ff (KF-C17-btree-ffff-stopper)
}

func ffKeyRanks(keys []types.Value) map[int]bool {
	out := map[int]bool{}
	for i := range keys {
		b := samehada_util.EncodeValueAndRIDToDicOrderComparableVarchar(&keys[i], &page.RID{}).SerializeOnlyVal()
		if len(b) >= 2 && b[0] == 0xff && b[1] == 0xff {
			out[i] = true
		}
	}
	return out
}

// Row ids: 4 slots per page; every second page number is taken from a table of page ids around the byte boundaries of
// the packed form (the property quantifies over any row id; seeded change C17r4-B needs a page id whose low byte is ff
// and whose second byte is >= 80), the others are 1000 + q.
var ridSpecialPages = []int{255, 256, 32767, 32768, 33023, 65535, 65536, 1048575, 1048576, 16777215, 16777216, 2147483646}

func ridPage(q int) int {
	if q%2 == 1 && q/2 < len(ridSpecialPages) {
		return ridSpecialPages[q/2]
	}
	return 1000 + q
}

var ridPageInv = func() map[int]int {
	m := map[int]int{}
	for i := range ridSpecialPages {
		m[ridSpecialPages[i]] = i*2 + 1
	}
	return m
}()

func ridOf(n int) page.RID { return page.RID{PageID: types.PageID(ridPage(n / 4)), SlotNum: uint32(n % 4)} }
func ridID(r page.RID) int {
	if q, ok := ridPageInv[int(r.PageID)]; ok {
		return q*4 + int(r.SlotNum)
	}
	return (int(r.PageID)-1000)*4 + int(r.SlotNum)
}

func (x *idxEnv) keyTuple(rank int) *tuple.Tuple {
	tm := x.s.e.Catalog().GetTableByName(x.t.name)
	v := x.keys[rank]
	return tuple.GenTupleForIndexSearch(tm.Schema(), 0, &v)
}

func (x *idxEnv) call(ev map[string]interface{}, f func()) {
	ev["kind"], ev["ktype"], ev["q"] = x.kind, x.typ, x.q
	if k, ok := ev["k"].(int); ok && x.ff[k] {
		ev["ffk"] = true
	}
	if k, ok := ev["k2"].(int); ok && x.ff[k] {
		ev["ffk"] = true
	}
	wd := time.AfterFunc(40*time.Second, func() {
		ev["res"] = "hang"
		ev["ctx"] = "C17"
		if _, ok := ev["rids"]; !ok {
			ev["rids"] = []int{}
		}
		x.s.tw.Emit(ev)
		x.s.tw.Flush()
		os.Exit(3)
	})
	defer wd.Stop()
	pb := x.s.e.Pins()
	res := "ok"
	func() {
		defer func() {
			if p := recover(); p != nil {
				res = "panic:" + fmt.Sprint(p)
			}
		}()
		f()
	}()
	ev["res"], ev["pb"], ev["pa"] = res, pb, x.s.e.Pins()
	x.s.emit(ev)
}

func (x *idxEnv) point(k int) {
	ev := map[string]interface{}{"ev": "MPoint", "k": k, "rids": []int{}}
	x.call(ev, func() {
		rids := x.idx.ScanKey(x.keyTuple(k), nil)
		out := []int{}
		for _, r := range rids {
			out = append(out, ridID(r))
		}
		ev["rids"] = out
	})
}

func (x *idxEnv) rangeScan(lo, hi int) {
	ev := map[string]interface{}{"ev": "MRange", "lo": lo, "hi": hi, "rids": []int{}}
	x.call(ev, func() {
		var lk, hk *tuple.Tuple
		if lo != -2 {
			lk = x.keyTuple(lo)
		}
		if hi != -2 {
			hk = x.keyTuple(hi)
		}
		itr := x.idx.GetRangeScanIterator(lk, hk, nil)
		out := []int{}
		for done, _, _, rid := itr.Next(); !done; done, _, _, rid = itr.Next() {
			out = append(out, ridID(*rid))
			if len(out) > 100000 {
				break
			}
		}
		ev["rids"] = out
	})
}

// idx seq <out.ndjson> <sequences> <ops per sequence>
func idxDriver(args []string) error {
	if args[0] == "conc" {
		return idxConc(args[1:])
	}
	if args[0] != "seq" {
		return fmt.Errorf("idx seq|conc ...")
	}
	eng.Quiet()
	tw, err := trace.New(args[1])
	if err != nil {
		return err
	}
	nseq, _ := strconv.Atoi(args[2])
	nops, _ := strconv.Atoi(args[3])
	start := 0
	if len(args) > 4 {
		start, _ = strconv.Atoi(args[4])
	}
	kinds := []string{"skiplist", "uniq", "btree", "skiplist", "hash"}
	typs := []string{"int", "float", "varchar"}
	for q := start; q < nseq; q++ {
		rng := rand.New(rand.NewSource(envSeed()*100003 + int64(q))) // per sequence, so that a run can resume after a recorded hang
		kind := kinds[q%len(kinds)]
		typ := typs[(q/len(kinds))%3]
		long := typ == "varchar" && kind != "btree" && rng.Intn(2) == 0
		s, err := newRun(tw, "C17", 4000)
		if err != nil {
			return err
		}
		t := &tableDef{name: fmt.Sprintf("m%d", q), cols: []string{typ}, names: []string{"k"}, kinds: []string{kind}}
		s.createAPI(t)
		if s.dead {
			continue
		}
		x := &idxEnv{s: s, t: t, kind: kind, typ: typ, keys: buildKeyTab(typ, long), q: q}
		x.idx = s.e.Catalog().GetTableByName(t.name).GetIndex(0)
		if kind == "hash" && typ == "int" {
			if ck := collidingKeys(x); len(ck) == nKeys {
				x.keys = ck
			}
		}
		x.ff = ffKeyRanks(x.keys)
		live := map[int]int{} // rid id -> key rank
		byKey := map[int][]int{}
		nextRid := 0
		add := func(k int) {
			r := nextRid
			nextRid++
			ev := map[string]interface{}{"ev": "MInsert", "k": k, "r": r}
			x.call(ev, func() { x.idx.InsertEntry(x.keyTuple(k), ridOf(r), nil) })
			if ev["res"] == "ok" {
				live[r] = k
				byKey[k] = append(byKey[k], r)
			}
		}
		del := func(r int) {
			k := live[r]
			ev := map[string]interface{}{"ev": "MDelete", "k": k, "r": r}
			x.call(ev, func() { x.idx.DeleteEntry(x.keyTuple(k), ridOf(r), nil) })
			delete(live, r)
			l := byKey[k]
			for i, v := range l {
				if v == r {
					byKey[k] = append(l[:i:i], l[i+1:]...)
					break
				}
			}
		}
		pickLive := func() (int, bool) {
			if len(live) == 0 {
				return 0, false
			}
			ks := make([]int, 0, len(live))
			for r := range live {
				ks = append(ks, r)
			}
			sort.Ints(ks)
			return ks[rng.Intn(len(ks))], true
		}
		// unique skip list + smallest integer is a known finding (KF-C17-uniq-minint) that corrupts the list;
		// only every fourth such sequence uses that key so that the others can show anything else
		kmin := 0
		if kind == "uniq" && typ == "int" && (q/len(kinds))%4 != 3 {
			kmin = 1
		}
		keyFor := func() int {
			if kind == "uniq" { // at most one row id per key
				free := []int{}
				for k := kmin; k < nKeys; k++ {
					if len(byKey[k]) == 0 {
						free = append(free, k)
					}
				}
				if len(free) == 0 {
					return -1
				}
				return free[rng.Intn(len(free))]
			}
			if rng.Intn(3) == 0 {
				return rng.Intn(6) * 7 % nKeys // hot keys: many duplicates
			}
			return rng.Intn(nKeys)
		}
		probes := func() {
			for k := 0; k < nKeys; k += 1 + rng.Intn(4) {
				x.point(k)
			}
			if kind != "hash" {
				x.rangeScan(-2, -2)
				lo := rng.Intn(nKeys)
				x.rangeScan(lo, lo+rng.Intn(nKeys-lo))
				x.rangeScan(-2, rng.Intn(nKeys))
				x.rangeScan(rng.Intn(nKeys), -2)
			}
		}
		for op := 0; op < nops && !s.dead; op++ {
			// insert-heavy first half (node splits), delete-heavy second half (empty nodes)
			pIns := 70
			if op > nops/2 {
				pIns = 25
			}
			r := rng.Intn(100)
			switch {
			case r < pIns:
				if k := keyFor(); k >= 0 {
					add(k)
				}
			case r < 90:
				if rid, ok := pickLive(); ok {
					del(rid)
				}
			default:
				if rid, ok := pickLive(); ok && kind != "hash" {
					k2 := keyFor()
					if k2 < 0 {
						break
					}
					k1 := live[rid]
					r2 := nextRid
					nextRid++
					ev := map[string]interface{}{"ev": "MUpdate", "k": k1, "r": rid, "k2": k2, "r2": r2}
					x.call(ev, func() { x.idx.UpdateEntry(x.keyTuple(k1), ridOf(rid), x.keyTuple(k2), ridOf(r2), nil) })
					delete(live, rid)
					l := byKey[k1]
					for i, v := range l {
						if v == rid {
							byKey[k1] = append(l[:i:i], l[i+1:]...)
							break
						}
					}
					live[r2] = k2
					byKey[k2] = append(byKey[k2], r2)
				}
			}
			if op%50 == 49 {
				probes()
			}
		}
		probes()
		// bulk phase: several hundred entries under a few keys (multi-level trees, long duplicate runs), a mass
		// removal, new entries, then the removed (key, row id) pairs come back - what a rollback of a big DELETE does
		if kind != "uniq" && q%2 == 1 && !s.dead {
			hot := []int{0, 7, 21, 35, nKeys - 1}
			type pr struct{ k, r int }
			batch := []pr{}
			nb := 250 + rng.Intn(350)
			for i := 0; i < nb && !s.dead; i++ {
				k := hot[rng.Intn(len(hot))]
				r := nextRid
				add(k)
				if _, ok := live[r]; ok {
					batch = append(batch, pr{k, r})
				}
			}
			probes()
			rng.Shuffle(len(batch), func(i, j int) { batch[i], batch[j] = batch[j], batch[i] })
			gone := batch[:len(batch)*3/4]
			for _, p := range gone {
				if s.dead {
					break
				}
				del(p.r)
			}
			probes()
			for i := 0; i < 60 && !s.dead; i++ {
				add(hot[rng.Intn(len(hot))])
			}
			for i := len(gone) - 1; i >= 0 && !s.dead; i-- {
				p := gone[i]
				ev := map[string]interface{}{"ev": "MInsert", "k": p.k, "r": p.r}
				x.call(ev, func() { x.idx.InsertEntry(x.keyTuple(p.k), ridOf(p.r), nil) })
				if ev["res"] == "ok" {
					live[p.r] = p.k
					byKey[p.k] = append(byKey[p.k], p.r)
				}
			}
			probes()
		}
	}
	return tw.Close()
}

// idx conc <out.ndjson> <windows> <goroutines> <ops per goroutine> <gomaxprocs>
// Concurrent use of one index: every goroutine inserts and deletes its own entries and looks keys up, one
// goroutine scans; a set of sentinel entries is loaded before and never touched.  Invoke / return events
// are ordered by a shared atomic counter.
func idxConc(args []string) error {
	eng.Quiet()
	tw, err := trace.New(args[0])
	if err != nil {
		return err
	}
	windows, _ := strconv.Atoi(args[1])
	ng, _ := strconv.Atoi(args[2])
	nops, _ := strconv.Atoi(args[3])
	procs, _ := strconv.Atoi(args[4])
	runtime.GOMAXPROCS(procs)
	kinds := []string{"skiplist", "btree", "skiplist"}
	typs := []string{"int", "varchar", "float"}
	const nk = 12
	for w := 0; w < windows; w++ {
		kind, typ := kinds[w%len(kinds)], typs[(w/len(kinds))%3]
		s, err := newRun(tw, "C17", 4000)
		if err != nil {
			return err
		}
		t := &tableDef{name: fmt.Sprintf("c%d", w), cols: []string{typ}, names: []string{"k"}, kinds: []string{kind}}
		s.createAPI(t)
		x := &idxEnv{s: s, t: t, kind: kind, typ: typ, keys: buildKeyTab(typ, false), q: w}
		x.idx = s.e.Catalog().GetTableByName(t.name).GetIndex(0)
		// sentinels: two entries under every third key, plus enough entries to have several nodes
		ents := [][]int{}
		rid := 0
		for k := 0; k < nk; k += 3 {
			for j := 0; j < 2; j++ {
				x.idx.InsertEntry(x.keyTuple(k), ridOf(rid), nil)
				ents = append(ents, []int{k, rid})
				rid++
			}
		}
		for i := 0; i < 120; i++ { // ballast above the working keys (never touched either)
			x.idx.InsertEntry(x.keyTuple(nk+1+i%20), ridOf(rid), nil)
			ents = append(ents, []int{nk + 1 + i%20, rid})
			rid++
		}
		var clock int64
		var nextRid int64 = 100000
		// hot windows: one goroutine moves a single entry back and forth between row ids under one key (UpdateEntry, what
		// UPDATE does for a relocated row) while the others look that key up in tight loops (operations are called
		// directly, without a watchdog goroutine per call, so that they really overlap)
		hot := w%2 == 1
		const hotKey = 4
		hotRid := int(atomic.AddInt64(&nextRid, 1))
		if hot {
			x.idx.InsertEntry(x.keyTuple(hotKey), ridOf(hotRid), nil)
			ents = append(ents, []int{hotKey, hotRid})
		}
		tw.Emit(map[string]interface{}{"ev": "Reset", "ents": ents, "kind": kind, "ktype": typ, "gomaxprocs": procs, "ctx": "C17", "hot": hot})
		type rec struct {
			inv, ret int64
			ev       map[string]interface{}
		}
		recs := make([][]*rec, ng)
		var wg sync.WaitGroup
		var hung int32
		for g := 0; g < ng; g++ {
			wg.Add(1)
			go func(g int) {
				defer wg.Done()
				rng := rand.New(rand.NewSource(envSeed()*7919 + int64(w*100+g)))
				mine := [][2]int{}
				for i := 0; i < nops; i++ {
					r := &rec{}
					ev := map[string]interface{}{"c": g*100000 + i, "res": "ok", "rids": []int{}}
					x9 := rng.Intn(10)
					var f func()
					switch {
					case hot && g == 1:
						rd2 := int(atomic.AddInt64(&nextRid, 1))
						old := hotRid
						hotRid = rd2
						ev["k"], ev["a"], ev["r"], ev["a2"], ev["r2"] = "upd", hotKey, old, hotKey, rd2
						f = func() { x.idx.UpdateEntry(x.keyTuple(hotKey), ridOf(old), x.keyTuple(hotKey), ridOf(rd2), nil) }
					case hot && g >= 2:
						ev["k"], ev["a"] = "point", hotKey
						f = func() {
							out := []int{}
							for _, rd := range x.idx.ScanKey(x.keyTuple(hotKey), nil) {
								out = append(out, ridID(rd))
							}
							ev["rids"] = out
						}
					case g == 0 && x9 < 5: // the scanner
						lo, hi := -2, -2
						if rng.Intn(2) == 0 {
							lo = rng.Intn(nk)
							hi = lo + rng.Intn(nk-lo)
						} else {
							hi = nk - 1
						}
						ev["k"], ev["lo"], ev["hi"] = "scan", lo, hi
						f = func() {
							var lk, hk *tuple.Tuple
							if lo != -2 {
								lk = x.keyTuple(lo)
							}
							if hi != -2 {
								hk = x.keyTuple(hi)
							}
							itr := x.idx.GetRangeScanIterator(lk, hk, nil)
							out := []int{}
							for done, _, _, rd := itr.Next(); !done; done, _, _, rd = itr.Next() {
								out = append(out, ridID(*rd))
								if len(out) > 100000 {
									break
								}
							}
							ev["rids"] = out
						}
					case x9 < 4 || len(mine) == 0:
						k := rng.Intn(nk)
						rd := int(atomic.AddInt64(&nextRid, 1))
						ev["k"], ev["a"], ev["r"] = "ins", k, rd
						f = func() { x.idx.InsertEntry(x.keyTuple(k), ridOf(rd), nil) }
						mine = append(mine, [2]int{k, rd})
					case x9 < 7:
						j := rng.Intn(len(mine))
						m := mine[j]
						mine = append(mine[:j], mine[j+1:]...)
						ev["k"], ev["a"], ev["r"] = "del", m[0], m[1]
						f = func() { x.idx.DeleteEntry(x.keyTuple(m[0]), ridOf(m[1]), nil) }
					case x9 < 9 && len(mine) > 0 && kind != "hash":
						// UpdateEntry: what UPDATE does for a relocated row (same key, new row id) or a changed key
						j := rng.Intn(len(mine))
						m := mine[j]
						k2 := m[0]
						if rng.Intn(2) == 0 {
							k2 = rng.Intn(nk)
						}
						rd2 := int(atomic.AddInt64(&nextRid, 1))
						mine[j] = [2]int{k2, rd2}
						ev["k"], ev["a"], ev["r"], ev["a2"], ev["r2"] = "upd", m[0], m[1], k2, rd2
						f = func() { x.idx.UpdateEntry(x.keyTuple(m[0]), ridOf(m[1]), x.keyTuple(k2), ridOf(rd2), nil) }
					default:
						k := rng.Intn(nk)
						if len(mine) > 0 && rng.Intn(2) == 0 {
							k = mine[rng.Intn(len(mine))][0] // a key this goroutine's own entries live under: others move theirs there too
						}
						ev["k"], ev["a"] = "point", k
						f = func() {
							out := []int{}
							for _, rd := range x.idx.ScanKey(x.keyTuple(k), nil) {
								out = append(out, ridID(rd))
							}
							ev["rids"] = out
						}
					}
					r.ev = ev
					r.inv = atomic.AddInt64(&clock, 1)
					if hot && g >= 1 {
						func() {
							defer func() {
								if p := recover(); p != nil {
									ev["res"] = "panic:" + fmt.Sprint(p)
								}
							}()
							f()
						}()
					} else {
						done := make(chan string, 1)
						go func() {
							defer func() {
								if p := recover(); p != nil {
									done <- "panic:" + fmt.Sprint(p)
								}
							}()
							f()
							done <- "ok"
						}()
						select {
						case res := <-done:
							ev["res"] = res
						case <-time.After(40 * time.Second):
							ev["res"] = "hang"
							atomic.StoreInt32(&hung, 1)
						}
					}
					r.ret = atomic.AddInt64(&clock, 1)
					recs[g] = append(recs[g], r)
					if ev["res"] != "ok" {
						return
					}
				}
			}(g)
		}
		wg.Wait()
		// closing full scan
		fin := &rec{ev: map[string]interface{}{"c": 99999999, "k": "scan", "lo": -2, "hi": nk - 1, "res": "ok", "rids": []int{}}}
		fin.inv = atomic.AddInt64(&clock, 1)
		func() {
			defer func() {
				if p := recover(); p != nil {
					fin.ev["res"] = "panic:" + fmt.Sprint(p)
				}
			}()
			itr := x.idx.GetRangeScanIterator(nil, x.keyTuple(nk-1), nil)
			out := []int{}
			for done, _, _, rd := itr.Next(); !done; done, _, _, rd = itr.Next() {
				out = append(out, ridID(*rd))
			}
			fin.ev["rids"] = out
		}()
		fin.ret = atomic.AddInt64(&clock, 1)
		type evt struct {
			at  int64
			inv bool
			r   *rec
		}
		evs := []evt{}
		for _, l := range append(recs, []*rec{fin}) {
			for _, r := range l {
				evs = append(evs, evt{r.inv, true, r}, evt{r.ret, false, r})
			}
		}
		sort.Slice(evs, func(i, j int) bool { return evs[i].at < evs[j].at })
		for _, e := range evs {
			if e.inv {
				ev := map[string]interface{}{"ev": "Inv"}
				for k, v := range e.r.ev {
					ev[k] = v
				}
				tw.Emit(ev)
			} else {
				tw.Emit(map[string]interface{}{"ev": "Ret", "c": e.r.ev["c"]})
			}
		}
		if hung != 0 {
			tw.Flush()
			tw.Close()
			os.Exit(3)
		}
	}
	return tw.Close()
}
