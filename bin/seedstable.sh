#!/bin/bash
# bin/seedstable.sh <seed id>...  - confirm that a kept seeded change passes the 82 stable tests of the baseline:
# scratch worktree of /repo HEAD + patch, every stable test run per package (serialised machine-wide by flock),
# result recorded in seeded/<id>/meta.json (stable_suite_confirmed).
export GOFLAGS=-mod=mod GOPROXY=off GOSUMDB=off GOTOOLCHAIN=local
for id in "$@"; do
  wt=/tmp/seedst-$id
  git -C /repo worktree remove --force $wt 2>/dev/null; rm -rf $wt
  git -C /repo worktree add -q --detach $wt HEAD || { echo "$id worktree failed"; continue; }
  if ! git -C $wt apply /verif/seeded/$id/patch.diff; then echo "$id patch does not apply"; res="patch does not apply";
  else
    python3 - "$wt" > /tmp/seedst-$id.cmds <<'PY'
import json,sys,collections
b=json.load(open('/root/.vp/BASELINE.json'))
by=collections.defaultdict(list)
for t in b['stable_pass']:
    pkg,name=t.split('::'); by[pkg].append(name.split('/')[0])
for pkg,names in sorted(by.items()):
    rel=pkg.replace('github.com/ryogrid/SamehadaDB/lib','.')
    print("go test -vet=off -count=1 -timeout 20m -run '^(%s)$' %s" % ('|'.join(sorted(set(names))), rel))
PY
    fail=0; n=0
    while read -r cmd; do
      out=$(cd $wt/lib && flock ${SEED_LOCK:-/tmp/mut/suite.lock} bash -c "$cmd" 2>&1); rc=$?
      n=$((n+1)); [ $rc -ne 0 ] && { fail=1; echo "$id: $cmd -> rc=$rc"; echo "$out" | grep -E '^(--- FAIL|FAIL|panic)' | head -5; }
    done < /tmp/seedst-$id.cmds
    rm -f /tmp/seedst-$id.cmds
    res=$([ $fail -eq 0 ] && echo "PASS ($n package runs, all 82 stable tests)" || echo "FAIL")
  fi
  python3 - "$id" "$res" <<'PY'
import json,sys
p='/verif/seeded/%s/meta.json'%sys.argv[1]; m=json.load(open(p)); m['stable_suite_confirmed']=sys.argv[2]; json.dump(m,open(p,'w'),indent=1)
PY
  echo "$id stable: $res"
  git -C /repo worktree remove --force $wt; rm -rf $wt
done
