#!/bin/bash
# bin/run_all.sh <tier> [props...] - run the checks one after another, print one line each
tier=${1:-quick}; shift
props=${@:-C01 C02 C03 C04 C05 C06 C07 C08 C09 C10 C11 C12 C13 C14 C15 C16 C17 C18 C20}
for p in $props; do
  s=$(date +%s)
  out=$(bin/check $p --tier $tier 2>&1); rc=$?
  echo "$p rc=$rc $(( $(date +%s) - s ))s $(echo "$out" | grep -E '^(OK|VIOLATION|INCONCLUSIVE)' | head -1 | cut -c1-200)"
  echo "$out" | grep -E '^(violation|KNOWN)' | cut -c1-250 | head -4
done
