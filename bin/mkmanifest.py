#!/usr/bin/env python3
"""Regenerates MANIFEST.json from the table below (kept in one place so that it always validates)."""
import json, os, subprocess
ROOT = os.path.dirname(os.path.dirname(os.path.abspath(__file__)))

COMMON = 'Trusted: TLC, the recording wrapper (hook H1) and driver, the prober (materialises every I/O prefix and starts the real NewSamehadaDB on it). Crash points are I/O-call boundaries plus torn variants of one log write; single driver goroutine. The WalRecovery mechanism spec (WAL + redo/undo + restart order, crashes inside recovery, torn log tail) is model-checked by TLC for the same contract; it covers one heap page.'

CLAIMED = {
 "C16": dict(
    category="model_checking",
    text="TLC checks the LockManager specification (transcribed from lock_manager.go, one action per critical section) exhaustively for 3 transactions x 2 rows (thorough: 4x2, 3x3) against the compatibility matrix stated independently (ReplyRight, DeniedUnchanged, ShrinkOnlyAtEnd, GrantInstalls, Compat, Agree); the invariants Compat / Agree and the action properties ReplyRight / DeniedUnchanged are in addition proved with TLAPS for any finite set of transactions and any set of rows (LockManagerProofs.tla, 98 obligations); every edge of the TLC state graph is then performed on a real LockManager/TransactionManager and the recorded results and lock-table projection are validated by TLC; goroutine-concurrent runs sequenced under the lock-manager mutex are validated against the same spec.",
    design_ref="DESIGN.md section 5 C16",
    note="Trusted: TLC, the recording driver (harness/cmd/vdrive/lock.go), hook H3 ordering under lockManager.mutex. Exhaustive only within the model bounds; concurrency sampled.",
    technique="TLA+ spec + TLC exhaustive check; state-graph-guided replay on the real lock manager; TLC trace validation"),
 "C15": dict(
    category="model_checking",
    text="TLC checks the SlottedPage specification (table_page.go transcribed with the real layout constants 4096/24/8) exhaustively for 3 slots (thorough: 4) over the size alphabet {1,16,1000,2028,4064} (4064 fills a fresh page) for NoOverlap, HeaderSafe, FreeExact and Isolation; every edge of the state graph (about 133k) is then performed on a real TablePage and outcome, slot array, free-space pointer, header fields and the decoded content of every row are validated by TLC; random sequences of 300 operations with arbitrary sizes 1..4064 are validated against the same spec. Heap level: spec/TableHeap (table_heap.go, table_heap_iterator.go: chains of slotted pages, InsertTuple page choice, UpdateTuple in place or moved, delete marks, iterator) is model-checked and bound to the code by random call sequences on a real TableHeap whose whole chain is projected after every call and judged by TLC (no other row changed, the call's own effect, Get and iterator answers; conformance to the mechanism counted separately).",
    design_ref="DESIGN.md section 5 C15",
    note="Trusted: TLC, the recording driver (harness/cmd/vdrive/page.go) and its payload encode/decode. Exhaustive within the alphabet and slot bound; arbitrary sizes sampled.",
    technique="TLA+ spec + TLC exhaustive check; state-graph-guided replay on a real TablePage; TLC trace validation of random operation sequences"),
 "C18": dict(
    category="model_checking",
    text="The encoding scheme is one width-parametric TLA+ definition (spec/KeyEncoding). TLC proves by enumeration at reduced width (all pairs of 6-bit integers, 1+5-bit non-NaN floats, strings <= 3 over 3 letters, row ids) order preservation, round trip, key dominance over the row-id suffix, distinctness and the ScanKey bounds; vectors recorded from the real Encode/Extract/Pack/Unpack functions at full width (boundaries, +-2^k(+-1), -0.0, denormals, infinities, prefix strings, extreme row ids, seeded random pairs) are judged by TLC, which evaluates the order requirement directly on the recorded bytes and compares them with the scheme; thorough adds a strided sweep in numeric order whose candidates TLC judges.",
    design_ref="DESIGN.md section 5 C18",
    note="A pure function is at the edge of this family: the all-values claim rests on the scheme being width-parametric plus sampled full-width vectors, not on enumerating 2^32 values. Trusted: TLC, the vector recorder (harness/cmd/vdrive/enc.go).",
    technique="TLA+ parametric scheme checked for all pairs at reduced width by TLC; TLC validation of recorded full-width vectors"),
 "C13": dict(
    category="model_checking",
    text="TLC checks the BufferPool specification (buffer_pool_manager.go, one action per critical section, victim choice abstracted) exhaustively for 1 and 2 frames x 3 page ids x 3 versions (thorough: 3 frames depth-bounded) for Coherent, PinSafe, FreshId, ReplacerPinFree, MappedRight, NonResidentOnDisk; the operation labels of every edge of a depth-bounded state graph are performed on a real BufferPoolManager, and random operation sequences run at pool sizes 1,2,3,4,8; TLC judges every recorded step on the recorded projection of the real pool (frames, page table, free list, replacer, reusable ids, disk) plus ghosts (latest version, live ids), and checks that the step is one the mechanism spec allows. Concurrent users: goroutines sharing a pool of (users + 1..3) frames allocate, fetch, stamp, re-read while pinned, flush, unpin and deallocate pages of their own; the merged history (one shared atomic counter) is judged by TLC (BufferPoolHistoryTrace: stale / moved / fresh / lost). The replacement policy itself is spec/ClockReplacer (clock_replacer.go, circular_list.go as coded: circular list, reference bits, the hand as an alias of the list head or the frozen next field of a removed node), model-checked with 4 and 6 frames (a pinned frame is never a victim, none twice, the hand always denotes a list node, Victim answers whenever there is a candidate; refinement of ReplacerContract.tla, the set-valued replacer that BufferPool.tla assumes); every edge of its 4-frame state graph is performed on a real ClockReplacer and random calls run with 4 and 16 frames, answers and sizes judged by TLC (ClockReplacerTrace; a candidate other than the spec's choice is a counted policy deviation, not a violation).",
    design_ref="DESIGN.md sections 0.1, 0.7 and 5 C13",
    note="Trusted: TLC, the driver (harness/cmd/vdrive/bpm.go), guarded VerifSnapshot accessor. Users follow the pool's contract. Sequential driver for the mechanism walks; replacement policy abstracted in BufferPool, concrete in ClockReplacer.",
    technique="TLA+ spec + TLC exhaustive check; graph-guided and random operation sequences on the real pool validated by TLC (state projection + invariants + step conformance)"),
 "C06": dict(
    category="model_checking",
    text="The SqlModel specification (L0 contract: tables as bags over ranked domains, predicate trees, reference Answer/Updated/Remove) is the oracle; the driver runs SQL on the real engine and TLC validates every recorded statement against it: an exhaustive family of conjunctions on an indexed column (before and after a statistics refresh, so scan and index plans) and seeded random scenarios over random schemas, duplicates, multi-page tables, AND/OR trees, projections in every order, DML with read-back.",
    design_ref="DESIGN.md section 5 C06",
    note="Trusted: TLC, the recording driver and its rank mapping (Go equality only). Not covered yet: NULLs, negative numbers, non-indexed columns. Trace validation only (SqlModel is not explored as a state space).",
    technique="TLA+ contract spec as oracle; TLC trace validation of recorded SQL executions"),
 "C03": dict(
    category="model_checking",
    text="SqlModel is the oracle (Abort restores the snapshot taken at Begin). Seeded serial histories on tables created through SQL and through the catalog API (skip-list, B-tree, unindexed columns; single- and multi-page heaps): committed work, a transaction of 1-4 statements (inserts, deletes, key-changing / growing / shrinking / relocating updates, repeated changes of one row) rolled back explicitly or because a statement aborted it, then the full probe battery (heap scan, every index by point lookup of every rank and by ordered range scans through the index API, SQL through the planner), committed work reusing the space, and the battery again; TLC validates every recorded answer.",
    design_ref="DESIGN.md section 5 C03",
    note="Trusted: TLC, recording driver. Serial histories only; hash and unique skip-list indexes not exercised; B-tree with short keys.",
    technique="TLA+ contract spec as oracle; TLC trace validation of recorded abort histories with index/heap probe batteries"),
 "C07": dict(
    category="model_checking",
    text="At every quiescent point of the C03-style histories (after committed and rolled-back inserts, deletes, key-changing and relocating updates, duplicate keys) the driver records, for every indexed column, the point lookup of every rank and ordered range scans through the index API together with a heap scan; TLC checks against SqlModel that a lookup returns exactly the rows whose column holds the key and a range scan exactly the in-range rows, each once, in key order.",
    design_ref="DESIGN.md section 5 C07",
    note="Trusted: TLC, recording driver. Index kinds: skip list, B-tree; restart agreement is exercised by the C09/C10 batteries.",
    technique="TLA+ contract spec as oracle; TLC trace validation of index-vs-heap probe batteries"),
 "C09": dict(
    category="model_checking",
    text="SqlModel is the oracle (a clean Shutdown+Reopen is a stutter). File-backed databases at pool sizes 16/32/128 frames: DDL through SQL and the catalog API (skip-list, B-tree, unindexed columns), DML, then 1-3 Shutdown()/reopen cycles interleaved with more work; after every reopen the full probe battery (heap scan, every index by point lookup of every rank and by ordered range scans through the index API, SQL through the planner with stale and refreshed statistics); TLC validates every recorded answer.",
    design_ref="DESIGN.md section 5 C09",
    note="Trusted: TLC, recording driver. Serial histories; B-tree with short keys; hash / unique skip list not exercised.",
    technique="TLA+ contract spec as oracle; TLC trace validation of recorded shutdown/reopen histories"),
 "C10": dict(
    category="model_checking",
    text="SqlModel is the oracle. Histories with 1-4 tables of 1-4 columns (all types, skip-list / B-tree / unindexed; every second table name has capital letters), DML, clean and crash-style stops with reopen, and CREATE TABLE after restarts; after every restart and every later CREATE each table is read by name (full scan + a predicate query) and TLC compares with the model, so a table that became unreachable, took another table's identifier or storage, or lost rows is reported.",
    design_ref="DESIGN.md section 5 C10",
    note="Trusted: TLC, recording driver. Crash-style stop = files closed without flushing, between statements. One open known finding (B-tree re-attach after a crash restart followed by a clean restart).",
    technique="TLA+ contract spec as oracle; TLC trace validation of recorded multi-table restart histories"),
 "C11": dict(
    category="model_checking",
    text="SqlModel.JoinAnswerBag (naive evaluation over all combinations of base rows) is the oracle. Seeded scenarios with two or three tables (join keys int/float/varchar from a small domain: duplicates, misses, empty tables, size asymmetry; fully indexed SQL tables and partially indexed catalog-API tables), equality joins in JOIN..ON and comma form, conjunctive filters on any table, select lists in any order, each batch under three statistics states so that hash joins (both orientations), index joins and nested-loop joins are all chosen; TLC compares every recorded answer as a bag with the reference.",
    design_ref="DESIGN.md section 5 C11",
    note="Trusted: TLC, recording driver. Plans are steered, not forced; NULL keys not exercised.",
    technique="TLA+ contract spec as oracle; TLC trace validation of recorded join queries under varying statistics"),
 "C14": dict(
    category="model_checking",
    text="Every statement event of the SQL drivers carries the vector of pinned pages before and after it; TLC (SqlModelTrace.PinCheck) requires the set of pinned pages to be unchanged by every statement that returned - successful, rejected by the planner, or aborted by a lock conflict - while the same trace is validated against SqlModel. Workloads in fixed pools: scans and index scans, inserts that allocate heap pages, relocating updates, deletes, hash / index / nested-loop joins, rolled-back transactions, statements aborted by a second transaction's row locks; a leak of one frame per statement also shows as pool exhaustion (C14.fail).",
    design_ref="DESIGN.md section 5 C14",
    note="Trusted: TLC, recording driver (GetPages() pin counts). Set of pinned pages compared (pin-count growth on the permanently pinned skip-list start node is measured and reported, not a violation). B-tree tables excluded (the embedded B-tree pins its own pages on first use).",
    technique="TLA+ trace validation: pin-set balance evaluated by TLC on every recorded statement of the SQL workloads"),
 "C17": dict(
    category="model_checking",
    text="Multimap (set of (key, row id) entries with Point / Range answers) is the oracle. The index objects of real tables (skip list, unique skip list, B-tree, hash; int / float / varchar keys incl. extremes, denormals, empty and 380-byte strings, hot duplicate keys, adjacent keys) are driven through the index.Index interface (row ids with page ids around the byte boundaries of the packed form: 255, 32767, 33023, 65535, 2^20, 2^24, 2^31-2) with insert-heavy then delete-heavy phases and key-changing updates; every 50 operations a battery of point lookups and full / bounded / half-open ordered scans; TLC validates every answer against Multimap. Concurrent clause: windows of 4 goroutines inserting / deleting / looking up on one shared index while ordered scans run, over never-touched sentinel entries; TLC decides with silent linearization steps whether each recorded history is explainable (atomic point operations; scans ordered, duplicate-free, containing everything present throughout and nothing never present). Mechanism level: spec/SkipList (L1: FindNode latch coupling and go-backward case, validateNoChangeAndGetLock, split, node removal, iterator, update counters, page ids handed out again; one action per latch acquisition) is model-checked for 2-3 threads with lookups / removals / scans judged against the abstract map at their linearization steps, each of six defect switches must produce a counterexample; it is bound to the code by SkipListTrace (the node structure - entries, levels, forward entries, counters - read back from the real pages after every call of random sequential sequences equals the specification's state) and by replaying the model's counterexample schedules on the real list through a gate hook (judged as call histories). spec/HashTable (L1: linear probing with wrap-around, tombstones) is model-checked for the multimap contract under the caller's obligation and bound to the code by comparing the slots of a real two-block table after every call, every second sequence under memory pressure (pages made clean before a call, every unpinned page pushed out of the pool after it).",
    design_ref="DESIGN.md sections 0.4, 0.7 and 5 C17",
    note="Trusted: TLC, recording drivers. Concurrency is sampled (seeds x GOMAXPROCS), windows of 160 calls, plus two replayed schedules; hash and unique kinds only sequentially. SkipList model: 4-5 keys, node capacity 3, 2 levels, <= 4 nodes; its latch protocol is not bound by latch-level traces. Open known findings: unique skip list over integer keys, B-tree ffff stopper.",
    technique="TLA+ contract spec as oracle + TLA+ mechanism spec of the skip list; TLC model checking with defect switches, TLC trace validation of recorded operation sequences and of the real node structure, TLC linearizability check of concurrent histories and of replayed counterexample schedules"),

 "C01": dict(
    category="model_checking",
    text="CrashModel is the oracle (Acceptable = committed table + any subset of the committing transactions). Seeded workloads of multi-statement transactions (small and 300-900-byte rows so that heaps grow, in-place / growing / shrinking / relocating updates, deletes, explicit aborts, conflict aborts between interleaved transactions, deletes of rows the transaction inserted itself, forced checkpoints; every twelfth workload is one transaction whose records fill more than one 528 KB log buffer between two flushes) run on file-backed databases at pools of 16/24/32/128 frames under the recording disk wrapper; for EVERY prefix of the I/O list after the DDL the crash image is materialised, the real NewSamehadaDB restarted on it, the table read back and a new statement tried, plus torn variants of the next log write; TLC validates the annotated trace: restart succeeded, every returned commit is reflected, new statements are accepted. Further workloads: heaps that grow without checkpoints in a large pool, a long eviction-heavy run in 16 frames, and one transaction that marks rows on 40 pages in a 16-frame pool (undo and commit over more pages than the pool holds); torn variants also of file-extending page writes; every leaf observation goes on - the restarted engine commits one more row, crashes and is restarted once more: the tables must be the same and that row must be there.",
    design_ref="DESIGN.md section 5 C01", note=COMMON,
    technique="TLA+ mechanism spec (WalRecovery) model-checked; TLA+ contract spec (CrashModel) as oracle for exhaustive crash-point enumeration per recorded workload (restart of the real engine on every I/O prefix), judged by TLC trace validation"),
 "C02": dict(
    category="model_checking",
    text="Same pipeline as C01; TLC checks on every crash image (and torn variant) that no recovered row was written by a transaction that was neither committed nor committing at that point (active, aborted, aborting), and that a committing transaction is entirely present or entirely absent. Workloads interleave two transactions on the same pages and slots, abort explicitly and by conflict, reuse slots after aborts, and push uncommitted changes to disk through small pools and checkpoints.",
    design_ref="DESIGN.md section 5 C02", note=COMMON,
    technique="TLA+ contract spec as oracle; crash-point enumeration with restart of the real engine, judged by TLC trace validation"),
 "C08": dict(
    category="model_checking",
    text="Every I/O call of the recorded workloads is an event of the CrashModel trace: a user-table page write must carry a page LSN that an earlier WriteLog made durable, a writing transaction's commit may return only after its COMMIT record was handed to WriteLog, and every WriteLog payload must parse (own strict parser) into complete records with increasing LSNs per transaction and an intact prevLSN chain; TLC evaluates these on every page write, log write and commit return of every workload (pools of 16-128 frames, forced checkpoints, evictions).",
    design_ref="DESIGN.md section 5 C08", note=COMMON + " Heap pages are identified from NewTablePage records and the table's first page; index pages reuse the LSN field as an update counter and are excluded. The page-LSN and log well-formedness rules are also checked on runs of 8 concurrent clients (GOMAXPROCS 4/16, small pools); commit-return ordering only in single-goroutine workloads.",
    technique="TLA+ trace validation of the recorded page-write / log-write / commit-return order against the write-ahead rules"),
 "C20": dict(
    category="model_checking",
    text="For the crash images of the C01 workloads the recovery run itself is recorded through the same disk wrapper and crashed again after each of its own I/O calls (including 'recovery repeated from the same image'); every nested image is restarted and read back (thorough: nesting depth 2); TLC requires each nested observation to lie in the Acceptable set frozen at the first crash: nothing committed is lost, nothing uncommitted appears, restart succeeds and accepts statements. Every nested observation goes on: the engine started on the nested image commits one more row, crashes and is started once more - the tables must be unchanged (recovery repeated after work) and the committed row present (clauses C20.repeat, C20.later).",
    design_ref="DESIGN.md section 5 C20", note=COMMON,
    technique="TLA+ contract spec as oracle; nested crash-point enumeration inside the recovery run, judged by TLC trace validation"),

 "C04": dict(
    category="model_checking",
    text="TxnModel is the oracle (a completed statement returns exactly the answer over committed data (+) its own transaction's earlier writes, or its transaction aborts). For seeded pairs of 1-3-statement programs over point / range / sequential reads, inserts, deletes, in-place, key-changing and relocating updates and updates answered by a sequential scan, on 3 rows, EVERY statement-level interleaving (incl. commit/abort positions) is executed on a fresh engine by one goroutine, plus sampled three-transaction schedules; after each schedule the committed table is read back through the scan and the index path. TLC validates every answer and classifies differences (dirty / hidden / wrong / final). In addition one schedule per edge of the TwoPL state graph (shortest path + the edge + an observation suffix) is executed, and under real goroutine concurrency 4 goroutines run transactions of their own whose merged invocation / return history is judged by TLC (TxnHistoryTrace: dirty / stale / own-write / hidden reads, final table).",
    design_ref="DESIGN.md section 5 C04",
    note="Trusted: TLC, the schedule driver, the shared atomic counter that orders the concurrent history. One open known finding (key-changing update hides the committed row from index lookups of other transactions).",
    technique="TLA+ mechanism spec (TwoPL) model-checked against the contract; TLA+ contract spec (TxnModel) as oracle for exhaustive statement-level interleavings of program pairs executed on the real engine, judged by TLC trace validation"),
 "C05": dict(
    category="model_checking",
    text="Same schedules as C04; TxnModel maintains, per schedule, which foreign row versions each transaction was shown and which it overwrote (every write stores a fresh version), and at the end of each schedule TLC checks that the dependency graph (wr, ww, rw edges; versions installed at commit) over the committed transactions is acyclic - no lost update, no unrepeatable read, no write skew on rows both read. The same graph is built and checked for the windows of concurrent goroutine transactions (TxnHistoryTrace).",
    design_ref="DESIGN.md section 5 C05",
    note="Trusted: TLC, the schedule driver. Statement granularity; phantoms excluded as documented by the property. Shares the open known finding of C04.",
    technique="TLA+ mechanism spec (TwoPL) model-checked for Acyclic; TLA+ contract spec with ghost dependency graph, acyclicity checked by TLC on every recorded schedule"),

 "C12": dict(
    category="model_checking",
    text="The RequestManager specification (request_manager.go + ExecuteSQL; clients with the enqueue / wake-send split, Run loop steps, workers with conflict aborts and re-queueing) is model-checked by TLC for OneReply, ExactlyOnce, WorkerBound and the liveness property Answered under weak fairness (3 clients, capacity 1; thorough: 4 clients, capacity 2, 2 workers) - with the pinned tree's unbuffered reply channel TLC finds the deadlock. On the code: the deadlock schedule is replayed with a gate hook and 103 callers (all must return), and windows of concurrent ExecuteSQL calls from 8 goroutines at GOMAXPROCS 1/4/16 (multi-row reads and conflicting multi-row updates with unique values, inserts of unique keys, a closing read) are recorded as invoke/return histories ordered by a shared atomic counter; TLC decides with silent linearization steps whether each history has a linearization (one result per call, its own; every effect exactly once; multi-row effects atomic; real-time order).",
    design_ref="DESIGN.md section 5 C12",
    note="Trusted: TLC, the history recorder. Go scheduling is sampled (seeds x GOMAXPROCS), not enumerated; windows of 160 calls (plain, wide and row-relocating); a call that does not return within 60 s is recorded and is a violation (C12.stuck).",
    technique="TLA+ mechanism spec model-checked (safety + liveness); gate-hook replay of the deadlock schedule; TLC linearizability check of recorded concurrent call histories"),
}

NOT_APPLICABLE = {
 "C19": "data-race freedom is a property of individual unsynchronised memory accesses under the Go memory model; a TLA+ specification bound by hooks at linearization points cannot observe them (DESIGN.md section 6)",
}

PENDING = "check not built yet in this round (see DESIGN.md section 9 build order); not claimed until it passes on the unchanged tree"

def main():
    props = [json.loads(l)["id"] for l in open(os.path.join(ROOT, "properties.jsonl"))]
    checks = []
    for pid in props:
        if pid not in CLAIMED:
            continue
        c = CLAIMED[pid]
        checks.append(dict(
            property_id=pid,
            quick_cmd="bin/check %s --tier quick" % pid,
            thorough_cmd="bin/check %s --tier thorough" % pid,
            evidence_file="/verif/evidence/%s.json" % pid,
            replay_cmd_template="bin/check %s --replay {path}" % pid,
            engine="tla-trace",
            level_claimed=dict(category=c["category"], text=c["text"], design_ref=c["design_ref"]),
            level_note=c["note"],
            technique=c["technique"]))
    na = []
    for pid in props:
        if pid in CLAIMED:
            continue
        na.append(dict(property_id=pid, reason=NOT_APPLICABLE.get(pid, PENDING)))
    try:
        commits = subprocess.check_output(["git", "-C", "/repo", "log", "--format=%H %s"], text=True).splitlines()
        hooks = [l.split()[0] for l in commits if l.split(" ", 1)[1].startswith("verif hook")]
    except Exception:
        hooks = []
    m = dict(
        version=1,
        setup_cmd="bin/setup.sh",
        hooks=dict(guard="verif", enable="go build -tags verif (harness/go.mod replaces github.com/ryogrid/SamehadaDB/lib => /repo/lib)",
                   baseline_off_cmd="bin/baseline_off.sh", source_commits=hooks, add_only=True),
        engines=[dict(name="tla-trace", path="bin/check", serves_properties=[c["property_id"] for c in checks],
                      kind_free_text="explicit TLA+ specifications under spec/, model-checked by TLC; Go drivers (harness/) replay TLC state graphs on the real code and record ndjson traces that TLC validates against the same specifications")],
        checks=checks,
        notes="Go is hands and eyes, TLA+ is the judge: every verdict is a TLC result on a specification under spec/. known_findings.json lists genuine defects of the pinned tree (open / fixed).",
        not_applicable=na)
    json.dump(m, open(os.path.join(ROOT, "MANIFEST.json"), "w"), indent=1)
    print("checks:", [c["property_id"] for c in checks])

if __name__ == "__main__":
    main()
