#!/usr/bin/env python3
"""Compact view of a TLC counterexample of spec/SkipList (debug aid): one line per state."""
import re, sys
s = open(sys.argv[1]).read()
states = s.split('\nState ')[1:]
frm = int(sys.argv[2]) if len(sys.argv) > 2 else 1
for st in states:
    num = int(st.split(':')[0])
    if num < frm:
        continue
    out = []
    for m in re.finditer(r'(t\d) :>\s*\[(.*?)\]\s*(?:@@|\))', st, re.S):
        body = m.group(2)
        g = lambda k: (re.search(k + r' \|-> ("?[-\w<>, ]*"?)', body) or [None, '?'])[1]
        if '"' + 'idle' + '"' in g('pc'):
            out.append("%s idle" % m.group(1))
        else:
            out.append("%s %s k=%s pc=%s ii=%s pred=%s curr=%s pop=%s" % (m.group(1), g('op'), g('key'), g('pc'), g('ii'), g('pred'), g('curr'), g('pop')))
    nodes = []
    for m in re.finditer(r'(\d+) :>\s*\[ keys \|-> (\{[^}]*\}),\s*st \|-> "(\w+)",.*?level \|-> (\d+),\s*fwd \|-> (<<[^>]*>>),\s*ctr \|-> (\d+)', st, re.S):
        if m.group(3) != "free":
            nodes.append("%s%s%s L%s f%s c%s" % (m.group(1), "" if m.group(3) == "live" else "(" + m.group(3) + ")", m.group(2), m.group(4), m.group(5), m.group(6)))
    print(num, " | ".join(out), "||", "  ".join(nodes))
