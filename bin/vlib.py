"""Shared machinery for /verif/bin/check: build, TLC runs, dot graphs, trace validation, evidence.

Division of labour (DESIGN.md section 1): Go drivers (harness/) are hands and eyes, the TLA+
specifications under spec/ are the judge.  Nothing in this file decides whether the engine behaved
correctly; it only runs TLC and reads TLC's verdicts.
"""
import json, os, re, shutil, subprocess, sys, time, collections, random

ROOT = os.path.dirname(os.path.dirname(os.path.abspath(__file__)))
SPEC = os.path.join(ROOT, "spec")
HARNESS = os.path.join(ROOT, "harness")
VDRIVE = os.path.join(HARNESS, "bin", "vdrive")
GOENV = dict(GOFLAGS="-mod=mod", GOPROXY="off", GOSUMDB="off", GOTOOLCHAIN="local")
TLA_CP = "/opt/veriftools/tla/tla2tools.jar:/opt/veriftools/tla/CommunityModules-deps.jar"


class Inconclusive(Exception):
    """exit 2: the machinery could not reach a verdict (build failure, TLC trouble, dead driver)."""


def log(*a):
    print(*a, file=sys.stderr, flush=True)


class Ctx:
    """One check run: scratch dir, timing, evidence accumulation, violation bookkeeping."""

    def __init__(self, prop, tier, seed):
        self.prop, self.tier, self.seed = prop, tier, seed
        self.t0 = time.time()
        self.work = os.path.join(ROOT, ".work", "%s-%s-%d" % (prop, tier, os.getpid()))
        shutil.rmtree(self.work, ignore_errors=True)
        os.makedirs(self.work)
        self.states = 0
        self.transitions = 0
        self.traces = 0
        self.events = 0
        self.samples = []
        self.cov = {}
        self.cmds = []
        self.assumptions = []
        self.violations = []      # (tag, description, replay path)
        self.known = []           # (finding id, description)
        self.tlc_runs = []

    def sub(self, name):
        d = os.path.join(self.work, name)
        os.makedirs(d, exist_ok=True)
        return d

    def cleanup(self):
        shutil.rmtree(self.work, ignore_errors=True)


# ---------------------------------------------------------------------------------------------
def run(cmd, cwd=None, env=None, timeout=None, check=False, stdout=subprocess.PIPE, stderr=subprocess.STDOUT):
    e = dict(os.environ)
    if env:
        e.update(env)
    try:
        p = subprocess.run(cmd, cwd=cwd, env=e, timeout=timeout, stdout=stdout, stderr=stderr,
                           shell=isinstance(cmd, str), text=True, errors="replace")
    except subprocess.TimeoutExpired as ex:
        out = ex.stdout if isinstance(ex.stdout, str) else (ex.stdout or b"").decode("utf8", "replace")
        return 124, out
    if check and p.returncode != 0:
        raise Inconclusive("command failed (%d): %s\n%s" % (p.returncode, cmd, (p.stdout or "")[-4000:]))
    return p.returncode, p.stdout or ""


_built = False


def build_harness(ctx=None):
    """Rebuild the driver binary from /repo's current working tree with the hooks on."""
    global _built, VDRIVE
    if _built:
        return
    alt = os.environ.get("VERIF_REPO")
    if alt and os.path.abspath(alt) != "/repo":
        # seeded-change testing without touching /repo: the drivers are built against another checkout (a scratch
        # worktree with the change applied), from a scratch copy of the harness module; registered commands never set this
        work = ctx.work if ctx else "/tmp"
        hcopy = os.path.join(work, "harness-alt")
        shutil.rmtree(hcopy, ignore_errors=True)
        shutil.copytree(HARNESS, hcopy, ignore=shutil.ignore_patterns("bin"))
        gm = open(os.path.join(hcopy, "go.mod")).read().replace("=> /repo/lib", "=> %s/lib" % os.path.abspath(alt))
        open(os.path.join(hcopy, "go.mod"), "w").write(gm)
        shutil.copyfile(os.path.join(alt, "lib", "go.sum"), os.path.join(hcopy, "go.sum"))
        out_bin = os.path.join(work, "vdrive-alt")
        rc, out = run(["go", "build", "-tags", "verif", "-o", out_bin, "./cmd/vdrive"], cwd=hcopy, env=GOENV, timeout=900)
        if rc != 0:
            raise Inconclusive("harness build against %s failed:\n%s" % (alt, out[-6000:]))
        VDRIVE = out_bin
        _built = True
        return
    os.makedirs(os.path.join(HARNESS, "bin"), exist_ok=True)
    shutil.copyfile("/repo/lib/go.sum", os.path.join(HARNESS, "go.sum"))
    # serialise concurrent builds (several checks may start at once)
    import fcntl
    lk = open(os.path.join(HARNESS, "bin", ".lock"), "w")
    fcntl.flock(lk, fcntl.LOCK_EX)
    try:
        rc, out = run(["go", "build", "-tags", "verif", "-o", VDRIVE, "./cmd/vdrive"], cwd=HARNESS, env=GOENV,
                      timeout=900)
    finally:
        fcntl.flock(lk, fcntl.LOCK_UN)
    if rc != 0:
        raise Inconclusive("harness build failed:\n" + out[-6000:])
    if ctx:
        ctx.cmds.append("go build -tags verif -o harness/bin/vdrive ./cmd/vdrive  (replace => /repo/lib)")
    _built = True


def vdrive(ctx, args, timeout=1800, env=None, ok_codes=(0,)):
    build_harness(ctx)
    e = dict(GOENV)
    e["VERIF_SEED"] = str(ctx.seed)
    if env:
        e.update(env)
    t = time.time()
    rc, out = run([VDRIVE] + [str(a) for a in args], cwd=ctx.work, env=e, timeout=timeout)
    ctx.cmds.append("vdrive " + " ".join(str(a) for a in args))
    if rc not in ok_codes:
        raise Inconclusive("driver failed rc=%d: vdrive %s\n%s" % (rc, " ".join(map(str, args)), out[-6000:]))
    log("  vdrive %s: %.1fs" % (args[0], time.time() - t))
    return out


# ---------------------------------------------------------------------------------------------
RE_STATES = re.compile(r"(\d+) states generated, (\d+) distinct states found, (\d+) states left")
RE_DEPTH = re.compile(r"The depth of the complete state graph search is (\d+)")


def tlc(ctx, family, module, cfg, workers="auto", extra=(), env=None, timeout=1800, jvm=(), name=None,
        deadlock=True):
    """Run TLC on spec/<family>/<module>.tla in a scratch copy.  Returns dict(rc, out, generated, distinct, depth)."""
    name = name or (module + "-" + os.path.splitext(os.path.basename(cfg))[0])
    d = os.path.join(ctx.work, "tlc-" + name)
    if os.path.exists(d):
        shutil.rmtree(d)
    shutil.copytree(os.path.join(SPEC, family), d)
    # shared modules
    for f in os.listdir(os.path.join(SPEC, "common")) if os.path.isdir(os.path.join(SPEC, "common")) else []:
        shutil.copyfile(os.path.join(SPEC, "common", f), os.path.join(d, f))
    meta = os.path.join(d, "meta")
    jtmp = os.path.join(d, "jtmp")   # TLC's tlc-<n> scratch directories go here, not to /tmp
    os.makedirs(jtmp, exist_ok=True)
    cmd = ["java", "-XX:+UseParallelGC", "-Xss512m", "-Djava.io.tmpdir=" + jtmp] + list(jvm) + ["-cp", TLA_CP, "tlc2.TLC",
           "-workers", str(workers), "-metadir", meta, "-config", cfg] + list(extra) + [module + ".tla"]
    if not deadlock:
        cmd.insert(-1, "-deadlock")
    t = time.time()
    rc, out = run(cmd, cwd=d, env=env, timeout=timeout)
    open(os.path.join(d, "tlc.out"), "w").write(out)
    res = dict(rc=rc, out=out, dir=d, generated=0, distinct=0, depth=0, wall=time.time() - t, name=name)
    m = RE_STATES.findall(out)
    if m:
        res["generated"], res["distinct"] = int(m[-1][0]), int(m[-1][1])
    if not m:
        ms = re.findall(r"The number of states generated: (\d+)", out)   # simulation mode
        if ms:
            res["generated"] = int(ms[-1])
    m = RE_DEPTH.findall(out)
    if m:
        res["depth"] = int(m[-1])
    ctx.states += res["distinct"]
    ctx.transitions += res["generated"]
    ctx.tlc_runs.append(dict(name=name, rc=rc, generated=res["generated"], distinct=res["distinct"],
                             depth=res["depth"], wall_s=round(res["wall"], 2)))
    ctx.cmds.append("tlc -workers %s -config %s %s %s.tla" % (workers, cfg, " ".join(extra), module))
    shutil.rmtree(meta, ignore_errors=True)
    shutil.rmtree(jtmp, ignore_errors=True)
    if rc == 124:
        raise Inconclusive("TLC timed out: %s %s" % (module, cfg))
    if "java.lang.OutOfMemoryError" in out or "StackOverflowError" in out:
        raise Inconclusive("TLC resource failure: %s %s\n%s" % (module, cfg, out[-3000:]))
    log("  tlc %s: rc=%d generated=%d distinct=%d %.1fs" % (name, rc, res["generated"], res["distinct"], res["wall"]))
    return res


def model_check(ctx, family, module, cfg, **kw):
    """Exhaustive TLC run that is expected to find no error; anything else is inconclusive for the
    implementation (a model counterexample is a fact about the model, not the code) unless a caller
    replays it."""
    r = tlc(ctx, family, module, cfg, **kw)
    if r["rc"] != 0:
        raise Inconclusive("model check %s/%s %s did not pass (rc=%d):\n%s" % (family, module, cfg, r["rc"], r["out"][-5000:]))
    return r


def tlaps(ctx, family, module, timeout=900):
    """Check a TLAPS proof module (scratch copy; tlapm litters .tlacache).  A proof that does not go through says
    something about the specification, not about the code: inconclusive."""
    d = os.path.join(ctx.work, "tlaps-" + module)
    shutil.rmtree(d, ignore_errors=True)
    os.makedirs(d)
    for src in (os.path.join(ROOT, "spec", family), os.path.join(ROOT, "spec", "common")):
        for f in os.listdir(src):
            if f.endswith(".tla"):
                shutil.copy(os.path.join(src, f), d)
    t0 = time.time()
    rc, out = run(["tlapm", "--threads", "16", module + ".tla"], cwd=d, timeout=timeout)
    m = re.search(r"All (\d+) obligations? proved", out)
    log("  tlapm %s: rc=%d %s %.1fs" % (module, rc, m.group(0) if m else "NOT PROVED", time.time() - t0))
    ctx.cmds.append("tlapm --threads 16 %s.tla" % module)
    shutil.rmtree(d, ignore_errors=True)
    if rc != 0 or not m:
        raise Inconclusive("TLAPS proof %s/%s did not go through:\n%s" % (family, module, out[-3000:]))
    return int(m.group(1))


# ---------------------------------------------------------------------------------------------
RE_NODE = re.compile(r'^(-?\d+) \[label="((?:[^"\\]|\\.)*)"')
RE_EDGE = re.compile(r'^(-?\d+) -> (-?\d+) \[label="((?:[^"\\]|\\.)*)"')


def parse_dot(path):
    """TLC '-dump dot,actionlabels' file -> (init ids, {id: label}, [(src, dst, action label)])."""
    nodes, edges, inits = {}, [], []
    with open(path, errors="replace") as f:
        for line in f:
            m = RE_EDGE.match(line)
            if m:
                edges.append((m.group(1), m.group(2), m.group(3).replace('\\"', '"')))
                continue
            m = RE_NODE.match(line)
            if m:
                if m.group(1) not in nodes:
                    nodes[m.group(1)] = m.group(2).replace("\\n", "\n").replace('\\"', '"').replace("\\\\", "\\")
                if "style = filled" in line:
                    inits.append(m.group(1))
    return inits, nodes, edges


def edge_cover(inits, edges, rng=None, max_walk=400, budget=None):
    """Walks (lists of action labels, each starting at the initial state) that together take every
    edge of the graph at least once.  Requires label-determinism per source node for replay on the real
    object; duplicates (same src,label) are collapsed."""
    init = inits[0]
    out = collections.defaultdict(dict)       # src -> label -> dst
    for s, d, l in edges:
        out[s].setdefault(l, d)
    todo = {(s, l) for s in out for l in out[s]}
    total = len(todo)
    walks = []
    while todo:
        cur, walk = init, []
        while len(walk) < max_walk:
            # take an untaken edge here if any
            cand = [l for l in out[cur] if (cur, l) in todo]
            if cand:
                l = rng.choice(sorted(cand)) if rng else sorted(cand)[0]
                todo.discard((cur, l))
                walk.append(l)
                cur = out[cur][l]
                continue
            # BFS to nearest node with an untaken edge
            prev = {cur: None}
            q = collections.deque([cur])
            target = None
            while q:
                n = q.popleft()
                if any((n, l) in todo for l in out[n]):
                    target = n
                    break
                for l, d in out[n].items():
                    if d not in prev:
                        prev[d] = (n, l)
                        q.append(d)
            if target is None:
                break
            path = []
            n = target
            while prev[n] is not None:
                p, l = prev[n]
                path.append(l)
                n = p
            path.reverse()
            if len(walk) + len(path) + 1 > max_walk and walk:
                break
            for l in path:
                walk.append(l)
                cur = out[cur][l]
        if not walk:
            break  # unreachable remainder
        walks.append(walk)
        if budget and sum(len(w) for w in walks) > budget:
            break
    return walks, total, total - len(todo)


RE_LABEL = re.compile(r"^(\w+)(?:\((.*)\))?$")


def parse_label(l):
    m = RE_LABEL.match(l.strip())
    if not m:
        raise Inconclusive("cannot parse action label %r" % l)
    args = []
    if m.group(2) is not None and m.group(2) != "":
        # split on top-level commas
        depth, cur = 0, ""
        for ch in m.group(2):
            if ch in "([{<":
                depth += 1
            elif ch in ")]}>":
                depth -= 1
            if ch == "," and depth == 0:
                args.append(cur.strip())
                cur = ""
            else:
                cur += ch
        args.append(cur.strip())
    args = [a.strip('"') for a in args]
    return m.group(1), args


# ---------------------------------------------------------------------------------------------
def validate(ctx, family, module, cfg, trace, env=None, name=None, timeout=1800, workers=1, jvm=()):
    """Trace validation with a deterministic trace spec (DESIGN.md 3.4 mode 2).

    The trace spec consumes the ndjson trace line by line, appends <<tag, line, info>> to `viol`
    whenever the recorded execution departs from the specification, and on the last line writes
    [viol, lines] with JsonSerialize to $VOUT.  Returns dict(consumed, lines, viol, tlc)."""
    vout = os.path.join(ctx.work, "vout-%s.json" % (name or os.path.basename(trace)))
    if os.path.exists(vout):
        os.remove(vout)
    e = dict(TRACE=os.path.abspath(trace), VOUT=vout)
    if env:
        e.update(env)
    n = 0
    resets = 0
    with open(trace) as f:
        for line in f:
            n += 1
            if '"ev":"Reset"' in line or '"ev": "Reset"' in line:
                resets += 1
    r = tlc(ctx, family, module, cfg, workers=workers, env=e, name=name or ("val-" + os.path.basename(trace)),
            timeout=timeout, jvm=jvm)
    res = dict(tlc=r, lines=n, consumed=False, viol=[], reached=max(r["depth"] - 1, 0))
    if os.path.exists(vout):
        try:
            j = json.load(open(vout))
        except Exception as ex:
            raise Inconclusive("cannot read validator output %s: %s" % (vout, ex))
        res["viol"] = j.get("viol", [])
        res["consumed"] = (j.get("lines") == n)
        res["extra"] = j
    if not res["consumed"]:
        if r["rc"] != 0 and "Error:" in r["out"] and res["reached"] == 0 and "is not enabled" not in r["out"]:
            # parse / evaluation error before anything was consumed: machinery trouble
            pass
    ctx.traces += max(resets, 1)
    ctx.events += n
    return res


def vdrive_resumable(ctx, args, trace, timeout=3000, env=None, max_parts=12):
    """Run a scenario driver whose watchdog ends the process (exit 3) after recording a hang; resume behind the hung
    scenario (VERIF_START, scenario index from the last Reset event) and concatenate the parts into `trace`."""
    parts, start = [], 0
    idx = args.index(trace)
    while len(parts) < max_parts:
        p = "%s.part%d" % (trace, len(parts))
        a = list(args); a[idx] = p
        e = dict(env or {}); e["VERIF_START"] = str(start)
        vdrive(ctx, a, timeout=timeout, env=e, ok_codes=(0, 3))
        parts.append(p)
        last_sc, hung = None, False
        for ev in read_ndjson(p):
            if ev.get("ev") == "Reset" and "sc" in ev:
                last_sc = ev["sc"]
            hung = str(ev.get("res", "")).startswith("hang")
        if hung and last_sc is not None and last_sc >= start:
            start = last_sc + 1
            continue
        break
    with open(trace, "w") as out:
        for p in parts:
            out.write(open(p).read())
            os.remove(p)
    return len(parts)


def read_ndjson(path, limit=None):
    out = []
    with open(path) as f:
        for i, line in enumerate(f):
            if limit is not None and i >= limit:
                break
            try:
                out.append(json.loads(line))
            except ValueError:
                if line.endswith("\n"):
                    raise
                break   # the last line of a trace whose writer was killed (watchdog exit) may be cut short
    return out


# ---------------------------------------------------------------------------------------------
def load_known():
    p = os.path.join(ROOT, "known_findings.json")
    if not os.path.exists(p):
        return []
    return json.load(open(p)).get("findings", [])


def save_replay(ctx, name, payload, files=()):
    """Keep a self-contained replay directory for a violation."""
    d = os.path.join(ROOT, "replays", "%s-%s-seed%d-%s" % (ctx.prop, ctx.tier, ctx.seed, name))
    shutil.rmtree(d, ignore_errors=True)
    os.makedirs(d)
    for f in files:
        if f and os.path.exists(f):
            shutil.copy(f, d)
    json.dump(payload, open(os.path.join(d, "replay.json"), "w"), indent=1, default=str)
    return os.path.join(d, "replay.json")


def write_evidence(ctx, level, coverage, assumptions):
    cov = dict(coverage)
    cov.setdefault("tlc_runs", ctx.tlc_runs)
    cov.setdefault("commands", ctx.cmds[:40])
    ev = dict(property_id=ctx.prop, tier=ctx.tier, seed=ctx.seed, level=level, coverage=cov,
              assumptions=assumptions, wall_s=round(time.time() - ctx.t0, 2),
              violations=len(ctx.violations))
    os.makedirs(os.path.join(ROOT, "evidence"), exist_ok=True)
    p = os.path.join(ROOT, "evidence", ctx.prop + ".json")
    tmp = p + ".tmp%d" % os.getpid()
    json.dump(ev, open(tmp, "w"), indent=1, default=str)
    os.replace(tmp, p)
    return p
