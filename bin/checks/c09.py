"""C09 - a clean shutdown and reopen changes nothing observable; C10 - tables keep identity, schema and
data across restarts.

Oracle: spec/SqlModel (Shutdown+Reopen and Crash+Reopen with no transaction in progress are stutters).
File-backed databases (pool sizes 16/32/128 frames for C09, 64/128/256 for C10): DDL (through SQL and
through catalog.CreateTable with skip-list, B-tree and unindexed columns) and DML, then 1-3
stop/reopen cycles interleaved with more work.  C09: clean Shutdown() only, after every reopen the
full probe battery (heap scan, every index by point and ordered range through the index API, SQL
through the planner, with stale and refreshed statistics).  C10: 1-4 tables with 1-4 columns, clean and
crash-style stops, CREATE TABLE after restarts; after every restart and every later CREATE each table is
read by name."""
import os, shutil, collections, json, random
import vlib
from vlib import Inconclusive
from . import register
from .common import judge, count_events

FAM = "SqlModel"


def run(ctx, prop, nscen):
    vlib.build_harness(ctx)
    tr = os.path.join(ctx.work, prop.lower() + ".ndjson")
    scratch = "/dev/shm/verif-%s-%d" % (prop, os.getpid())
    shutil.rmtree(scratch, ignore_errors=True)
    try:
        vlib.vdrive_resumable(ctx, ["sql", "c09", tr, nscen, scratch, prop], tr, timeout=3000)
    finally:
        shutil.rmtree(scratch, ignore_errors=True)
    res = vlib.validate(ctx, FAM, "SqlModelTrace", "Trace.cfg", tr, name="val-" + prop.lower(), timeout=3400)
    judge(ctx, res, tr, "restart histories")
    c = count_events(tr)
    need = ("Create", "Insert", "Select", "Reopen", "Shutdown") + (("Crash",) if prop == "C10" else ("IdxPoint", "IdxRange"))
    for k in need:
        if c[k] == 0:
            raise Inconclusive("vacuous: no %s events" % k)
    ev = [e for e in vlib.read_ndjson(tr, limit=600) if e["ev"] in ("Shutdown", "Reopen", "Crash", "Create")][:6]
    ctx.samples.append(dict(kind="events (sample)", events=[{k: v for k, v in e.items() if k not in ("pb", "pa")} for e in ev]))
    return tr, c


@register("C09")
def check_c09(ctx):
    tr, c = run(ctx, "C09", 1200 if ctx.tier == "thorough" else 60)
    vlib.write_evidence(ctx, "model_checking", dict(
        states=ctx.states, transitions=ctx.transitions, traces_validated_against_impl=ctx.traces,
        samples=ctx.samples, exhaustive=False, events=dict(c), events_validated=ctx.events),
        ["serial histories; index kinds skip list and B-tree (short keys); pools of 16, 32 and 128 frames",
         "TLC trace validation against SqlModel"])


def catalog_design(ctx):
    """Design level (spec/Catalog): identity, schema and index attachment across graceful and crash-style restarts."""
    vlib.model_check(ctx, "Catalog", "Catalog", "MC_fixed.cfg", workers=8)        # the tree as repaired: all invariants hold
    vlib.model_check(ctx, "Catalog", "Catalog", "MC_coded_skip.cfg", workers=8)   # pinned header-page handling, but no B-tree indexes
    r = vlib.tlc(ctx, "Catalog", "Catalog", "MC_coded.cfg", workers=4, name="Catalog-as-coded")
    if r["rc"] == 0 or not ("RestartsSucceed" in r["out"] or "IndexFresh" in r["out"]):
        raise Inconclusive("the Catalog model with the pinned tree's header-page handling (FixHdr = FALSE) no longer fails: the model lost its sensitivity")
    r = vlib.tlc(ctx, "Catalog", "Catalog", "MC_oid.cfg", workers=4, name="Catalog-oid-defect")
    if r["rc"] == 0 or "Identity" not in r["out"]:
        raise Inconclusive("the Catalog model with the pinned tree's nextTableID reload no longer fails: the model lost its sensitivity")


def catalog_walks(ctx):
    """spec -> code: restart histories that take every edge of the Catalog state graph, on file-backed databases."""
    dot = os.path.join(ctx.work, "catalog.dot")
    vlib.model_check(ctx, "Catalog", "Catalog", "MC_walk.cfg", workers=1, extra=["-dump", "dot,actionlabels", dot], name="graph-catalog")
    inits, nodes, edges = vlib.parse_dot(dot)
    os.remove(dot)
    walks, total, covered = vlib.edge_cover(inits, edges, rng=random.Random(ctx.seed), max_walk=40)
    if covered < total:
        raise Inconclusive("walker covered %d of %d edges" % (covered, total))
    ops = [[[a] + args for a, args in (vlib.parse_label(l) for l in w)] for w in walks]
    if ctx.tier != "thorough":                      # quick: a seeded third of the histories
        random.Random(ctx.seed).shuffle(ops)
        ops = ops[:max(40, len(ops) // 3)]
    wf = os.path.join(ctx.work, "catalog-walks.json")
    json.dump(ops, open(wf, "w"))
    tr = os.path.join(ctx.work, "c10walk.ndjson")
    scratch = "/dev/shm/verif-C10w-%d" % os.getpid()
    shutil.rmtree(scratch, ignore_errors=True)
    try:
        vlib.vdrive(ctx, ["sql", "c10walk", wf, tr, scratch], timeout=3000, ok_codes=(0, 3))
    finally:
        shutil.rmtree(scratch, ignore_errors=True)
    res = vlib.validate(ctx, FAM, "SqlModelTrace", "Trace.cfg", tr, name="val-c10walk", timeout=3400)
    judge(ctx, res, tr, "restart histories from the Catalog state graph")
    return dict(graph_states=len(nodes), graph_edges=total, histories_total=len(walks), histories_run=len(ops),
                events=dict(count_events(tr)))


@register("C10")
def check_c10(ctx):
    catalog_design(ctx)
    wcov = catalog_walks(ctx)
    tr, c = run(ctx, "C10", 1200 if ctx.tier == "thorough" else 60)
    vlib.write_evidence(ctx, "model_checking", dict(
        states=ctx.states, transitions=ctx.transitions, traces_validated_against_impl=ctx.traces,
        samples=ctx.samples, exhaustive=False, events=dict(c), events_validated=ctx.events, catalog_graph_histories=wcov,
        design_model="Catalog.tla (2 table names x {skip list, B-tree}, 3 stops, graceful and crash-style; Identity, UniqueOids, RestartsSucceed, IndexFresh): repaired model and as-coded model without B-trees pass; as-coded with B-trees exhibits KF-C10; the pinned tree's nextTableID reload violates Identity"),
        ["crash-style stops are ShutdownForTescase (files closed, nothing flushed) between statements; crash points inside statements belong to C01/C02",
         "TLC trace validation against SqlModel"])
