import collections, json, os
import vlib
from vlib import Inconclusive, log


def judge(ctx, res, trace, what, prefixes=None):
    """Turn a validation result into violations / known findings.  `res` comes from vlib.validate."""
    prefixes = prefixes or [ctx.prop + "."]
    known = {k["id"]: k for k in vlib.load_known() if k.get("status") == "open"}
    if not res["consumed"]:
        out = res["tlc"]["out"]
        # a trace that cannot be consumed is a structural rejection by the specification, unless TLC
        # itself failed before reading anything
        if res["reached"] <= 0 and ("Error:" in out or "Exception" in out):
            raise Inconclusive("trace validation of %s failed to start:\n%s" % (what, out[-3000:]))
        lines = vlib.read_ndjson(trace, limit=res["reached"] + 1)
        nxt = lines[res["reached"]] if len(lines) > res["reached"] else None
        replay = vlib.save_replay(ctx, "rejected", dict(what=what, reached=res["reached"], next_event=nxt,
                                                        tlc_tail=out[-3000:]), files=[trace])
        ctx.violations.append((ctx.prop + ".rejected", "%s: trace rejected after line %d; next event %s" % (
            what, res["reached"], json.dumps(nxt)[:300]), replay))
        return
    mine = [v for v in res["viol"] if any(v["tag"].startswith(p) for p in prefixes)]
    new = []
    for v in mine:
        kf = v.get("kf", "new")
        if kf != "new" and kf in known:
            if not any(k[0] == kf for k in ctx.known):
                ctx.known.append((kf, known[kf].get("what", "")))
        else:
            new.append(v)
    if new:
        lines = vlib.read_ndjson(trace)
        first = new[0]
        ln = first.get("line", 0)
        ctxlines = lines[max(0, ln - 6):ln]
        replay = vlib.save_replay(ctx, first["tag"].replace(".", "_"),
                                  dict(what=what, violations=new[:50], events_before=ctxlines), files=[trace])
        by = collections.Counter(v["tag"] for v in new)
        ctx.violations.append((first["tag"], "%s: %s; first at line %d: %s" % (
            what, dict(by), ln, json.dumps(first.get("info"))[:400]), replay))


def count_events(trace, key="ev"):
    c = collections.Counter()
    with open(trace) as f:
        for line in f:
            try:
                c[json.loads(line).get(key)] += 1
            except Exception:
                pass
    return c
