"""Crash family: C01 (durability), C02 (atomicity), C08 (write-ahead discipline), C20 (interrupted and
repeated recovery).

Oracle: spec/CrashModel (Acceptable = committed table + any subset of the committing transactions;
durable log / page-LSN / commit-return rules).  Pipeline (DESIGN.md 3.4 mode 3):
 1. `vdrive crash run`: seeded workloads of multi-statement transactions (inserts of small and 300-900
    byte rows so that heaps grow, in-place and growing/shrinking/relocating updates, deletes, explicit
    aborts, conflict aborts between two interleaved transactions, forced checkpoints) on a file-backed
    database at several pool sizes, with the recording disk wrapper (hook H1) - driver events and I/O
    events in one ordered trace;
 2. `vdrive crash probe`: for EVERY prefix of the I/O list after the DDL, the crash image is materialised
    and the real NewSamehadaDB is started on it, the table is read back and a new statement is tried;
    torn variants of the next log write (cut inside the first header, at the header end, mid-record,
    one byte short); nested: every prefix of the recovery run's own I/O is crashed again (C20);
 3. the observations are attached to the I/O events and TLC validates the whole trace against CrashModel."""
import json, os, shutil, collections, subprocess, concurrent.futures
import vlib
from vlib import Inconclusive, log
from .common import judge, count_events

FAM = "CrashModel"
POOLS = [64, 96, 128, 512]          # KB: 16, 24, 32, 128 frames


def one_workload(ctx, idx, memkb, scratch, depth, torn, nest_every):
    wdir = os.path.join(scratch, "w%d" % idx)
    os.makedirs(wdir, exist_ok=True)
    tr = os.path.join(ctx.work, "crash-%d.ndjson" % idx)
    ops = os.path.join(ctx.work, "crash-%d.ops" % idx)
    env = dict(vlib.GOENV)
    env["VERIF_SEED"] = str(ctx.seed * 1000 + idx)
    if (ctx.prop == "C20" and idx % 2 == 1) or (ctx.prop in ("C01", "C02") and idx % 3 == 2):
        # growth without checkpoints in a large pool: heap pages that never reach the db file before the first crash, so
        # that recovery re-creates whole chains of pages (and can be interrupted between their writes)
        env["VERIF_CRASH_MODE"] = "grow"
        memkb = 512
    if ctx.prop in ("C01", "C02") and idx % 6 == 5:
        # one longer workload in the smallest pool with large rows: the heap outgrows the pool, so new heap pages are
        # written back by evictions - page writes that extend the db file (and their torn variants)
        env["VERIF_CRASH_STEPS"] = "70"
        env.pop("VERIF_CRASH_MODE", None)
        memkb = 64
    if ctx.prop in ("C01", "C02") and idx % 6 == 4:
        # a heap of ~40 pages in 16 frames and one transaction that marks rows on all of them: undo (abort, recovery) and
        # commit of a transaction that touched more pages than the pool holds (only the key column is indexed there)
        env["VERIF_CRASH_MODE"] = "wide"
        memkb = 64
        depth = 0   # (recovery of this workload writes ~60 pages; crash points inside it are C20's business, on the other workloads)
    if ctx.prop in ("C01", "C02", "C08") and idx % 12 == 9:
        # one transaction whose records fill more than one log buffer (528 KB) without a flush in between, in a pool that
        # never evicts, on a table without indexes: the append path behind a full buffer, and a commit flush of ~100 KB
        env["VERIF_CRASH_MODE"] = "big"
        env.pop("VERIF_CRASH_STEPS", None)
        memkb = 4096
        depth = 0
    rc, out = vlib.run([vlib.VDRIVE, "crash", "run", wdir, tr, ops, str(memkb)], cwd=ctx.work, env=env, timeout=300)
    if rc != 0:
        raise Inconclusive("crash run failed rc=%d\n%s" % (rc, out[-2000:]))
    ev = vlib.read_ndjson(tr)
    io0 = [e for e in ev if e["ev"] == "Ddl"][0]["io0"]
    pf = [e for e in ev if e["ev"] == "ProbeFrom"]
    if pf:
        io0 = pf[0]["io0"]   # (wide mode: the committed fill of the heap is not probed)
    end = [e for e in ev if e["ev"] == "End"]
    nio = end[0]["ios"] if end else max([e["io"] for e in ev if "io" in e] + [0]) + 1
    # probes, resumable after a recorded hang
    probes = {}
    start = io0
    part = 0
    nprobes = 0
    while start < nio and part < 30:
        pf = os.path.join(ctx.work, "probe-%d-%d.ndjson" % (idx, part))
        rc, out = vlib.run([vlib.VDRIVE, "crash", "probe", ops, wdir, str(start), str(nio), pf, str(memkb), str(depth),
                            "1" if torn else "0", str(nest_every)], cwd=ctx.work, env=env, timeout=1200)
        if rc not in (0, 3):
            raise Inconclusive("crash probe failed rc=%d\n%s" % (rc, out[-2000:]))
        last = start - 1
        for e in vlib.read_ndjson(pf):
            if e["ev"] == "Probe":
                if "cut" in e and rc == 3 and e["probe"]["restart"] == "hang":
                    # a torn / nested variant hung: record it as the observation of that crash point
                    pr = probes.setdefault(e["io"], dict(probe=dict(restart="ok", rows=[], accepts=True, nested=[]), torn=[]))
                    t = dict(e["probe"]); t["cut"] = e["cut"]
                    pr.setdefault("torn", []).append(t)
                    pr["partial"] = True
                else:
                    probes[e["io"]] = dict(probe=e["probe"], torn=e.get("torn", []))
                last = max(last, e["io"])
            elif e["ev"] == "ProbeEnd":
                nprobes += e["probes"]
        os.remove(pf)
        if rc == 0:
            break
        start = last + 1
        part += 1
    os.remove(ops)
    shutil.rmtree(wdir, ignore_errors=True)
    # merge
    merged = os.path.join(ctx.work, "merged-%d.ndjson" % idx)
    with open(merged, "w") as f:
        # the crash image after I/O call k is judged at the event of call k; the torn variants of the NEXT log write
        # (call k+1) are judged at the event of call k+1, against the state just before it - by then the transactions
        # whose records that write carries have begun, written and (if so) started to commit in the model as well
        for e in ev:
            if e["ev"] in ("WLog", "WPage", "GC"):
                if e["io"] in probes and not probes[e["io"]].get("partial"):
                    e["probe"] = probes[e["io"]]["probe"]
                if e["ev"] in ("WLog", "WPage") and (e["io"] - 1) in probes and probes[e["io"] - 1]["torn"]:
                    e["torn"] = probes[e["io"] - 1]["torn"]
            f.write(json.dumps(e) + "\n")
    os.remove(tr)
    return merged, nprobes, nio - io0


def pipeline(ctx, nwork, depth, torn, nest_every):
    vlib.build_harness(ctx)
    scratch = "/dev/shm/verif-crash-%s-%d" % (ctx.prop, os.getpid())
    shutil.rmtree(scratch, ignore_errors=True)
    os.makedirs(scratch)
    traces, nprobes, points = [], 0, 0
    try:
        with concurrent.futures.ThreadPoolExecutor(max_workers=12) as ex:
            futs = [ex.submit(one_workload, ctx, i, POOLS[i % len(POOLS)], scratch, depth, torn, nest_every) for i in range(nwork)]
            for f in futs:
                m, n, p = f.result()
                traces.append(m)
                nprobes += n
                points += p
    finally:
        shutil.rmtree(scratch, ignore_errors=True)
    allp = os.path.join(ctx.work, "crash-all.ndjson")
    with open(allp, "w") as out:
        for m in traces:
            out.write(open(m).read())
            os.remove(m)
    ctx.cmds.append("vdrive crash run/probe x %d workloads (pools %s KB), nested depth %d, torn=%s" % (nwork, POOLS, depth, torn))
    res = vlib.validate(ctx, FAM, "CrashModelTrace", "Trace.cfg", allp, name="val-crash", timeout=3400, jvm=("-Xmx8g",))
    return allp, res, nprobes, points


def design_mc(ctx):
    """Design level: the WalRecovery mechanism spec (repaired code, all defect switches TRUE) is model-checked for
    Recovered (refinement of CrashModel's Acceptable at every completed recovery, incl. crashes inside recovery and a
    torn final log write), NoPanic and PageBehindLog."""
    vlib.model_check(ctx, "WalRecovery", "WalRecovery", "MC_quick.cfg", workers=8, timeout=1800)
    # sensitivity: without the LSN stamp on the catalog page, a crash between the truncation of the log and the first
    # write of the new log (two steps of the model, as in the code) must lead to a counterexample
    r = vlib.tlc(ctx, "WalRecovery", "WalRecovery", "MC_emptylog.cfg", workers=4, timeout=900, name="sens-emptylog")
    if "is violated" not in r["out"]:
        raise Inconclusive("WalRecovery MC_emptylog.cfg (no LSN stamp) no longer fails: the design model lost its sensitivity\n" + r["out"][-1500:])
    if ctx.tier == "thorough":
        vlib.model_check(ctx, "WalRecovery", "WalRecovery", "MC_quick2.cfg", workers=16, timeout=3000)
        vlib.model_check(ctx, "WalRecovery", "WalRecovery", "MC_1txn_2crash.cfg", workers=16, timeout=3000)
        vlib.model_check(ctx, "WalRecovery", "WalRecovery", "MC_emptylog_fixed.cfg", workers=16, timeout=3000)


def stats(trace):
    c = count_events(trace)
    outcomes = collections.Counter()
    nested = torn = 0
    for e in vlib.read_ndjson(trace):
        if "probe" in e:
            outcomes[e["probe"]["restart"][:30]] += 1
            nested += len(e["probe"].get("nested", []))
            torn += len(e.get("torn", []))
    return c, outcomes, nested, torn


def logstorm(ctx, prefixes, what="bulk writers against a slow log device"):
    """Six goroutines rewrite all rows of their own tables (1.4 MB of log records per statement) while the log device
    is slow: the log buffer fills several times while a log write is in flight - the "buffer full" exits of
    AppendLogRecord under concurrency (spec/LogBuffer: NoOverflow).  A panic of the engine ends the driver process;
    the check then closes the trace with a Died event and TLC reports it."""
    io = os.path.join(ctx.work, "logstorm.ndjson")
    died = None
    try:
        vlib.vdrive(ctx, ["rm", "logstorm", io, 3 if ctx.tier == "thorough" else 1, 8], timeout=900, ok_codes=(0, 3),
                    env={"VERIF_SEED": str(ctx.seed * 41)})
    except Inconclusive as ex:
        msg = str(ex)
        if "panic:" not in msg and "fatal error:" not in msg:
            raise
        i = msg.find("panic:") if "panic:" in msg else msg.find("fatal error:")
        died = msg[i:i + 700]
    lines = []
    if os.path.exists(io):
        for l in open(io):
            try:
                json.loads(l)
                lines.append(l if l.endswith("\n") else l + "\n")
            except Exception:
                break
    if died is not None:
        if not lines:
            lines.append(json.dumps({"ev": "Reset"}) + "\n")
        lines.append(json.dumps({"ev": "Died", "msg": died}) + "\n")
    with open(io, "w") as f:
        f.writelines(lines)
    res = vlib.validate(ctx, FAM, "CrashModelTrace", "Trace.cfg", io, name="val-logstorm", timeout=1800)
    judge(ctx, res, io, what, prefixes=prefixes)
    c = count_events(io)
    big = max([e.get("bytes", 0) for e in vlib.read_ndjson(io) if e["ev"] == "WLog"] + [0])
    if died is None and big < 500000:
        raise Inconclusive("vacuous: the log buffer never filled (largest log write %d bytes)" % big)
    return dict(events=dict(c), largest_log_write_bytes=big)
