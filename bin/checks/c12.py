"""C12 - concurrent SQL calls are answered once, atomically, in a serial order; no call blocks forever.

(1) Design: spec/RequestManager (request_manager.go + ExecuteSQL, one action per critical section,
    clients with the enqueue / wake-send split) is model-checked with TLC: OneReply, ExactlyOnce,
    WorkerBound and the liveness property Answered (enqueued ~> answered) under weak fairness, for 3
    clients / channel capacity 1 / 1 worker / 1 conflict abort per request (thorough: 4 clients,
    capacity 2, 2 workers).  With the reply-channel capacity of the pinned tree (0) TLC finds the
    deadlock; MC_unfixed.cfg documents it.
(2) Code: (a) the deadlock schedule is replayed on the real request manager with a gate (hook H5) and 103
    callers (> cap(inCh)): every call must return; (b) windows of concurrent ExecuteSQL calls (8 client
    goroutines, GOMAXPROCS 1 / 4 / 16; multi-row reads and multi-row updates over overlapping key
    ranges with unique values, which conflict and are retried internally; windows with inserts of unique
    keys) are recorded as invoke / return histories ordered by a shared atomic counter, closed by a final
    read, and TLC (CallHistoryTrace, silent linearization steps) decides whether a linearization exists."""
import os, collections
import vlib
from vlib import Inconclusive
from . import register
from .common import judge, count_events

FAM = "RequestManager"
DEQUE = {"JAVA_TOOL_OPTIONS": "-Dtlc2.tool.queue.IStateQueue=StateDeque"}


@register("C12")
def check(ctx):
    thorough = ctx.tier == "thorough"
    vlib.build_harness(ctx)
    vlib.model_check(ctx, FAM, "RequestManager", "MC_fixed.cfg", workers=4, deadlock=True)
    if thorough:
        vlib.model_check(ctx, FAM, "RequestManager", "MC_fixed4.cfg", workers=16, timeout=3400)
    # (a) directed deadlock schedule on the real request manager
    g = os.path.join(ctx.work, "gate.ndjson")
    vlib.vdrive(ctx, ["rm", "gate", g], timeout=300)
    res = vlib.validate(ctx, FAM, "CallHistoryTrace", "History.cfg", g, name="val-gate", env=DEQUE)
    judge(ctx, res, g, "gate schedule (103 callers)")
    gate = [e for e in vlib.read_ndjson(g) if e["ev"] == "Gate"][0]
    # (b) histories
    tot = collections.Counter()
    kinds = collections.Counter()
    proto = collections.Counter()
    for procs in (1, 4, 16):
        tr = os.path.join(ctx.work, "hist-p%d.ndjson" % procs)
        windows = 12 if thorough else 4   # (the fourth window of a run has concurrent checkpoints)
        pt = os.path.join(ctx.work, "proto-p%d.ndjson" % procs)
        vlib.vdrive(ctx, ["rm", "hist", tr, windows, 8, 20, procs], timeout=1200, ok_codes=(0, 3),
                    env={"VERIF_SEED": str(ctx.seed * 17 + procs), "VERIF_RMTRACE": pt})
        res = vlib.validate(ctx, FAM, "CallHistoryTrace", "History.cfg", tr, name="val-hist-p%d" % procs, env=DEQUE, timeout=3000)
        judge(ctx, res, tr, "call histories (GOMAXPROCS=%d)" % procs)
        # (c) the Run loop's protocol events of the same windows, replayed with the actions of RequestManager.tla
        pev = collections.Counter(e["ev"] for e in vlib.read_ndjson(pt))
        mx = max([e.get("id", 0) for e in vlib.read_ndjson(pt)] + [1])
        res = vlib.validate(ctx, FAM, "RunLoopTrace", "RunLoop.cfg", pt, name="val-proto-p%d" % procs, env={"MAXID": str(mx)}, timeout=3000)
        judge(ctx, res, pt, "Run loop protocol trace (GOMAXPROCS=%d)" % procs)
        proto["mechanism_deviations_not_violations"] += sum(1 for v in res["viol"] if v["tag"] == "mech.C12")
        for k in ("queued", "wake", "recv", "launch"):
            if pev[k] == 0:
                raise Inconclusive("vacuous: no %s protocol events" % k)
        proto.update(pev)
        for e in vlib.read_ndjson(tr):
            tot[e["ev"]] += 1
            if e["ev"] == "Inv":
                kinds[e["k"]] += 1
                if e["res"] != "ok":
                    kinds["not-ok:" + e["res"][:20]] += 1
    # wide windows: 3 readers and 3 writers over one 40-row group (overlapping long scans + whole multi-row updates)
    for procs in (4, 16):
        tr = os.path.join(ctx.work, "wide-p%d.ndjson" % procs)
        vlib.vdrive(ctx, ["rm", "hist", tr, 6 if thorough else 2, 6, 150, procs], timeout=1800, ok_codes=(0, 3),
                    env={"VERIF_SEED": str(ctx.seed * 19 + procs), "VERIF_RM_WIDE": "1"})
        res = vlib.validate(ctx, FAM, "CallHistoryTrace", "History.cfg", tr, name="val-wide-p%d" % procs, env=DEQUE, timeout=3000)
        judge(ctx, res, tr, "wide call histories (GOMAXPROCS=%d)" % procs)
        for e in vlib.read_ndjson(tr):
            tot[e["ev"]] += 1
            if e["ev"] == "Inv":
                kinds["wide-" + e["k"]] += 1
    # bulk writers against a slow log device: no call may be lost to a dying engine (log buffer overflow, spec/LogBuffer)
    from . import crash
    storm = crash.logstorm(ctx, ["C12."])
    for k in ("read", "upd", "ins"):
        if kinds[k] == 0:
            raise Inconclusive("vacuous: no %s calls" % k)
    ctx.samples.append(dict(kind="history (first events)", events=vlib.read_ndjson(os.path.join(ctx.work, "hist-p4.ndjson"), limit=8)))
    vlib.write_evidence(ctx, "model_checking", dict(
        states=ctx.states, transitions=ctx.transitions, traces_validated_against_impl=ctx.traces,
        samples=ctx.samples, exhaustive=False, gate_schedule=gate, history_events=dict(tot), calls=dict(kinds), run_loop_protocol_events=dict(proto), log_storm=storm,
        constants="RequestManager MC: 3 clients, Cap 1, 1 worker, 1 abort (thorough: 4 clients, Cap 2, 2 workers); liveness under WF",
        events_validated=ctx.events),
        ["invoke / return order comes from one shared atomic counter incremented by the calling goroutine immediately before the call and immediately after it returns (never wall-clock time)",
         "linearizability is decided by TLC on windows of 160 calls; statements inside a window are single-statement transactions (ExecuteSQL)",
         "the Run loop's protocol events (hook VerifRM: queued / wake / recv / requeue / launch) are replayed with the actions of RequestManager.tla (RunLoopTrace: unlogged sends, worker completion, delivery and launch-free turns placed deterministically); OneReply, ExactlyOnce, WorkerBound are invariants of that replay"])
