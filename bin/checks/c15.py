"""C15 - slotted pages never corrupt or lose a stored row.

Spec: spec/SlottedPage (transcription of table_page.go with the real layout constants).
(1) TLC checks NoOverlap, HeaderSafe, FreeExact, Isolation exhaustively over a size alphabet that
includes the page-filling row; (2) every edge of the state graph is performed on a real TablePage and
the run validated; (3) random sequences with arbitrary sizes 1..4064 are validated against the spec."""
import json, os, random
import vlib
from vlib import Inconclusive
from . import register
from .common import judge, count_events

FAM = "SlottedPage"


@register("C15")
def check(ctx):
    thorough = ctx.tier == "thorough"
    vlib.build_harness(ctx)
    cfg = "MC_quick.cfg"
    dot = os.path.join(ctx.work, "sp.dot")
    vlib.model_check(ctx, FAM, "MC", cfg, workers=1, extra=["-dump", "dot,actionlabels", dot], name="graph")
    if thorough:
        vlib.model_check(ctx, FAM, "MC", "MC_thorough.cfg", workers=16)
    inits, nodes, edges = vlib.parse_dot(dot)
    rng = random.Random(ctx.seed)
    walks, total, covered = vlib.edge_cover(inits, edges, rng=rng, max_walk=200)
    os.remove(dot)
    ops = [[[a] + args for a, args in (vlib.parse_label(l) for l in w)] for w in walks]
    wf = os.path.join(ctx.work, "walks.json")
    json.dump(ops, open(wf, "w"))
    tr = os.path.join(ctx.work, "walk.ndjson")
    vlib.vdrive(ctx, ["page", "walk", wf, tr], ok_codes=(0, 3))
    res = vlib.validate(ctx, FAM, "SlottedPageTrace", "Trace.cfg", tr, name="val-walk")
    judge(ctx, res, tr, "graph walk (3 slots, sizes {1,16,1000,2028,4064})")
    if covered < total:
        raise Inconclusive("walker covered %d of %d edges" % (covered, total))
    c = count_events(tr)
    ctx.samples.append(dict(kind="graph walk (first events)", events=vlib.read_ndjson(tr, limit=6)))
    # random sequences, arbitrary sizes
    nseq = 2000 if thorough else 150
    tr2 = os.path.join(ctx.work, "random.ndjson")
    vlib.vdrive(ctx, ["page", "random", tr2, nseq, 300], ok_codes=(0, 3))
    res = vlib.validate(ctx, FAM, "SlottedPageTrace", "Trace.cfg", tr2, name="val-random", timeout=3000)
    judge(ctx, res, tr2, "random sequences (sizes 1..4064)")
    c2 = count_events(tr2)
    okc = count_events(tr2, "res")
    for k in ("Insert", "Update", "MarkDelete", "ApplyDelete", "RollbackDelete", "Get"):
        if c[k] == 0 or c2[k] == 0:
            raise Inconclusive("vacuous: no %s events" % k)
    for k in ("ok", "nospace", "rollbackdifficult", "fail"):
        if okc[k] == 0:
            raise Inconclusive("vacuous: outcome %s never seen" % k)
    ctx.samples.append(dict(kind="random sequence (first events)", events=vlib.read_ndjson(tr2, limit=5)))
    vlib.write_evidence(ctx, "model_checking", dict(
        states=ctx.states, transitions=ctx.transitions, traces_validated_against_impl=ctx.traces,
        samples=ctx.samples, exhaustive=True,
        constants="MC: 3 slots (thorough also 4), sizes {1,16,1000,2028,4064}, page 4096/24/8",
        graph_states=len(nodes), graph_edges=total, graph_edges_walked_on_impl=covered,
        walk_events=dict(c), random_events=dict(c2), random_outcomes=dict(okc), events_validated=ctx.events),
        ["SlottedPage.tla transcribes table_page.go (bound by the walk and by random traces: outcome and full projection compared after every call)",
         "page operated in recovery-phase mode (no row locks, logging off) as the property's observe_at says",
         "payload bytes are a function of (tag,size); read-back is decoded by the driver and compared by TLC"])
