"""C15 - slotted pages never corrupt or lose a stored row.

Spec: spec/SlottedPage (transcription of table_page.go with the real layout constants).
(1) TLC checks NoOverlap, HeaderSafe, FreeExact, Isolation exhaustively over a size alphabet that
includes the page-filling row; (2) every edge of the state graph is performed on a real TablePage and
the run validated; (3) random sequences with arbitrary sizes 1..4064 are validated against the spec.
Heap level: spec/TableHeap (table_heap.go + table_heap_iterator.go: chains of such pages; InsertTuple's page choice
from the remembered last page, UpdateTuple in place or as delete-mark + insert elsewhere, MarkDelete / RollbackDelete /
ApplyDelete, GetTuple, the iterator) is model-checked (page invariants on every page, Isolation, Moved) and bound to the
code by random sequences on a real TableHeap with 300-2600-byte rows: after every call the projection of the whole
chain is adopted as the specification's state, the property clauses are evaluated on it (no other row changed, the
call's own effect, Get / iterator answers) and - separately, counted but no verdict - whether the chain is the one the
specification's own action produces."""
import json, os, random
import vlib
from vlib import Inconclusive
from . import register
from .common import judge, count_events

FAM = "SlottedPage"


@register("C15")
def check(ctx):
    thorough = ctx.tier == "thorough"
    vlib.build_harness(ctx)
    cfg = "MC_quick.cfg"
    dot = os.path.join(ctx.work, "sp.dot")
    vlib.model_check(ctx, FAM, "MC", cfg, workers=1, extra=["-dump", "dot,actionlabels", dot], name="graph")
    if thorough:
        vlib.model_check(ctx, FAM, "MC", "MC_thorough.cfg", workers=16)
    inits, nodes, edges = vlib.parse_dot(dot)
    rng = random.Random(ctx.seed)
    walks, total, covered = vlib.edge_cover(inits, edges, rng=rng, max_walk=200)
    os.remove(dot)
    ops = [[[a] + args for a, args in (vlib.parse_label(l) for l in w)] for w in walks]
    wf = os.path.join(ctx.work, "walks.json")
    json.dump(ops, open(wf, "w"))
    tr = os.path.join(ctx.work, "walk.ndjson")
    vlib.vdrive(ctx, ["page", "walk", wf, tr], ok_codes=(0, 3))
    res = vlib.validate(ctx, FAM, "SlottedPageTrace", "Trace.cfg", tr, name="val-walk")
    judge(ctx, res, tr, "graph walk (3 slots, sizes {1,16,1000,2028,4064})")
    if covered < total:
        raise Inconclusive("walker covered %d of %d edges" % (covered, total))
    c = count_events(tr)
    ctx.samples.append(dict(kind="graph walk (first events)", events=vlib.read_ndjson(tr, limit=6)))
    # random sequences, arbitrary sizes
    nseq = 2000 if thorough else 150
    tr2 = os.path.join(ctx.work, "random.ndjson")
    vlib.vdrive(ctx, ["page", "random", tr2, nseq, 300], ok_codes=(0, 3))
    res = vlib.validate(ctx, FAM, "SlottedPageTrace", "Trace.cfg", tr2, name="val-random", timeout=3000)
    judge(ctx, res, tr2, "random sequences (sizes 1..4064)")
    c2 = count_events(tr2)
    okc = count_events(tr2, "res")
    for k in ("Insert", "Update", "MarkDelete", "ApplyDelete", "RollbackDelete", "Get"):
        if c[k] == 0 or c2[k] == 0:
            raise Inconclusive("vacuous: no %s events" % k)
    for k in ("ok", "nospace", "rollbackdifficult", "fail"):
        if okc[k] == 0:
            raise Inconclusive("vacuous: outcome %s never seen" % k)
    ctx.samples.append(dict(kind="random sequence (first events)", events=vlib.read_ndjson(tr2, limit=5)))
    # heap level
    vlib.model_check(ctx, "TableHeap", "MC", "MC_quick.cfg", workers=8, timeout=1800)
    if thorough:
        vlib.model_check(ctx, "TableHeap", "MC", "MC_2x3.cfg", workers=16, timeout=3000, jvm=("-Xmx12g",))
    tr3 = os.path.join(ctx.work, "heap.ndjson")
    vlib.vdrive_resumable(ctx, ["heap", "seq", tr3, 800 if thorough else 60, 200 if thorough else 150], tr3, timeout=2000)
    res = vlib.validate(ctx, "TableHeap", "TableHeapTrace", "Trace.cfg", tr3, name="val-heap", timeout=3000)
    judge(ctx, res, tr3, "random sequences on a real TableHeap (rows of 300-2600 bytes)")
    import collections
    hops, hres, maxpages = collections.Counter(), collections.Counter(), 0
    for e in vlib.read_ndjson(tr3):
        if e["ev"] == "Heap":
            hops[e["op"]] += 1
            hres[e["op"] + ":" + e["res"]] += 1
            maxpages = max(maxpages, len(e["pages"]))
    for k in ("Insert:ok", "Update:ok", "Update:moved", "Update:fail", "MarkDelete:ok", "ApplyDelete:ok", "RollbackDelete:ok", "Get:ok", "Get:deleted", "Scan:ok"):
        if hres[k] == 0:
            raise Inconclusive("vacuous heap trace: no %s" % k)
    if maxpages < 4:
        raise Inconclusive("vacuous heap trace: chains of at most %d pages" % maxpages)
    heap_mech = sum(1 for v in res["viol"] if v["tag"] == "mech.C15.heap")
    vlib.write_evidence(ctx, "model_checking", dict(
        states=ctx.states, transitions=ctx.transitions, traces_validated_against_impl=ctx.traces,
        samples=ctx.samples, exhaustive=True,
        constants="MC: 3 slots (thorough also 4), sizes {1,16,1000,2028,4064}, page 4096/24/8",
        graph_states=len(nodes), graph_edges=total, graph_edges_walked_on_impl=covered,
        walk_events=dict(c), random_events=dict(c2), random_outcomes=dict(okc), events_validated=ctx.events,
        heap_calls=dict(hops), heap_outcomes=dict(hres), heap_longest_chain_pages=maxpages,
        heap_steps_not_produced_by_mechanism_spec=heap_mech),
        ["SlottedPage.tla transcribes table_page.go (bound by the walk and by random traces: outcome and full projection compared after every call)",
         "page operated in recovery-phase mode (no row locks, logging off) as the property's observe_at says",
         "payload bytes are a function of (tag,size); read-back is decoded by the driver and compared by TLC",
         "TableHeap.tla: one transaction, recovery-phase mode; model bounds 2 pages x 2 slots (thorough 2 x 3), sizes {1300, 2000}; the real heap is driven with sizes {300, 900, 1300, 1800, 2000, 2600} and chains of up to dozens of pages"])
