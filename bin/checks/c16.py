"""C16 - row locks follow the shared/exclusive compatibility rules until transaction end.

Spec: spec/LockManager.  (1) TLC checks the design (invariants Compat, Agree; action properties
ReplyRight, DeniedUnchanged, ShrinkOnlyAtEnd, GrantInstalls) exhaustively; (2) the labelled state graph
is walked edge by edge on a real LockManager/TransactionManager and the recorded run is validated by
TLC against the same spec (results and full projection); (3) goroutine-concurrent runs, sequenced under
the lock-manager mutex (hook H3), are validated the same way."""
import json, os, random
import vlib
from vlib import Inconclusive, log
from . import register
from .common import judge, count_events

FAM = "LockManager"


def walk_and_validate(ctx, cfg_walk, cfg_trace, txns, rids, name):
    dot = os.path.join(ctx.work, name + ".dot")
    r = vlib.model_check(ctx, FAM, "MC", cfg_walk, workers=1, extra=["-dump", "dot,actionlabels", dot], name="graph-" + name)
    inits, nodes, edges = vlib.parse_dot(dot)
    rng = random.Random(ctx.seed)
    walks, total, covered = vlib.edge_cover(inits, edges, rng=rng, max_walk=300)
    ops = []
    for w in walks:
        ops.append([[a] + args for a, args in (vlib.parse_label(l) for l in w)])
    wf = os.path.join(ctx.work, name + "-walks.json")
    json.dump(ops, open(wf, "w"))
    tr = os.path.join(ctx.work, name + "-walk.ndjson")
    vlib.vdrive(ctx, ["lock", "walk", wf, tr, ",".join(txns), ",".join(rids)])
    res = vlib.validate(ctx, FAM, "LockManagerTrace", cfg_trace, tr, name="val-" + name)
    judge(ctx, res, tr, "graph walk " + name)
    ctx.cov.setdefault("graph_edges", 0)
    ctx.cov["graph_edges"] += total
    ctx.cov.setdefault("graph_edges_walked", 0)
    ctx.cov["graph_edges_walked"] += covered
    ctx.cov.setdefault("graph_states", 0)
    ctx.cov["graph_states"] += len(nodes)
    if covered < total:
        raise Inconclusive("walker covered %d of %d edges" % (covered, total))
    ev = vlib.read_ndjson(tr, limit=12)
    ctx.samples.append(dict(kind="graph walk (first events)", events=ev[:8]))
    return tr


@register("C16")
def check(ctx):
    thorough = ctx.tier == "thorough"
    vlib.build_harness(ctx)
    # (1) design: exhaustive
    vlib.model_check(ctx, FAM, "MC", "MC_3x2.cfg", workers=8)
    # and for ANY finite set of transactions and rows: TLAPS proof of TypeOK /\ Compat /\ Agree, ReplyRight, DeniedUnchanged
    nobl = vlib.tlaps(ctx, FAM, "LockManagerProofs")
    ctx.cov["tlaps_obligations_proved"] = nobl
    if thorough:
        vlib.model_check(ctx, FAM, "MC", "MC_4x2.cfg", workers=16)
        vlib.model_check(ctx, FAM, "MC", "MC_3x3.cfg", workers=16)
    # (2) spec -> code: every edge of the graph on the real lock manager
    tr = walk_and_validate(ctx, "MC_walk.cfg", "Trace.cfg", ["t1", "t2", "t3"], ["r1", "r2"], "3x2")
    c = count_events(tr)
    if thorough:
        walk_and_validate(ctx, "MC_walk_3x3.cfg", "Trace_3x3.cfg", ["t1", "t2", "t3"], ["r1", "r2", "r3"], "3x3")
    # (3) code -> spec under real concurrency
    runs = 100 if thorough else 12
    trc = os.path.join(ctx.work, "conc.ndjson")
    vlib.vdrive(ctx, ["lock", "conc", trc, 16, 300, 3, runs])
    res = vlib.validate(ctx, FAM, "LockManagerTrace", "Trace_conc.cfg", trc, name="val-conc")
    judge(ctx, res, trc, "concurrent run (16 goroutines x 300 requests x 3 rows)")
    cc = count_events(trc)
    granted = sum(1 for e in vlib.read_ndjson(trc) if e.get("ok") is True and e["ev"] in "SXU")
    denied = sum(1 for e in vlib.read_ndjson(trc) if e.get("ok") is False and e["ev"] in "SXU")
    for k in ("S", "X", "U", "End"):
        if c[k] == 0 or cc[k] == 0:
            raise Inconclusive("vacuous: no %s events" % k)
    if granted == 0 or denied == 0:
        raise Inconclusive("vacuous: concurrent run has granted=%d denied=%d" % (granted, denied))
    ctx.samples.append(dict(kind="concurrent run (first events)", events=vlib.read_ndjson(trc, limit=8)))
    vlib.write_evidence(ctx, "model_checking", dict(
        states=ctx.states, transitions=ctx.transitions, traces_validated_against_impl=ctx.traces,
        samples=ctx.samples, exhaustive=True,
        constants="MC: Txn={t1,t2,t3} x Rid={r1,r2}" + ("; 4x2; 3x3" if thorough else ""),
        graph_states=ctx.cov["graph_states"], graph_edges=ctx.cov["graph_edges"],
        graph_edges_walked_on_impl=ctx.cov["graph_edges_walked"],
        tlaps="LockManagerProofs.tla: Spec => [](TypeOK /\\ Compat /\\ Agree), Spec => ReplyRight /\\ DeniedUnchanged for any finite Txn and any Rid; %d obligations proved by tlapm" % ctx.cov["tlaps_obligations_proved"],
        walk_events=dict(c), concurrent_events=dict(cc), concurrent_granted=granted, concurrent_denied=denied,
        events_validated=ctx.events),
        ["the TLA+ module LockManager is a faithful transcription of lock_manager.go's branches (bound by the walk: every edge of the state graph was performed on the real object and the projection compared)",
         "concurrent events are ordered by hook H3, which runs under the lock-manager mutex",
         "TLC 1.8.0"])
