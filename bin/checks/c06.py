"""C06 - every supported single-table statement returns the reference answer.

Oracle: spec/SqlModel (L0 contract: tables as bags of rows over ranked domains, predicate trees,
Answer/Updated/Remove by comprehension).  The driver runs SQL on the real engine (in-memory database,
background threads off) and records every statement with its answer in ranks; TLC replays the trace on
SqlModel and compares each answer with the reference answer.
quick: every ordered conjunction of <= 2 atoms and a seeded third of the 3-atom ones (all of them
after the statistics refresh) on an indexed column over 3 constants, plus seeded random scenarios
(random schemas over int/float/varchar, 0-45 rows incl. duplicates and multi-page tables, AND/OR
predicate trees, projections in every order, UPDATE/DELETE/INSERT followed by a full read-back, stale and
refreshed statistics)."""
import os, collections
import vlib
from vlib import Inconclusive
from . import register
from .common import judge, count_events

FAM = "SqlModel"


def plan_kinds(trace):
    c = collections.Counter()
    for e in vlib.read_ndjson(trace):
        if e.get("ev") in ("Select", "Update", "Delete", "Join"):
            c[e.get("plan", "?")] += 1
    return c


@register("C06")
def check(ctx):
    thorough = ctx.tier == "thorough"
    vlib.build_harness(ctx)
    # L1 design: Range.Update fold + inclusive scan + residual rule, ALL conjunct lists (spec/RangeDerivation)
    big = "MC_fixed4.cfg" if thorough else "MC_fixed.cfg"
    vlib.model_check(ctx, "RangeDerivation", "RangeDerivation", big, workers=1, name="range-design", timeout=3000)
    rc = vlib.tlc(ctx, "RangeDerivation", "RangeDerivation", "MC_coded.cfg", workers=1, name="range-design-coded")
    if rc["rc"] == 0 or "SameAnswer" not in rc["out"] and "Assumption" not in rc["out"]:
        raise Inconclusive("RangeDerivation with the pinned tree's residual rule no longer fails: the design model lost its sensitivity")
    tr = os.path.join(ctx.work, "c06.ndjson")
    vlib.vdrive_resumable(ctx, ["sql", "c06", tr, 1500 if thorough else 120, 1], tr, timeout=3000)
    res = vlib.validate(ctx, FAM, "SqlModelTrace", "Trace.cfg", tr, name="val-c06", timeout=3400)
    judge(ctx, res, tr, "single-table statements")
    c = count_events(tr)
    plans = plan_kinds(tr)
    for k in ("Create", "Insert", "Select", "Update", "Delete", "Stats"):
        if c[k] == 0:
            raise Inconclusive("vacuous: no %s events" % k)
    nrs = sum(1 for e in vlib.read_ndjson(tr) if "rs" in e)
    if nrs == 0:
        raise Inconclusive("vacuous: no statement recorded its index scan interval")
    if not any("RangeScanWithIndex" in p for p in plans) or not any("SeqScan" in p for p in plans):
        raise Inconclusive("vacuous: plans exercised %s" % dict(plans))
    ev = [e for e in vlib.read_ndjson(tr, limit=60) if e["ev"] in ("Select", "Update")][:3]
    ctx.samples.append(dict(kind="statements (first)", events=[{k: v for k, v in e.items() if k not in ("pb", "pa")} for e in ev]))
    vlib.write_evidence(ctx, "model_checking", dict(
        states=ctx.states, transitions=ctx.transitions, traces_validated_against_impl=ctx.traces,
        samples=ctx.samples, exhaustive=False,
        statements=dict(c), plans=dict(plans.most_common(12)), events_validated=ctx.events, index_scan_intervals_checked=nrs,
        rule="every statement's answer is compared by TLC with SqlModel.Answer; scenarios are seeded"),
        ["values are the ranks of an order-preserving table of SQL-expressible literals (non-negative ints, decimals, strings incl. '' and a 300-byte string); NULLs and negative numbers are not yet exercised",
         "SqlModel itself is evaluated by TLC only on recorded statements; the range-derivation design (spec/RangeDerivation) is checked for all conjunct lists up to length 3 (4 in thorough) over a 4-value domain and bound to the code by the plan-level clause C06.range (scanned interval recorded from the real plan)"])
