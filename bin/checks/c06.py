"""C06 - every supported single-table statement returns the reference answer.

Oracle: spec/SqlModel (L0 contract: tables as bags of rows over ranked domains, predicate trees,
Answer/Updated/Remove by comprehension).  The driver runs SQL on the real engine (in-memory database,
background threads off) and records every statement with its answer in ranks; TLC replays the trace on
SqlModel and compares each answer with the reference answer.
quick: every ordered conjunction of <= 2 atoms and a seeded third of the 3-atom ones (all of them
after the statistics refresh) on an indexed column over 3 constants, plus seeded random scenarios
(random schemas over int/float/varchar, 0-45 rows incl. duplicates and multi-page tables, AND/OR
predicate trees, projections in every order, UPDATE/DELETE/INSERT followed by a full read-back, stale and
refreshed statistics)."""
import os, collections
import vlib
from vlib import Inconclusive
from . import register
from .common import judge, count_events

FAM = "SqlModel"


def plan_kinds(trace):
    c = collections.Counter()
    for e in vlib.read_ndjson(trace):
        if e.get("ev") in ("Select", "Update", "Delete", "Join"):
            c[e.get("plan", "?")] += 1
    return c


@register("C06")
def check(ctx):
    thorough = ctx.tier == "thorough"
    vlib.build_harness(ctx)
    tr = os.path.join(ctx.work, "c06.ndjson")
    vlib.vdrive(ctx, ["sql", "c06", tr, 1500 if thorough else 120, 1], timeout=3000)
    res = vlib.validate(ctx, FAM, "SqlModelTrace", "Trace.cfg", tr, name="val-c06", timeout=3400)
    judge(ctx, res, tr, "single-table statements")
    c = count_events(tr)
    plans = plan_kinds(tr)
    for k in ("Create", "Insert", "Select", "Update", "Delete", "Stats"):
        if c[k] == 0:
            raise Inconclusive("vacuous: no %s events" % k)
    if not any("RangeScanWithIndex" in p for p in plans) or not any("SeqScan" in p for p in plans):
        raise Inconclusive("vacuous: plans exercised %s" % dict(plans))
    ev = [e for e in vlib.read_ndjson(tr, limit=60) if e["ev"] in ("Select", "Update")][:3]
    ctx.samples.append(dict(kind="statements (first)", events=[{k: v for k, v in e.items() if k not in ("pb", "pa")} for e in ev]))
    vlib.write_evidence(ctx, "model_checking", dict(
        states=ctx.states, transitions=ctx.transitions, traces_validated_against_impl=ctx.traces,
        samples=ctx.samples, exhaustive=False,
        statements=dict(c), plans=dict(plans.most_common(12)), events_validated=ctx.events,
        rule="every statement's answer is compared by TLC with SqlModel.Answer; scenarios are seeded"),
        ["values are the ranks of an order-preserving table of SQL-expressible literals (non-negative ints, decimals, strings incl. '' and a 300-byte string); NULLs and negative numbers are not yet exercised",
         "TLC only evaluates the SqlModel operators on recorded statements (trace validation); no separate state-space exploration of SqlModel"])
