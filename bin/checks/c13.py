"""C13 - the buffer pool always returns the latest bytes of a page.

Spec: spec/BufferPool (buffer_pool_manager.go, victim choice abstracted).  (1) TLC checks Coherent,
PinSafe, FreshId (action properties) and ReplacerPinFree, MappedRight, NonResidentOnDisk exhaustively
for 1 and 2 frames (3 frames depth-bounded in thorough); (2) the operation labels of every edge of a
depth-bounded state graph are performed on a real BufferPoolManager (spec -> code); (3) random
operation sequences at pool sizes 1,2,3,4,8 (code -> spec).  Every recorded step is judged by TLC: the
spec state is the recorded projection of the real pool plus ghosts (latest version, live ids), on which
the property's clauses and the spec's invariants are evaluated, and the step is checked to be one the
mechanism spec allows."""
import json, os, random
import vlib
from vlib import Inconclusive
from . import register
from .common import judge, count_events

FAM = "BufferPool"


def run_and_validate(ctx, drv_args, tr, cfg, what):
    vlib.vdrive(ctx, drv_args)
    res = vlib.validate(ctx, FAM, "BufferPoolTrace", cfg, tr, name="val-" + os.path.basename(tr), timeout=3000)
    judge(ctx, res, tr, what)
    div = (res.get("extra") or {}).get("diverged", [])
    return res, div


@register("C13")
def check(ctx):
    thorough = ctx.tier == "thorough"
    vlib.build_harness(ctx)
    vlib.model_check(ctx, FAM, "MC", "MC_1f.cfg", workers=4)
    vlib.model_check(ctx, FAM, "MC", "MC_2f.cfg", workers=16, timeout=2400)
    if thorough:
        vlib.model_check(ctx, FAM, "MC", "MC_3f.cfg", workers=16, timeout=3000)
    # spec -> code: labels of a depth-bounded graph (2 frames)
    dot = os.path.join(ctx.work, "bp.dot")
    vlib.model_check(ctx, FAM, "MC", "MC_walk.cfg", workers=1, extra=["-dump", "dot,actionlabels", dot], name="graph")
    inits, nodes, edges = vlib.parse_dot(dot)
    os.remove(dot)
    rng = random.Random(ctx.seed)
    walks, total, covered = vlib.edge_cover(inits, edges, rng=rng, max_walk=60)
    # (the Next disjuncts are the actions wrapped with the frame condition of the in-flight-flush variable: NewPageF ...)
    ops = [[[a[:-1] if a.endswith("F") and a != "F" else a] + args for a, args in (vlib.parse_label(l) for l in w)] for w in walks]
    wf = os.path.join(ctx.work, "walks.json")
    json.dump(ops, open(wf, "w"))
    tr = os.path.join(ctx.work, "walk.ndjson")
    res, div = run_and_validate(ctx, ["bpm", "walk", wf, tr, 2, 40], tr, "Trace_nf2.cfg", "graph-guided walk (2 frames)")
    diverged = {"walk": len(div)}
    c = count_events(tr)
    ctx.samples.append(dict(kind="graph-guided walk (first events)", events=[
        {k: v for k, v in e.items() if k not in ("disk", "pt", "ptExtra")} for e in vlib.read_ndjson(tr, limit=5)]))
    # code -> spec: random sequences per pool size
    nseq = 400 if thorough else 60
    tot = collections_counter()
    for nf in (1, 2, 3, 4, 8):
        t = os.path.join(ctx.work, "random-nf%d.ndjson" % nf)
        res, div = run_and_validate(ctx, ["bpm", "random", t, nseq, 300, 40, nf], t, "Trace_nf%d.cfg" % nf,
                                    "random sequences (%d frames)" % nf)
        diverged["nf%d" % nf] = len(div)
        tot.update(count_events(t))
    for k in ("NewPage", "FetchPage", "WriteUnpin", "UnpinClean", "FlushPage", "DeallocNoWait", "LazyDeallocUnpin"):
        if c[k] == 0 or tot[k] == 0:
            raise Inconclusive("vacuous: no %s events" % k)
    # "by any number of users": goroutines share one small pool (one frame more than users ... three more), every page
    # owned by one goroutine; the merged history is judged by TLC (BufferPoolHistoryTrace)
    import collections as _c
    conc = _c.Counter()
    for procs in (4, 16):
        h = os.path.join(ctx.work, "bpmconc-p%d.ndjson" % procs)
        vlib.vdrive(ctx, ["bpm", "conc", h, 30 if thorough else 6, 4 if procs == 4 else 8, 300, procs], timeout=1800, ok_codes=(0, 3),
                    env={"VERIF_SEED": str(ctx.seed * 29 + procs)})
        hres = vlib.validate(ctx, FAM, "BufferPoolHistoryTrace", "History.cfg", h, name="val-bpmconc-p%d" % procs, timeout=1800)
        judge(ctx, hres, h, "concurrent users of one pool (GOMAXPROCS=%d)" % procs)
        conc.update(count_events(h))
    for k in ("Fetch", "Reread", "Write", "NewRet", "DeallocInv", "Flush"):
        if conc[k] == 0:
            raise Inconclusive("vacuous: no %s events in the concurrent windows" % k)
    clock = clock_replacer(ctx, thorough)
    vlib.write_evidence(ctx, "model_checking", dict(
        states=ctx.states, transitions=ctx.transitions, traces_validated_against_impl=ctx.traces,
        samples=ctx.samples, exhaustive=True,
        constants="MC: 1 and 2 frames, 3 page ids, 3 versions, 2 pins, reuse list <= 2 (thorough: 3 frames to depth 11)",
        graph_states=len(nodes), graph_labelled_edges=total, graph_labels_performed_on_impl=covered,
        walk_events=dict(c), random_events=dict(tot), events_validated=ctx.events,
        steps_not_allowed_by_mechanism_spec=diverged, clock_replacer=clock),
        ["ClockReplacer.tla transcribes clock_replacer.go / circular_list.go (the policy BufferPool.tla abstracts); a victim that is a candidate but not the spec's choice is counted as a policy deviation, not as a violation",
         "BufferPool.tla transcribes buffer_pool_manager.go with the replacement policy abstracted to 'any replacer member'",
         "users respect the pool's contract (a new page is written before it is unpinned; a deallocated page is not fetched again)",
         "projection through GetPages() and the guarded VerifSnapshot accessor; page content abstracted to a version stamp",
         "single-threaded driver: the pool's own mutex discipline is not exercised here"])


def clock_replacer(ctx, thorough):
    """spec/ClockReplacer: the replacement policy as coded (the part BufferPool.tla abstracts to 'any member of the
    replacer').  MC: a pinned frame is never a victim, no frame twice, the hand always denotes a list node, Victim
    answers whenever there is a candidate; then every edge of the 4-frame state graph is performed on a real
    buffer.ClockReplacer, plus random sequences with 4 and 16 frames; answers and sizes are judged by TLC."""
    fam = "ClockReplacer"
    vlib.model_check(ctx, fam, "MC", "MC_4.cfg", workers=4)
    vlib.model_check(ctx, fam, "MC", "MC_6.cfg", workers=8)
    if thorough:
        vlib.model_check(ctx, fam, "MC", "MC_8.cfg", workers=16, timeout=1800)   # 219 k distinct states
    dot = os.path.join(ctx.work, "clock.dot")
    vlib.model_check(ctx, fam, "MC", "MC_walk.cfg", workers=1, extra=["-dump", "dot,actionlabels", dot], name="graph-clock")
    inits, nodes, edges = vlib.parse_dot(dot)
    os.remove(dot)
    walks, total, covered = vlib.edge_cover(inits, edges, rng=random.Random(ctx.seed), max_walk=80)
    ops = [[[a] + args for a, args in (vlib.parse_label(l) for l in w)] for w in walks]
    wf = os.path.join(ctx.work, "clock-walks.json")
    json.dump(ops, open(wf, "w"))
    out = dict(graph_states=len(nodes), graph_edges=total, graph_edges_walked_on_impl=covered, policy_deviations=0)
    if covered < total:
        raise Inconclusive("clock walker covered %d of %d edges" % (covered, total))
    runs = [("clock-walk.ndjson", ["clock", "walk", wf, None, 4], "Trace_4.cfg", "graph walk on a real ClockReplacer (4 frames)"),
            ("clock-r4.ndjson", ["clock", "random", None, 800 if thorough else 150, 200, 4], "Trace_4.cfg", "random calls (4 frames)"),
            ("clock-r16.ndjson", ["clock", "random", None, 800 if thorough else 150, 400, 16], "Trace_16.cfg", "random calls (16 frames)")]
    ev = _collections.Counter()
    for fn, args, cfg, what in runs:
        t = os.path.join(ctx.work, fn)
        vlib.vdrive(ctx, [t if a is None else a for a in args])
        res = vlib.validate(ctx, fam, "ClockReplacerTrace", cfg, t, name="val-" + fn, timeout=1800)
        judge(ctx, res, t, what)
        out["policy_deviations"] += ((res.get("extra") or {}).get("extra") or {}).get("policy_deviations", 0)
        for e in vlib.read_ndjson(t):
            ev[e["ev"] + ("" if e["ev"] != "Victim" else (":frame" if e["res"].startswith("f") else ":" + e["res"]))] += 1
    for k in ("Unpin", "Pin", "Victim:frame", "Victim:panic"):
        if ev[k] == 0:
            raise Inconclusive("vacuous: no %s events on the clock replacer" % k)
    out["events"] = dict(ev)
    return out


import collections as _collections


def collections_counter():
    import collections
    return collections.Counter()
