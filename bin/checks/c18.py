"""C18 - index key encoding preserves order and round-trips; row ids pack losslessly.

Spec: spec/KeyEncoding.  The scheme is stated once, parametric in digit base and width.
(1) TLC evaluates the all-pairs order / round-trip / key-dominance / row-id requirements at reduced
width (MCReduced: 6-bit integers, 1+5-bit floats, strings <= 3 over 3 letters, 40 x 25 row ids);
(2) vectors recorded from the real functions at full width (boundaries, +-2^k, +-2^k+-1, -0.0,
denormals, infinities, prefix strings, extreme row ids, seeded random pairs) are judged by TLC: the
order requirement is evaluated directly on the recorded bytes and the bytes must equal the scheme;
(3) thorough: a strided sweep over all integers / float patterns in numeric order looks for
candidate counterexamples, which TLC judges."""
import os
import vlib
from vlib import Inconclusive
from . import register
from .common import judge, count_events

FAM = "KeyEncoding"


@register("C18")
def check(ctx):
    thorough = ctx.tier == "thorough"
    vlib.build_harness(ctx)
    vlib.model_check(ctx, FAM, "MCReduced", "MCReduced.cfg", workers=1, name="reduced-width-all-pairs")
    tr = os.path.join(ctx.work, "vectors.ndjson")
    n = 60000 if thorough else 4000
    vlib.vdrive(ctx, ["enc", "vectors", tr, n])
    res = vlib.validate(ctx, FAM, "KeyEncodingTrace", "Trace.cfg", tr, name="val-vectors", timeout=3000)
    judge(ctx, res, tr, "full-width vectors")
    if any(v["tag"] == "C18.oracle" for v in res["viol"]):
        raise Inconclusive("the specification's float order disagrees with Go's comparison: %s" % res["viol"][:3])
    c = count_events(tr)
    for k in ("Int", "Float", "Str", "Rid"):
        if c[k] == 0:
            raise Inconclusive("vacuous: no %s vectors" % k)
    ctx.samples.append(dict(kind="vectors", events=[e for e in vlib.read_ndjson(tr, limit=400) if e["ev"] != "Reset"][:3]))
    sweep = {}
    if thorough:
        tr2 = os.path.join(ctx.work, "sweep.ndjson")
        stride = 2039 + 2 * (ctx.seed % 500)
        vlib.vdrive(ctx, ["enc", "sweep", tr2, stride], timeout=3000)
        res = vlib.validate(ctx, FAM, "KeyEncodingTrace", "Trace.cfg", tr2, name="val-sweep")
        judge(ctx, res, tr2, "strided sweep candidates")
        for e in vlib.read_ndjson(tr2):
            if e["ev"] == "Reset":
                sweep.update({k: v for k, v in e.items() if k != "ev"})
        sweep["stride"] = stride
    vlib.write_evidence(ctx, "model_checking", dict(
        states=ctx.states, transitions=ctx.transitions, traces_validated_against_impl=ctx.traces,
        samples=ctx.samples, exhaustive=False,
        reduced_width="all pairs: 64 integers, 50 non-NaN float patterns, 40 strings, 25 row ids (ASSUMEs of MCReduced evaluated by TLC)",
        vector_events=dict(c), events_validated=ctx.events, sweep=sweep,
        explanation="order/round-trip is proved by enumeration at reduced width on the parametric scheme; the real functions are tied to the scheme and to the order requirement itself by TLC-judged vectors at full width"),
        ["the full-width argument rests on the scheme being width-parametric; vectors sample the 2^32 domain (boundaries + random), they do not enumerate it",
         "the B-tree 6-byte value packing is inline code in btree_index.go; the driver reproduces its byte selection around the exported Pack/Unpack functions (the inline code itself is exercised by C17/C07)",
         "NaN keys are outside the property"])
