import os, shutil, collections
import vlib
from vlib import Inconclusive
from . import register
from .common import judge
from . import crash


def run(ctx, prefixes, nwork_q, nwork_t, depth_q, depth_t, what):
    thorough = ctx.tier == "thorough"
    crash.design_mc(ctx)
    tr, res, nprobes, points = crash.pipeline(ctx, nwork_t if thorough else nwork_q, depth_t if thorough else depth_q,
                                              torn=True, nest_every=1 if (thorough or ctx.prop == "C20") else 4)
    judge(ctx, res, tr, what, prefixes=prefixes)
    c, outcomes, nested, torn = crash.stats(tr)
    for k in ("Begin", "Write", "CommitRet", "AbortRet", "CkptRet", "WLog", "WPage"):
        if c[k] == 0:
            raise Inconclusive("vacuous: no %s events" % k)
    if nprobes == 0:
        raise Inconclusive("no crash image was probed")
    ev = [e for e in vlib.read_ndjson(tr, limit=120) if e["ev"] in ("Write", "CommitStart", "WLog")][:4]
    for e in ev:
        if "probe" in e:
            e["probe"] = dict(e["probe"], nested="(%d nested observations)" % len(e["probe"].get("nested", [])))
        if "torn" in e:
            e["torn"] = "(%d torn variants)" % len(e["torn"])
    ctx.samples.append(dict(kind="trace events (first)", events=ev))
    return dict(states=ctx.states, transitions=ctx.transitions, traces_validated_against_impl=ctx.traces,
                samples=ctx.samples, exhaustive=False,
                events=dict(c), crash_points=points, restarts_performed=nprobes, restart_outcomes=dict(outcomes),
                nested_crash_points=nested, torn_variants=torn, events_validated=ctx.events,
                design_model="WalRecovery.tla (one heap page; Begin/Insert/MarkDelete/Update/Commit steps/Abort steps/FlushLog/Evict/Checkpoint/Crash with torn last log write/Redo/Undo/Flush (with the LSN stamp on the catalog page)/GC/re-seed of the new log/Done; second and third crash between any two recovery steps): invariants Recovered, NoPanic, PageBehindLog exhaustive for 1 txn x 2 slots x 2 values x 2 crashes x 6 log records (thorough: also 2 txns / 1 crash, and 7 records); each of the seven repaired defects (switch FALSE) is a counterexample of the same spec",
                rule="every prefix of each workload's I/O list after the DDL is a crash point; exhaustive per workload, workloads are seeded")


ASSUME = ["crash points are I/O-call boundaries plus torn variants of one log write; reordering of writes across the two files by the OS is not modelled",
          "single driver goroutine, background threads off (hook H2); the recording wrapper (hook H1) orders page and log writes",
          "rows carry a unique key and a fresh version per write, so a recovered row identifies its writer",
          "the design-level model (WalRecovery) covers one heap page and in-place updates; multi-page heaps, relocation and index rebuild are only covered by the crash probes on the real engine",
          "WalRecovery is bound to the code through the shared contract (CrashModel) and the defect switches, not yet through log-record-level trace validation"]


@register("C01")
def c01(ctx):
    cov = run(ctx, ["C01."], 12, 200, 1, 1, "crash images (durability)")
    vlib.write_evidence(ctx, "model_checking", cov, ASSUME)


@register("C02")
def c02(ctx):
    cov = run(ctx, ["C02."], 12, 200, 0, 0, "crash images (atomicity)")
    vlib.write_evidence(ctx, "model_checking", cov, ASSUME)


@register("C08")
def c08(ctx):
    cov = run(ctx, ["C08."], 16, 300, 0, 0, "I/O order (write-ahead discipline)")
    # the same storage-boundary rules under goroutine concurrency: 8 clients through the request manager on small
    # pools (evictions), page writes and log writes totally ordered by the recording wrapper's mutex
    # long single-goroutine workloads without crash probes: heaps several times the pool size, so that dirty heap
    # pages are evicted all the time (the probed workloads above are short and hardly evict)
    longs = collections.Counter()
    nlong, steps = (12, 1200) if ctx.tier == "thorough" else (6, 300)
    lt = os.path.join(ctx.work, "io-long.ndjson")
    with open(lt, "w") as out:
        for i in range(nlong):
            wdir = os.path.join(ctx.work, "long%d" % i)
            os.makedirs(wdir, exist_ok=True)
            tr = os.path.join(ctx.work, "long-%d.ndjson" % i)
            vlib.vdrive(ctx, ["crash", "run", wdir, tr, os.path.join(ctx.work, "long.ops"), [64, 64, 96, 128][i % 4]], timeout=600,
                        env={"VERIF_SEED": str(ctx.seed * 77 + i), "VERIF_CRASH_STEPS": str(steps)})
            inck = False
            for e in vlib.read_ndjson(tr):
                if e["ev"] in ("CkptStart", "CkptRet"):
                    inck = e["ev"] == "CkptStart"
                if e["ev"] == "WPage" and e.get("heap"):
                    longs["heap_page_writes"] += 1
                    longs["heap_page_writes_by_eviction"] += 0 if inck else 1
                    longs["heap_page_writes_with_next_link"] += 1 if e.get("next", -1) >= 0 else 0
                longs[e["ev"]] += 1
            out.write(open(tr).read())
            os.remove(tr)
            os.remove(os.path.join(ctx.work, "long.ops"))
            shutil.rmtree(wdir, ignore_errors=True)
    res = vlib.validate(ctx, crash.FAM, "CrashModelTrace", "Trace.cfg", lt, name="val-io-long", timeout=3000)
    judge(ctx, res, lt, "I/O order in long eviction-heavy workloads", prefixes=["C08."])
    if longs["heap_page_writes_by_eviction"] < 50 or longs["heap_page_writes_with_next_link"] < 20:
        raise Inconclusive("vacuous: long workloads produced %s" % dict(longs))
    cov["long_workloads"] = dict(longs)
    conc = {}
    for procs in (4, 16):
        io = os.path.join(ctx.work, "io-p%d.ndjson" % procs)
        h = os.path.join(ctx.work, "hist-p%d.ndjson" % procs)
        vlib.vdrive(ctx, ["rm", "hist", h, 18 if ctx.tier == "thorough" else 6, 8, 30, procs], timeout=1800, ok_codes=(0, 3),
                    env={"VERIF_IOTRACE": io, "VERIF_SEED": str(ctx.seed * 31 + procs)})
        res = vlib.validate(ctx, crash.FAM, "CrashModelTrace", "Trace.cfg", io, name="val-io-p%d" % procs, timeout=1800)
        judge(ctx, res, io, "I/O order under concurrency (GOMAXPROCS=%d)" % procs, prefixes=["C08."])
        c = crash.count_events(io)
        conc["gomaxprocs_%d" % procs] = dict(c)
        if c["WLog"] == 0 or c["WPage"] == 0:
            raise Inconclusive("vacuous: concurrent run produced %s" % dict(c))
    # eviction-heavy concurrent windows with a slow log device (page writes issued while log writes are in flight)
    for procs in (4, 16):
        io = os.path.join(ctx.work, "ioheavy-p%d.ndjson" % procs)
        vlib.vdrive(ctx, ["rm", "io", io, 12 if ctx.tier == "thorough" else 4, procs], timeout=1800, ok_codes=(0, 3),
                    env={"VERIF_SEED": str(ctx.seed * 37 + procs)})
        res = vlib.validate(ctx, crash.FAM, "CrashModelTrace", "Trace.cfg", io, name="val-ioheavy-p%d" % procs, timeout=1800)
        judge(ctx, res, io, "I/O order under concurrency, eviction-heavy, slow log (GOMAXPROCS=%d)" % procs, prefixes=["C08."])
        c = crash.count_events(io)
        hw = sum(1 for e in vlib.read_ndjson(io) if e["ev"] == "WPage" and e.get("heap"))
        conc["eviction_heavy_gomaxprocs_%d" % procs] = dict(c, heap_page_writes=hw)
        if hw < 50 or c["CommitDone"] < 100:
            raise Inconclusive("vacuous: eviction-heavy concurrent run produced %s, %d heap page writes" % (dict(c), hw))
    cov["concurrent_io_events"] = conc
    # design of the log buffer under concurrency (spec/LogBuffer) and the workload that fills it during a flush
    vlib.model_check(ctx, "LogBuffer", "LogBuffer", "MC_recheck.cfg", workers=8)
    for cfg, inv in (("MC_coded.cfg", "NoOverflow"), ("MC_early.cfg", "ForcedAtReturn")):
        r = vlib.tlc(ctx, "LogBuffer", "LogBuffer", cfg, workers=4, name="LogBuffer-" + cfg[:-4])
        if r["rc"] == 0 or inv not in r["out"]:
            raise Inconclusive("LogBuffer %s no longer violates %s: the design model lost its sensitivity" % (cfg, inv))
    cov["log_storm"] = crash.logstorm(ctx, ["C08."])
    vlib.write_evidence(ctx, "model_checking", cov, ASSUME + ["concurrent runs: the recording wrapper does not serialise the device (a log write is recorded on completion, a page write on issue; two windows of three run with a slow log device), commit return is marked by hook VerifTxnEnd inside Commit after its log force"])


@register("C20")
def c20(ctx):
    cov = run(ctx, ["C20."], 8, 60, 1, 2, "crash points inside recovery")  # (thorough: 60 workloads at nesting depth 2, every leaf followed by commit / crash / restart: ~45 min)
    vlib.write_evidence(ctx, "model_checking", cov, ASSUME)
