import os
import vlib
from vlib import Inconclusive
from . import register
from .common import judge
from . import crash


def run(ctx, prefixes, nwork_q, nwork_t, depth_q, depth_t, what):
    thorough = ctx.tier == "thorough"
    crash.design_mc(ctx)
    tr, res, nprobes, points = crash.pipeline(ctx, nwork_t if thorough else nwork_q, depth_t if thorough else depth_q,
                                              torn=True, nest_every=1 if thorough else 4)
    judge(ctx, res, tr, what, prefixes=prefixes)
    c, outcomes, nested, torn = crash.stats(tr)
    for k in ("Begin", "Write", "CommitRet", "AbortRet", "CkptRet", "WLog", "WPage"):
        if c[k] == 0:
            raise Inconclusive("vacuous: no %s events" % k)
    if nprobes == 0:
        raise Inconclusive("no crash image was probed")
    ev = [e for e in vlib.read_ndjson(tr, limit=120) if e["ev"] in ("Write", "CommitStart", "WLog")][:4]
    for e in ev:
        if "probe" in e:
            e["probe"] = dict(e["probe"], nested="(%d nested observations)" % len(e["probe"].get("nested", [])))
        if "torn" in e:
            e["torn"] = "(%d torn variants)" % len(e["torn"])
    ctx.samples.append(dict(kind="trace events (first)", events=ev))
    return dict(states=ctx.states, transitions=ctx.transitions, traces_validated_against_impl=ctx.traces,
                samples=ctx.samples, exhaustive=False,
                events=dict(c), crash_points=points, restarts_performed=nprobes, restart_outcomes=dict(outcomes),
                nested_crash_points=nested, torn_variants=torn, events_validated=ctx.events,
                design_model="WalRecovery.tla (one heap page; Begin/Insert/MarkDelete/Update/Commit steps/Abort steps/FlushLog/Evict/Checkpoint/Crash with torn last log write/Redo/Undo/Flush/GC/Done; second and third crash between any two recovery steps): invariants Recovered, NoPanic, PageBehindLog exhaustive for 1 txn x 2 slots x 2 values x 2 crashes x 6 log records (thorough: also 2 txns / 1 crash, and 7 records); each of the six repaired defects (switch FALSE) is a counterexample of the same spec",
                rule="every prefix of each workload's I/O list after the DDL is a crash point; exhaustive per workload, workloads are seeded")


ASSUME = ["crash points are I/O-call boundaries plus torn variants of one log write; reordering of writes across the two files by the OS is not modelled",
          "single driver goroutine, background threads off (hook H2); the recording wrapper (hook H1) orders page and log writes",
          "rows carry a unique key and a fresh version per write, so a recovered row identifies its writer",
          "the design-level model (WalRecovery) covers one heap page and in-place updates; multi-page heaps, relocation and index rebuild are only covered by the crash probes on the real engine",
          "WalRecovery is bound to the code through the shared contract (CrashModel) and the defect switches, not yet through log-record-level trace validation"]


@register("C01")
def c01(ctx):
    cov = run(ctx, ["C01."], 12, 200, 1, 1, "crash images (durability)")
    vlib.write_evidence(ctx, "model_checking", cov, ASSUME)


@register("C02")
def c02(ctx):
    cov = run(ctx, ["C02."], 12, 200, 0, 0, "crash images (atomicity)")
    vlib.write_evidence(ctx, "model_checking", cov, ASSUME)


@register("C08")
def c08(ctx):
    cov = run(ctx, ["C08."], 16, 300, 0, 0, "I/O order (write-ahead discipline)")
    # the same storage-boundary rules under goroutine concurrency: 8 clients through the request manager on small
    # pools (evictions), page writes and log writes totally ordered by the recording wrapper's mutex
    conc = {}
    for procs in (4, 16):
        io = os.path.join(ctx.work, "io-p%d.ndjson" % procs)
        h = os.path.join(ctx.work, "hist-p%d.ndjson" % procs)
        vlib.vdrive(ctx, ["rm", "hist", h, 18 if ctx.tier == "thorough" else 6, 8, 30, procs], timeout=1800, ok_codes=(0, 3),
                    env={"VERIF_IOTRACE": io, "VERIF_SEED": str(ctx.seed * 31 + procs)})
        res = vlib.validate(ctx, crash.FAM, "CrashModelTrace", "Trace.cfg", io, name="val-io-p%d" % procs, timeout=1800)
        judge(ctx, res, io, "I/O order under concurrency (GOMAXPROCS=%d)" % procs, prefixes=["C08."])
        c = crash.count_events(io)
        conc["gomaxprocs_%d" % procs] = dict(c)
        if c["WLog"] == 0 or c["WPage"] == 0:
            raise Inconclusive("vacuous: concurrent run produced %s" % dict(c))
    cov["concurrent_io_events"] = conc
    vlib.write_evidence(ctx, "model_checking", cov, ASSUME + ["concurrent runs check the page-LSN and log well-formedness rules; commit-return ordering is checked in the single-goroutine workloads only"])


@register("C20")
def c20(ctx):
    cov = run(ctx, ["C20."], 8, 120, 1, 2, "crash points inside recovery")
    vlib.write_evidence(ctx, "model_checking", cov, ASSUME)
