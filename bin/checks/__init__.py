"""Per-property checks.  Each module registers check functions in REGISTRY."""
REGISTRY = {}

def register(pid):
    def deco(fn):
        REGISTRY[pid] = fn
        return fn
    return deco

from . import c16, c15, c18, c13, c06, c03, c09, c11, c17, c14, c01, c04, c12  # noqa
