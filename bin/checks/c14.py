"""C14 - statements release every buffer pin they take.

Every statement event of the SQL drivers carries the vector of pinned pages before and after it; TLC
(SqlModelTrace.PinCheck) requires the set of pinned pages to be unchanged by every statement that has
returned - successful, failing in the planner, or aborting - except CREATE TABLE (index header pages
stay pinned by design).  Workloads: the C06 scenarios (scans, index scans, inserts that allocate heap
pages, relocating updates, deletes on single- and multi-page tables), the C11 join scenarios (hash,
index and nested-loop joins), rolled-back transactions (C03 scenarios on skip-list tables), and
statements that fail; all in fixed pools so that a one-frame leak per statement also shows as pool
exhaustion (a panicking statement is C14.fail).  Concurrent windows: 8 goroutines insert rows with 1 100-byte strings
into a table with a skip list index on the string (three entries per node), so that inserters meet on full nodes and
validations fail; one event per window with the pinned pages before and after."""
import os, collections
import vlib
from vlib import Inconclusive
from . import register
from .common import judge, count_events
from .c06 import plan_kinds

FAM = "SqlModel"


@register("C14")
def check(ctx):
    thorough = ctx.tier == "thorough"
    vlib.build_harness(ctx)
    total = collections.Counter()
    plans = collections.Counter()
    growth = 0
    for name, args in (("c06", ["sql", "c06", None, 600 if thorough else 60, 0]),
                       ("c11", ["sql", "c11", None, 600 if thorough else 60]),
                       ("c14", ["sql", "c14", None, 400 if thorough else 40])):
        tr = os.path.join(ctx.work, name + ".ndjson")
        args[2] = tr
        vlib.vdrive(ctx, args, timeout=3000, ok_codes=(0, 3), env={"VERIF_CTX": "C14"})
        res = vlib.validate(ctx, FAM, "SqlModelTrace", "Trace.cfg", tr, name="val-" + name, timeout=3400)
        judge(ctx, res, tr, name + " statements")
        total.update(count_events(tr))
        plans.update(plan_kinds(tr))
        for e in vlib.read_ndjson(tr):
            if "pb" in e and e["pb"] != e["pa"] and e["ev"] != "Create" and {p[0] for p in e["pb"]} == {p[0] for p in e["pa"]}:
                growth += 1
    for k in ("Insert", "Select", "Update", "Delete", "Join", "Abort", "Window"):
        if total[k] == 0:
            raise Inconclusive("vacuous: no %s events" % k)
    algos = {a: sum(n for p, n in plans.items() if a in p) for a in ("HashJoin", "IndexJoin", "NestedLoopJoin", "RangeScanWithIndex", "SeqScan")}
    ctx.samples.append(dict(kind="statement with pin vectors", events=[e for e in vlib.read_ndjson(os.path.join(ctx.work, "c11.ndjson"), limit=80) if e["ev"] == "Join"][:1]))
    vlib.write_evidence(ctx, "model_checking", dict(
        states=ctx.states, transitions=ctx.transitions, traces_validated_against_impl=ctx.traces,
        samples=ctx.samples, exhaustive=False, statements=dict(total), plan_shapes=algos,
        statements_with_pin_count_growth_on_an_already_pinned_page=growth, events_validated=ctx.events),
        ["the property is about frames left pinned: the check compares the SET of pinned pages before/after; pin-count growth on a permanently pinned page (the skip list's start node) is measured and reported in the evidence but is not a violation",
         "tables with B-tree indexes are not part of this check (the embedded B-tree keeps its own pages pinned on first use)",
         "serial execution; conflict aborts are produced with a second transaction holding a row lock"])
