"""C03 - abort restores the exact pre-transaction state; C07 - indexes agree with their table at quiescence.

Oracle: spec/SqlModel (Abort restores the snapshot taken at Begin; index probes must return exactly the
rows whose column holds the key, range scans in key order).  The driver creates tables through SQL and
through catalog.CreateTable (skip-list, B-tree, unindexed columns), runs committed work, a transaction
of 1-4 statements (inserts, deletes, key-changing / growing / shrinking updates incl. relocations on
multi-page tables, repeated changes of the same rows) that is rolled back - explicitly or because one
of its statements aborted it -, then the full probe battery: heap scan, every index by point lookup
of every rank and by ordered range scans through the index API, and SQL through the planner; then
committed work that reuses the space, and the battery again."""
import os, collections
import vlib
from vlib import Inconclusive
from . import register
from .common import judge, count_events
from .c06 import plan_kinds

FAM = "SqlModel"


def run(ctx, prop, nscen):
    vlib.build_harness(ctx)
    tr = os.path.join(ctx.work, prop.lower() + ".ndjson")
    vlib.vdrive_resumable(ctx, ["sql", "c03", tr, nscen, prop], tr, timeout=3000)
    res = vlib.validate(ctx, FAM, "SqlModelTrace", "Trace.cfg", tr, name="val-" + prop.lower(), timeout=3400)
    judge(ctx, res, tr, "rollback / index agreement histories")
    c = count_events(tr)
    for k in ("Create", "Insert", "Select", "Update", "Delete", "Begin", "Abort", "Commit", "IdxPoint", "IdxRange"):
        if c[k] == 0:
            raise Inconclusive("vacuous: no %s events" % k)
    kinds = collections.Counter()
    intxn_abort = 0
    for e in vlib.read_ndjson(tr):
        if e["ev"] in ("IdxPoint", "IdxRange"):
            kinds[e.get("kind")] += 1
        if e.get("intxn") and e.get("res") == "abort":
            intxn_abort += 1
    ev = [e for e in vlib.read_ndjson(tr, limit=400) if e["ev"] in ("Begin", "Update", "Abort", "IdxRange")][:5]
    ctx.samples.append(dict(kind="events (sample)", events=[{k: v for k, v in e.items() if k not in ("pb", "pa")} for e in ev]))
    return tr, c, kinds, intxn_abort


@register("C03")
def check_c03(ctx):
    tr, c, kinds, ia = run(ctx, "C03", 2500 if ctx.tier == "thorough" else 150)
    vlib.write_evidence(ctx, "model_checking", dict(
        states=ctx.states, transitions=ctx.transitions, traces_validated_against_impl=ctx.traces,
        samples=ctx.samples, exhaustive=False, events=dict(c), index_probes_by_kind=dict(kinds),
        statements_that_aborted_their_transaction=ia, plans=dict(plan_kinds(tr).most_common(10)), events_validated=ctx.events),
        ["serial histories (one transaction at a time); conflict aborts are those a statement of the transaction raises itself",
         "index kinds: skip list and B-tree (B-tree with short keys only); hash and unique skip list not exercised",
         "TLC trace validation against SqlModel; SqlModel itself is not explored as a state space"])


def restarts(ctx):
    """C07 "... and after a restart": file-backed histories with clean and crash-style restarts, a rolled-back
    transaction right before the stop, index kinds skip list, B-tree and hash; the full probe battery after every
    restart."""
    import shutil
    tr = os.path.join(ctx.work, "c07-restarts.ndjson")
    scratch = "/dev/shm/verif-C07r-%d" % os.getpid()
    shutil.rmtree(scratch, ignore_errors=True)
    try:
        vlib.vdrive_resumable(ctx, ["sql", "c09", tr, 1200 if ctx.tier == "thorough" else 80, scratch, "C07"], tr, timeout=3000)
    finally:
        shutil.rmtree(scratch, ignore_errors=True)
    res = vlib.validate(ctx, FAM, "SqlModelTrace", "Trace.cfg", tr, name="val-c07-restarts", timeout=3400)
    judge(ctx, res, tr, "index agreement after restarts")
    c = count_events(tr)
    kinds = collections.Counter(e.get("kind") for e in vlib.read_ndjson(tr) if e["ev"] == "IdxPoint")
    for k in ("Shutdown", "Crash", "Reopen", "IdxPoint"):
        if c[k] == 0:
            raise Inconclusive("vacuous: no %s events in the restart histories" % k)
    for k in ("skiplist", "btree", "hash"):
        if kinds[k] == 0:
            raise Inconclusive("vacuous: no %s index probed after a restart" % k)
    return dict(events=dict(c), index_probes_by_kind=dict(kinds))


@register("C07")
def check_c07(ctx):
    tr, c, kinds, ia = run(ctx, "C07", 2500 if ctx.tier == "thorough" else 150)
    rs = restarts(ctx)
    vlib.write_evidence(ctx, "model_checking", dict(
        states=ctx.states, transitions=ctx.transitions, traces_validated_against_impl=ctx.traces,
        samples=ctx.samples, exhaustive=False, events=dict(c), index_probes_by_kind=dict(kinds),
        plans=dict(plan_kinds(tr).most_common(10)), events_validated=ctx.events, restart_histories=rs),
        ["quiescent points only (no transaction in progress)",
         "index kinds: skip list, B-tree and (in the restart histories) hash. The hash kind is reachable through the catalog API only: its UpdateEntry panics 'not implemented yet' and the optimizer plans ordered range scans over it, which it does not provide; so tables with a hash index get no UPDATE and no predicate on the hash-indexed column - the hash index is exercised by inserts, deletes, rollbacks, restarts and point lookups through the index API. The unique skip list is exercised at container level only (C17).",
         "TLC trace validation against SqlModel"])
