"""C04 - statements see committed data plus their own writes, or abort;
C05 - committed transactions are serializable on the rows they touch.

Oracle: spec/TxnModel (L0: answer = Answer over committed (+) own writes, or abort; dependency graph over
committed transactions acyclic).  The driver executes, in one goroutine and on a fresh in-memory engine
per schedule, EVERY statement-level interleaving of pairs of seeded programs (1-3 statements each over
point reads by index, range reads by index, sequential reads, inserts, deletes, in-place updates,
key-changing updates, relocating updates on 3 rows; commit or abort at the end) and sampled interleavings
of three transactions; after each schedule the committed table is read back by a fresh transaction
through the scan path and the index path.  TLC validates every statement's answer (C04.dirty / hidden /
wrong / final) and the acyclicity of the dependency graph of each schedule (C05.cycle)."""
import os, collections, json, random
import vlib
from vlib import Inconclusive
from . import register
from .common import judge, count_events

FAM = "TxnModel"


STMT = {"PointRead": "pread", "SeqRead": "sread", "Insert": "ins", "Delete": "del", "Update": "upd", "KeyUpdate": "kupd"}


def graph_schedules(ctx, cfg, name):
    """Schedules that together take every edge of the TwoPL state graph (explored under ShapeView: states without
    version numbers and ghost bookkeeping; shared holders in grant order)."""
    dot = os.path.join(ctx.work, name + ".dot")
    vlib.model_check(ctx, "TwoPL", "TwoPL", cfg, workers=1, extra=["-dump", "dot,actionlabels", dot], name="graph-" + name, timeout=3000)
    inits, nodes, edges = vlib.parse_dot(dot)
    os.remove(dot)
    # one schedule per edge (s, a): a shortest path to s, the edge, then an OBSERVATION suffix - every transaction
    # still open reads every key through the index - and every open transaction ends (commit or abort, seeded).
    # The suffix is what makes a wrongly granted write visible: after the implementation has left the path the
    # specification predicts, the specification's own continuation would not look at the damage.
    rng = random.Random(ctx.seed)
    succ = collections.defaultdict(dict)
    for s_, d_, l_ in edges:
        succ[s_].setdefault(l_, d_)
    pathto = {inits[0]: []}
    q = collections.deque([inits[0]])
    while q:
        n_ = q.popleft()
        for l_ in sorted(succ[n_]):
            d_ = succ[n_][l_]
            if d_ not in pathto:
                pathto[d_] = pathto[n_] + [l_]
                q.append(d_)
    keys = sorted({int(vlib.parse_label(l_)[1][1]) for s_ in succ for l_ in succ[s_] if l_.startswith("PointRead")})
    walks, total = [], 0
    for s_ in succ:
        if s_ not in pathto:
            continue
        for l_ in sorted(succ[s_]):
            total += 1
            if l_.startswith("Begin"):
                continue
            walks.append(pathto[s_] + [l_])
    covered = total
    out = []
    for w in walks:
        names = []
        progs = {}
        order = []
        for a, args in (vlib.parse_label(l) for l in w):
            t = args[0]
            if t not in names:
                names.append(t)
                progs[t] = dict(stmts=[], commit=False)
            ti = names.index(t)
            if a == "Begin":
                continue
            if a in ("Commit", "Abort"):
                progs[t]["commit"] = a == "Commit"
                order.append(ti)
                progs[t]["ended"] = True
                continue
            k = STMT[a]
            A = int(args[1]) if len(args) > 1 else 0
            B = 0
            if k == "ins":
                A = 10 + 10 * ti + (A - 10)        # distinct fresh keys per transaction (the contract model keeps keys unique)
            if k == "kupd":
                B = 20 + 10 * ti + A
            progs[t]["stmts"].append([k, A, B])
            order.append(ti)
        open_ = [t for t in names if not progs[t].get("ended")]
        for t in open_:                               # observation suffix
            for k in keys:
                progs[t]["stmts"].append(["pread", k, 0])
                order.append(names.index(t))
        for t in names:
            if not progs[t].pop("ended", False):
                progs[t]["commit"] = rng.random() < 0.6
                order.append(names.index(t))
        out.append(dict(progs=[progs[t] for t in names], order=order))
    ctx.cov["graph_edges_" + name] = total
    ctx.cov["graph_states_" + name] = len(nodes)
    ctx.cov["graph_schedules_" + name] = len(out)
    return out


def run(ctx, prefixes):
    thorough = ctx.tier == "thorough"
    vlib.build_harness(ctx)
    # design level: the TwoPL mechanism spec (no-wait strict 2PL + index maintenance timing, as coded) refines the
    # contract (ReadsRight = C04, Acyclic = C05, Agree, LocksFree) for workloads without key-changing updates; with
    # them the as-coded model exhibits the open finding KF-C04-kupd-hides-row (MC_coded.cfg) and the model of the
    # suggested repair (old index entry kept until commit, MC_fixed.cfg) is safe again.
    vlib.model_check(ctx, "TwoPL", "TwoPL", "MC_coded_nokupd.cfg", workers=8, timeout=1800)
    vlib.model_check(ctx, "TwoPL", "TwoPL", "MC_fixed.cfg", workers=8, timeout=1800)
    if thorough:
        vlib.model_check(ctx, "TwoPL", "TwoPL", "MC_coded_nokupd3.cfg", workers=16, timeout=3400)
    kf = vlib.tlc(ctx, "TwoPL", "TwoPL", "MC_coded.cfg", workers=4, timeout=600, name="TwoPL-as-coded-with-kupd")
    if kf["rc"] == 0:
        raise Inconclusive("the as-coded TwoPL model no longer exhibits KF-C04-kupd-hides-row: model and known_findings.json disagree")
    tr = os.path.join(ctx.work, "txn.ndjson")
    out = vlib.vdrive(ctx, ["txn", "sched", tr, 6000 if thorough else 160, 600 if thorough else 30], timeout=3400, ok_codes=(0, 3))
    res = vlib.validate(ctx, FAM, "TxnModelTrace", "Trace.cfg", tr, name="val-txn", timeout=3400, jvm=("-Xmx8g",))
    judge(ctx, res, tr, "statement-level schedules", prefixes=prefixes)
    # spec -> code: schedules that take every edge of the TwoPL state graph, performed on the real engine
    for cfg, name in ([("MC_walk1.cfg", "1key"), ("MC_walk2.cfg", "2keys"), ("MC_walk1_3.cfg", "1key3stmt")] if thorough else [("MC_walk1.cfg", "1key")]):
        sch = graph_schedules(ctx, cfg, name)
        if len(sch) > 70000:                       # (the 3-statement graph has ~260 000 edges: a seeded sample of them)
            random.Random(ctx.seed).shuffle(sch)
            sch = sch[:40000]
            ctx.cov["graph_schedules_" + name + "_run"] = len(sch)
        wf = os.path.join(ctx.work, name + "-sched.json")
        json.dump(sch, open(wf, "w"))
        wtr = os.path.join(ctx.work, name + "-walk.ndjson")
        vlib.vdrive(ctx, ["txn", "walk", wf, wtr], timeout=3400, ok_codes=(0, 3))
        wres = vlib.validate(ctx, FAM, "TxnModelTrace", "Trace.cfg", wtr, name="val-walk-" + name, timeout=3400, jvm=("-Xmx8g",))
        judge(ctx, wres, wtr, "TwoPL graph schedules " + name, prefixes=prefixes)
    # real goroutine concurrency: every goroutine runs multi-statement transactions of its own; TLC judges the merged
    # invocation / return history (TxnHistoryTrace: dirty / stale / own-write / hidden reads, final table, cycles)
    conc = collections.Counter()
    for procs in (4, 16):
        h = os.path.join(ctx.work, "txnconc-p%d.ndjson" % procs)
        vlib.vdrive(ctx, ["txn", "conc", h, 40 if thorough else 8, 4, 10, procs], timeout=3000, ok_codes=(0, 3),
                    env={"VERIF_SEED": str(ctx.seed * 23 + procs)})
        hres = vlib.validate(ctx, FAM, "TxnHistoryTrace", "History.cfg", h, name="val-txnconc-p%d" % procs, timeout=3000)
        judge(ctx, hres, h, "concurrent transactions (GOMAXPROCS=%d)" % procs, prefixes=prefixes)
        for e in vlib.read_ndjson(h):
            if e["ev"] == "SRet":
                conc[e["k"] + ":" + e["res"][:6]] += 1
            elif e["ev"] in ("CRet", "ARet"):
                conc[e["ev"]] += 1
    if conc["CRet"] == 0 or conc["ARet"] == 0 or conc["upd:ok"] == 0 or conc["upd:abort"] + conc["pread:abort"] == 0:
        raise Inconclusive("vacuous: concurrent transaction windows produced %s" % dict(conc))
    c = count_events(tr)
    kinds = collections.Counter()
    outcomes = collections.Counter()
    for e in vlib.read_ndjson(tr):
        if e["ev"] == "Stmt":
            kinds[e["k"]] += 1
            outcomes[e["res"][:12]] += 1
    if c["Final"] == 0 or outcomes["ok"] == 0 or outcomes["abort"] == 0:
        raise Inconclusive("vacuous: %s %s" % (dict(c), dict(outcomes)))
    for k in ("pread", "rread", "sread", "ins", "del", "upd", "supd", "kupd", "rupd"):
        if kinds[k] == 0:
            raise Inconclusive("vacuous: statement kind %s never run" % k)
    sched = [e for e in vlib.read_ndjson(tr, limit=40)][:12]
    ctx.samples.append(dict(kind="one schedule (first events)", events=sched))
    return dict(states=ctx.states, transitions=ctx.transitions, traces_validated_against_impl=ctx.traces,
                samples=ctx.samples, exhaustive=False, schedules=c["Final"], statements=dict(kinds), outcomes=dict(outcomes),
                commits=c["Commit"], aborts=c["Abort"], events_validated=ctx.events, concurrent_transaction_windows=dict(conc),
                design_model="TwoPL.tla: 2 transactions x 2 rows x <= 2 statements (thorough 3): point reads through the index, sequential reads, inserts, deletes (mark now, remove at commit), in-place and key-changing updates, commit, abort with LIFO undo; invariants ReadsRight, Acyclic, Agree (heap = index = committed store at quiescence), LocksFree",
                rule="per pair of programs all interleavings at statement granularity are executed (exhaustive per pair); pairs are seeded")


ASSUME = ["two parts: (a) statement granularity - one driver goroutine owns all transaction handles, every statement is atomic, interleavings enumerated; (b) real goroutine concurrency - 4 goroutines with transactions of their own, invocation / return stamps from one shared atomic counter, judged without linearization points (dirty = writer had not started to commit when the read returned; stale = overwritten by a transaction that had committed before the read was invoked); in (b) an update always follows a point read of the row in the same transaction, so the overwritten version is observable",
          "keys are kept unique by the workload; phantoms (rows that newly match a predicate) are outside the read sets, as the property documents",
          "TLC trace validation against TxnModel; one open known finding (KF-C04-kupd-hides-row)"]


@register("C04")
def c04(ctx):
    vlib.write_evidence(ctx, "model_checking", run(ctx, ["C04."]), ASSUME)


@register("C05")
def c05(ctx):
    vlib.write_evidence(ctx, "model_checking", run(ctx, ["C05."]), ASSUME)
