"""C17 - each index container behaves as a sorted multimap, also under concurrency.

Oracle: spec/Multimap (set of (key, row id) entries; Point / Range answers).  The driver operates the
index objects of real tables (skip list, unique skip list, B-tree, hash) through the index.Index
interface: seeded sequences with an insert-heavy phase (node splits) and a delete-heavy phase (empty
nodes), duplicates under hot keys, adjacent keys, extremes (MinInt32, +-3.4e38, denormals, empty string),
30- and 380-byte strings, key-changing updates; every 50 operations a battery of point lookups and
full / bounded / half-open ordered scans.  TLC replays the trace on Multimap and compares every answer.
Concurrent clause: windows in which 4 goroutines insert / delete their own entries and look keys up on one
shared index (skip list, B-tree; three key types) while one of them runs ordered scans, over a set of
sentinel entries that are never touched; invoke / return events ordered by a shared atomic counter; TLC
(MultimapHistoryTrace) decides with silent linearization steps whether the history is explainable:
point operations atomic, scans in key order, each entry once, containing every entry present throughout
the scan (the sentinels) and nothing that was never present during it."""
import os, collections
import vlib
from vlib import Inconclusive
from . import register
from .common import judge, count_events

FAM = "Multimap"


@register("C17")
def check(ctx):
    thorough = ctx.tier == "thorough"
    vlib.build_harness(ctx)
    tr = os.path.join(ctx.work, "idx.ndjson")
    nseq, nops = (300, 2000) if thorough else (45, 600)
    # a recorded hang ends the driver process (exit 3); resume with the next sequence
    start, part, parts = 0, 0, []
    while start < nseq and part < 8:
        p = os.path.join(ctx.work, "idx%d.ndjson" % part)
        vlib.vdrive(ctx, ["idx", "seq", p, nseq, nops, start], timeout=3000, ok_codes=(0, 3))
        res = vlib.validate(ctx, FAM, "MultimapTrace", "Trace.cfg", p, name="val-idx%d" % part, timeout=3400)
        judge(ctx, res, p, "index container sequences (part %d)" % part)
        parts.append(p)
        last = None
        for e in vlib.read_ndjson(p):
            if "q" in e:
                last = e
        if last is not None and last.get("res") == "hang":
            start = last["q"] + 1
            part += 1
        else:
            break
    with open(tr, "w") as out:
        for p in parts:
            out.write(open(p).read())
    # concurrent clause
    DEQUE = {"JAVA_TOOL_OPTIONS": "-Dtlc2.tool.queue.IStateQueue=StateDeque"}
    conc = collections.Counter()
    for procs in (4, 16):
        h = os.path.join(ctx.work, "idxconc-p%d.ndjson" % procs)
        vlib.vdrive(ctx, ["idx", "conc", h, 36 if thorough else 9, 4, 40, procs], timeout=3000, ok_codes=(0, 3),
                    env={"VERIF_SEED": str(ctx.seed * 13 + procs)})
        res = vlib.validate(ctx, FAM, "MultimapHistoryTrace", "History.cfg", h, name="val-idxconc-p%d" % procs, env=DEQUE, timeout=3000)
        judge(ctx, res, h, "concurrent index history (GOMAXPROCS=%d)" % procs)
        for e in vlib.read_ndjson(h):
            if e["ev"] == "Inv":
                conc[e["k"]] += 1
    for k in ("ins", "del", "point", "scan"):
        if conc[k] == 0:
            raise Inconclusive("vacuous: no concurrent %s" % k)
    c = count_events(tr)
    kinds = collections.Counter()
    maxlive = 0
    for e in vlib.read_ndjson(tr):
        if e["ev"] in ("MPoint", "MRange"):
            kinds[(e.get("kind"), e.get("ktype"))] += 1
            if e["ev"] == "MRange" and e.get("lo") == -2 and e.get("hi") == -2:
                maxlive = max(maxlive, len(e.get("rids", [])))
    for k in ("MInsert", "MDelete", "MUpdate", "MPoint", "MRange"):
        if c[k] == 0:
            raise Inconclusive("vacuous: no %s events" % k)
    ev = [e for e in vlib.read_ndjson(tr, limit=200) if e["ev"] in ("MInsert", "MRange")][:3]
    ctx.samples.append(dict(kind="index calls (first)", events=[{k: v for k, v in e.items() if k not in ("pb", "pa")} for e in ev]))
    vlib.write_evidence(ctx, "model_checking", dict(
        states=ctx.states, transitions=ctx.transitions, traces_validated_against_impl=ctx.traces,
        samples=ctx.samples, exhaustive=False, events=dict(c),
        probes_by_kind_and_key_type={"%s/%s" % k: v for k, v in kinds.items()}, largest_full_scan=maxlive,
        concurrent_calls=dict(conc),
        events_validated=ctx.events),
        ["concurrent windows: Go scheduling is sampled (seeds x GOMAXPROCS 4 / 16), 4 goroutines x 40 operations per window; order from one shared atomic counter",
         "unique kinds are driven with at most one row id per key; hash index: point operations only",
         "TLC trace validation against Multimap"])
