"""C17 - each index container behaves as a sorted multimap, also under concurrency.

Oracle: spec/Multimap (set of (key, row id) entries; Point / Range answers).  The driver operates the
index objects of real tables (skip list, unique skip list, B-tree, hash) through the index.Index
interface: seeded sequences with an insert-heavy phase (node splits) and a delete-heavy phase (empty
nodes), duplicates under hot keys, adjacent keys, extremes (MinInt32, +-3.4e38, denormals, empty string),
30- and 380-byte strings, key-changing updates; every 50 operations a battery of point lookups and
full / bounded / half-open ordered scans.  TLC replays the trace on Multimap and compares every answer.
Concurrent clause: windows in which 4 goroutines insert / delete their own entries and look keys up on one
shared index (skip list, B-tree; three key types) while one of them runs ordered scans, over a set of
sentinel entries that are never touched; invoke / return events ordered by a shared atomic counter; TLC
(MultimapHistoryTrace) decides with silent linearization steps whether the history is explainable:
point operations atomic, scans in key order, each entry once, containing every entry present throughout
the scan (the sentinels) and nothing that was never present during it.
Mechanism level (spec/SkipList, L1): the skip list's latch protocol - FindNode with latch coupling and the
"go backward" case of Remove, validateNoChangeAndGetLock, node split, node removal, the iterator, update
counters, page ids handed out again - is model-checked (structure invariants, lookups / removals / scans
against the abstract map at their linearization steps, deadlock freedom) for two and three threads; each
defect switch must produce a counterexample.  Bound to the code three ways: (1) random sequential
operations on a real skip list whose nodes hold three long string keys, with the node structure read back
from the real pages after every call and compared with the specification's state (levels, forward
entries, update counters); (2) the schedule of the model's "page id handed out again" counterexample
replayed on the real list through a gate hook, judged as a call history by MultimapHistoryTrace;
(3) the concurrent histories above."""
import os, collections
import vlib
from vlib import Inconclusive
from . import register
from .common import judge, count_events

FAM = "Multimap"
SL = "SkipList"


def skiplist_mechanism(ctx, thorough):
    """L1 SkipList: design-level model checking + conformance of the real container."""
    out = dict()
    for cfg in ["MC_2t.cfg", "MC_pre.cfg", "MC_3t.cfg"] + (["MC_pre_all.cfg", "MC_seq.cfg", "MC_2t_big.cfg"] if thorough else []):
        r = vlib.model_check(ctx, SL, "MC", cfg, workers=14, timeout=3000, jvm=("-Xmx12g",))
        out[cfg] = r["distinct"]
    if thorough:
        # random deep behaviours of a larger configuration (3 threads x 3 operations of any kind after 5 loads, 6 keys,
        # 6 nodes, 2 values, page ids handed out again): TLC simulation mode, 24 000 behaviours of ~340 steps
        r = vlib.model_check(ctx, SL, "MC", "MC_sim.cfg", workers=8, timeout=1800, extra=["-simulate", "num=3000", "-depth", "400"], name="MC-sim")
        out["MC_sim.cfg (simulation, states checked)"] = r["generated"]
    # sensitivity: the switches that stand for the repaired defect (KF-C17-skiplist-page-id-reuse) and for the
    # counter protocol itself must each break an invariant
    sens = [("MC_pre_zero.cfg", "new nodes start at counter 0"), ("MC_pre_stale.cfg", "fetch of an evicted removed page reads the file"),
            ("MC_pre_noentry.cfg", "removing an entry leaves the node's counter")]
    if thorough:
        sens += [("MC_pre_noval.cfg", "counters are not compared"), ("MC_pre_nobump.cfg", "a removed node keeps its counter")]
    for cfg, what in sens:
        r = vlib.tlc(ctx, SL, "MC", cfg, workers=14, timeout=1800, name="sens-" + cfg[:-4])
        if "Invariant StructureOK is violated" not in r["out"] and "Invariant NoError is violated" not in r["out"]:  # (rc 12)
            raise Inconclusive("SkipList %s (%s) no longer fails: the design model lost its sensitivity\n%s" % (cfg, what, r["out"][-1500:]))
    # (1) structure conformance of sequential operations
    tr = os.path.join(ctx.work, "sl-seq.ndjson")
    vlib.vdrive_resumable(ctx, ["sl", "seq", tr, 400 if thorough else 24, 120 if thorough else 80], tr, timeout=2000)
    res = vlib.validate(ctx, SL, "SkipListTrace", "Trace.cfg", tr, name="val-sl-seq", timeout=3000)
    judge(ctx, res, tr, "skip list container, sequential (L1 structure conformance)")
    mech = collections.Counter(v["tag"] for v in res["viol"] if v["tag"].startswith("mech."))
    ops = collections.Counter()
    splits = removals = 0
    prev = None
    for e in vlib.read_ndjson(tr):
        if e["ev"] == "SlOp":
            ops[e["op"]] += 1
            n = len(e.get("nodes", []))
            if prev is not None and n > prev:
                splits += 1
            if prev is not None and n < prev and n > 0:
                removals += 1
            prev = n
        else:
            prev = len(e.get("nodes", []))
    if splits == 0 or removals == 0 or min(ops[k] for k in ("ins", "rem", "get", "scan")) == 0:
        raise Inconclusive("vacuous skip list conformance: splits %d, node removals %d, ops %s" % (splits, removals, dict(ops)))
    # (2) replay of the model's counterexample schedule (page id of a removed node handed out again / read back from
    # the file) on the real list; a violation on it is the repaired defect come back
    ab = os.path.join(ctx.work, "sl-aba.ndjson")
    vlib.vdrive(ctx, ["sl", "aba", ab, 6 if thorough else 2], timeout=600)
    res2 = vlib.validate(ctx, FAM, "MultimapHistoryTrace", "History.cfg", ab, name="val-sl-aba",
                         env={"JAVA_TOOL_OPTIONS": "-Dtlc2.tool.queue.IStateQueue=StateDeque"}, timeout=1200)
    judge(ctx, res2, ab, "replay of the model's counterexample schedules (a Remove re-validates <page id, counter> of a node removed meanwhile; an Insert re-validates a full node an entry was removed from)")
    replays = sum(1 for e in vlib.read_ndjson(ab) if e["ev"] == "Reset")
    # hash container (L1 HashTable): model check under the caller's contract (values unique in the table), the contract
    # dropped must break it; slots of a real two-block table read back after every call
    hm = vlib.model_check(ctx, "HashTable", "MC", "MC_quick.cfg", workers=4, timeout=900)
    r = vlib.tlc(ctx, "HashTable", "MC", "MC_loose.cfg", workers=4, timeout=900, name="sens-hash-loose")
    if "Invariant IsMultimap is violated" not in r["out"]:
        raise Inconclusive("HashTable MC_loose.cfg no longer fails: the design model lost its sensitivity")
    ht = os.path.join(ctx.work, "hasht.ndjson")
    vlib.vdrive(ctx, ["hasht", "seq", ht, 100 if thorough else 12, 100 if thorough else 80], timeout=900)
    res3 = vlib.validate(ctx, "HashTable", "HashTableTrace", "Trace.cfg", ht, name="val-hasht", timeout=3000)
    judge(ctx, res3, ht, "linear probing hash table (two blocks, keys at home at the end, the start and on one slot)")
    hmech = sum(1 for v in res3["viol"] if v["tag"] == "mech.C17.hash")
    hops = collections.Counter(e["op"] + ":" + e["res"] for e in vlib.read_ndjson(ht) if e["ev"] == "HOp")
    tomb = sum(1 for e in vlib.read_ndjson(ht) if e["ev"] == "HOp" and any(s[1] == 0 for s in e["slots"]))
    wrapped = sum(1 for e in vlib.read_ndjson(ht) if e["ev"] == "HOp" and any(s[0] >= 500 for s in e["slots"]) and any(s[0] <= 3 and s[2] in (1, 2, 3, 4, 5) for s in e["slots"]))
    if hops["Insert:ok"] == 0 or hops["Remove:ok"] == 0 or hops["Get:ok"] == 0 or tomb == 0 or wrapped == 0:
        raise Inconclusive("vacuous hash table trace: %s, states with tombstones %d, with wrapped entries %d" % (dict(hops), tomb, wrapped))
    return dict(model_states=out, sequential_ops=dict(ops), node_splits=splits, node_removals=removals,
                structure_divergences=dict(mech), schedule_replays=replays,
                hash_table=dict(model_states=hm["distinct"], calls=dict(hops), states_with_tombstones=tomb,
                                states_with_wrapped_entries=wrapped, slot_divergences=hmech))



@register("C17")
def check(ctx):
    thorough = ctx.tier == "thorough"
    vlib.build_harness(ctx)
    tr = os.path.join(ctx.work, "idx.ndjson")
    nseq, nops = (300, 2000) if thorough else (45, 600)
    # a recorded hang ends the driver process (exit 3); resume with the next sequence
    start, part, parts = 0, 0, []
    while start < nseq and part < 8:
        p = os.path.join(ctx.work, "idx%d.ndjson" % part)
        vlib.vdrive(ctx, ["idx", "seq", p, nseq, nops, start], timeout=3000, ok_codes=(0, 3))
        res = vlib.validate(ctx, FAM, "MultimapTrace", "Trace.cfg", p, name="val-idx%d" % part, timeout=3400)
        judge(ctx, res, p, "index container sequences (part %d)" % part)
        parts.append(p)
        last = None
        for e in vlib.read_ndjson(p):
            if "q" in e:
                last = e
        if last is not None and last.get("res") == "hang":
            start = last["q"] + 1
            part += 1
        else:
            break
    with open(tr, "w") as out:
        for p in parts:
            out.write(open(p).read())
    # concurrent clause
    DEQUE = {"JAVA_TOOL_OPTIONS": "-Dtlc2.tool.queue.IStateQueue=StateDeque"}
    conc = collections.Counter()
    for procs in (4, 16):
        h = os.path.join(ctx.work, "idxconc-p%d.ndjson" % procs)
        vlib.vdrive(ctx, ["idx", "conc", h, 36 if thorough else 9, 4, 40, procs], timeout=3000, ok_codes=(0, 3),
                    env={"VERIF_SEED": str(ctx.seed * 13 + procs)})
        res = vlib.validate(ctx, FAM, "MultimapHistoryTrace", "History.cfg", h, name="val-idxconc-p%d" % procs, env=DEQUE, timeout=3000)
        judge(ctx, res, h, "concurrent index history (GOMAXPROCS=%d)" % procs)
        for e in vlib.read_ndjson(h):
            if e["ev"] == "Inv":
                conc[e["k"]] += 1
    for k in ("ins", "del", "point", "scan"):
        if conc[k] == 0:
            raise Inconclusive("vacuous: no concurrent %s" % k)
    slcov = skiplist_mechanism(ctx, thorough)
    c = count_events(tr)
    kinds = collections.Counter()
    maxlive = 0
    for e in vlib.read_ndjson(tr):
        if e["ev"] in ("MPoint", "MRange"):
            kinds[(e.get("kind"), e.get("ktype"))] += 1
            if e["ev"] == "MRange" and e.get("lo") == -2 and e.get("hi") == -2:
                maxlive = max(maxlive, len(e.get("rids", [])))
    for k in ("MInsert", "MDelete", "MUpdate", "MPoint", "MRange"):
        if c[k] == 0:
            raise Inconclusive("vacuous: no %s events" % k)
    ev = [e for e in vlib.read_ndjson(tr, limit=200) if e["ev"] in ("MInsert", "MRange")][:3]
    ctx.samples.append(dict(kind="index calls (first)", events=[{k: v for k, v in e.items() if k not in ("pb", "pa")} for e in ev]))
    vlib.write_evidence(ctx, "model_checking", dict(
        states=ctx.states, transitions=ctx.transitions, traces_validated_against_impl=ctx.traces,
        samples=ctx.samples, exhaustive=False, events=dict(c),
        probes_by_kind_and_key_type={"%s/%s" % k: v for k, v in kinds.items()}, largest_full_scan=maxlive,
        concurrent_calls=dict(conc), skiplist_mechanism=slcov,
        events_validated=ctx.events),
        ["concurrent windows: Go scheduling is sampled (seeds x GOMAXPROCS 4 / 16), 4 goroutines x 40 operations per window; order from one shared atomic counter",
         "unique kinds are driven with at most one row id per key; hash index: point operations only",
         "TLC trace validation against Multimap",
         "SkipList (L1): 2-3 threads, 4-5 keys, node capacity 3, 2 levels, at most 4 nodes; removed pages stay readable until their frame is evicted; pins are not modelled; the concurrent latch protocol itself is bound to the code by the sequential structure conformance, the schedule replay and the concurrent histories, not by latch-level traces",
         "skip list conformance runs on long string keys only (three entries per node); overwriting an existing key is outside the container's contract and not driven"])
