"""C11 - join answers equal the naive evaluation whatever plan is chosen.

Oracle: spec/SqlModel.JoinAnswerBag (all combinations of base rows satisfying ON and WHERE, projected).
Seeded scenarios: two or three tables (join key of type int / float / varchar from a small domain:
duplicate and missing keys, empty tables, size asymmetries; SQL-created tables with every column
indexed and catalog-API tables with unindexed columns), equality joins in JOIN..ON and in comma form,
0-3 conjunctive filters on any table, select lists in any order; each batch of queries runs with
statistics never refreshed, refreshed, and refreshed-then-data-changed, so that the cost model picks
hash joins in both orientations, index joins and nested-loop joins.  Every third scenario gives all
tables the same column names and adds select lists that differ from the plan's output by table only;
every fifth joins two ~300-row tables of 300-byte payloads in a 32-frame pool, so the materialised
side of the join is evicted and re-read while the join runs.  TLC compares every recorded
answer (as a bag) with the reference."""
import os, collections
import vlib
from vlib import Inconclusive
from . import register
from .common import judge, count_events
from .c06 import plan_kinds

FAM = "SqlModel"


@register("C11")
def check(ctx):
    thorough = ctx.tier == "thorough"
    vlib.build_harness(ctx)
    tr = os.path.join(ctx.work, "c11.ndjson")
    vlib.vdrive_resumable(ctx, ["sql", "c11", tr, 2000 if thorough else 150], tr, timeout=3000)
    res = vlib.validate(ctx, FAM, "SqlModelTrace", "Trace.cfg", tr, name="val-c11", timeout=3400)
    judge(ctx, res, tr, "join queries")
    # the oracle computes join answers table by table (JoinRec); on a trace of small tables it is compared, statement
    # by statement, with the defining cross-product form (JoinAnswerBagRef)
    tr2 = os.path.join(ctx.work, "c11ref.ndjson")
    vlib.vdrive_resumable(ctx, ["sql", "c11", tr2, 300 if thorough else 40], tr2, timeout=1000, env=dict(VERIF_C11_NOPRESSURE="1"))
    res2 = vlib.validate(ctx, FAM, "SqlModelTrace", "Trace.cfg", tr2, name="val-c11ref", timeout=3000, env=dict(JOINREF="1"))
    judge(ctx, res2, tr2, "join queries (reference form of the oracle)")
    bad = [v for v in res2["viol"] if v["tag"] == "oracle.join"]
    if bad:
        raise Inconclusive("the two forms of the join oracle disagree: %s" % bad[:2])
    c = count_events(tr)
    plans = plan_kinds(tr)
    algos = collections.Counter()
    for p, n in plans.items():
        for a in ("HashJoin", "IndexJoin", "NestedLoopJoin"):
            if a in p:
                algos[a] += n
    # joins whose materialised side exceeds the pool, and select lists distinguishable by table only
    pressure = sum(1 for e in vlib.read_ndjson(tr) if e["ev"] == "Join" and e["ts"][0].startswith("m") and "HashJoin" in (e.get("plan") or ""))
    if c["Join"] == 0 or algos["HashJoin"] == 0 or algos["IndexJoin"] == 0 or pressure == 0:
        raise Inconclusive("vacuous: joins %d, algorithms %s, hash joins under memory pressure %d" % (c["Join"], dict(algos), pressure))
    three = sum(1 for e in vlib.read_ndjson(tr) if e["ev"] == "Join" and len(e["ts"]) == 3)
    ev = [e for e in vlib.read_ndjson(tr, limit=300) if e["ev"] == "Join"][:3]
    ctx.samples.append(dict(kind="join queries (first)", events=[{k: v for k, v in e.items() if k not in ("pb", "pa")} for e in ev]))
    vlib.write_evidence(ctx, "model_checking", dict(
        states=ctx.states, transitions=ctx.transitions, traces_validated_against_impl=ctx.traces,
        samples=ctx.samples, exhaustive=False, events=dict(c), join_algorithms=dict(algos), three_table_joins=three, hash_joins_larger_than_pool=pressure,
        plans=dict(plans.most_common(15)), events_validated=ctx.events),
        ["NULL join keys are not exercised; at most one equality per pair of tables (the optimizer's supported form)",
         "plan choice is steered through statistics states and sizes, not forced with hand-built plans",
         "TLC trace validation against SqlModel"])
