"""C11 - join answers equal the naive evaluation whatever plan is chosen.

Oracle: spec/SqlModel.JoinAnswerBag (all combinations of base rows satisfying ON and WHERE, projected).
Seeded scenarios: two or three tables (join key of type int / float / varchar from a small domain:
duplicate and missing keys, empty tables, size asymmetries; SQL-created tables with every column
indexed and catalog-API tables with unindexed columns), equality joins in JOIN..ON and in comma form,
0-3 conjunctive filters on any table, select lists in any order; each batch of queries runs with
statistics never refreshed, refreshed, and refreshed-then-data-changed, so that the cost model picks
hash joins in both orientations, index joins and nested-loop joins.  TLC compares every recorded
answer (as a bag) with the reference."""
import os, collections
import vlib
from vlib import Inconclusive
from . import register
from .common import judge, count_events
from .c06 import plan_kinds

FAM = "SqlModel"


@register("C11")
def check(ctx):
    thorough = ctx.tier == "thorough"
    vlib.build_harness(ctx)
    tr = os.path.join(ctx.work, "c11.ndjson")
    vlib.vdrive_resumable(ctx, ["sql", "c11", tr, 2000 if thorough else 150], tr, timeout=3000)
    res = vlib.validate(ctx, FAM, "SqlModelTrace", "Trace.cfg", tr, name="val-c11", timeout=3400)
    judge(ctx, res, tr, "join queries")
    c = count_events(tr)
    plans = plan_kinds(tr)
    algos = collections.Counter()
    for p, n in plans.items():
        for a in ("HashJoin", "IndexJoin", "NestedLoopJoin"):
            if a in p:
                algos[a] += n
    if c["Join"] == 0 or algos["HashJoin"] == 0 or algos["IndexJoin"] == 0:
        raise Inconclusive("vacuous: joins %d, algorithms %s" % (c["Join"], dict(algos)))
    three = sum(1 for e in vlib.read_ndjson(tr) if e["ev"] == "Join" and len(e["ts"]) == 3)
    ev = [e for e in vlib.read_ndjson(tr, limit=300) if e["ev"] == "Join"][:3]
    ctx.samples.append(dict(kind="join queries (first)", events=[{k: v for k, v in e.items() if k not in ("pb", "pa")} for e in ev]))
    vlib.write_evidence(ctx, "model_checking", dict(
        states=ctx.states, transitions=ctx.transitions, traces_validated_against_impl=ctx.traces,
        samples=ctx.samples, exhaustive=False, events=dict(c), join_algorithms=dict(algos), three_table_joins=three,
        plans=dict(plans.most_common(15)), events_validated=ctx.events),
        ["NULL join keys are not exercised; at most one equality per pair of tables (the optimizer's supported form)",
         "plan choice is steered through statistics states and sizes, not forced with hand-built plans",
         "TLC trace validation against SqlModel"])
