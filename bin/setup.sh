#!/bin/bash
# Offline setup: build the driver binary once (every check rebuilds it from /repo's working tree anyway).
set -e
cd "$(dirname "$0")/.."
export GOFLAGS=-mod=mod GOPROXY=off GOSUMDB=off GOTOOLCHAIN=local
mkdir -p harness/bin evidence replays .work
cp /repo/lib/go.sum harness/go.sum
(cd harness && go build -tags verif -o bin/vdrive ./cmd/vdrive)
java -cp /opt/veriftools/tla/tla2tools.jar tlc2.TLC -h >/dev/null 2>&1 || true
echo setup ok
