#!/bin/bash
# Runs the repository's pinned baseline with the verif guard OFF and checks the 82 stable tests pass.
export GOFLAGS=-mod=mod GOPROXY=off GOSUMDB=off GOTOOLCHAIN=local
OUT=${1:-/verif/.work/baseline}
mkdir -p "$OUT"
: > "$OUT/gotest.json"
for m in lib server; do
  (cd /repo/$m && go test -mod=mod -json -vet=off -count=1 -timeout 25m ./... >> "$OUT/gotest.json" 2>"$OUT/stderr.$m")
done
python3 - "$OUT/gotest.json" <<'PY'
import json,sys
passed=set();failed=set()
for line in open(sys.argv[1],errors='replace'):
    line=line.strip()
    if not line.startswith('{'): continue
    try: ev=json.loads(line)
    except Exception: continue
    a=ev.get('Action');t=ev.get('Test');p=ev.get('Package','')
    if t is None or a not in('pass','fail'): continue
    (passed if a=='pass' else failed).add(p+'::'+t)
passed-=failed
b=json.load(open('/root/.vp/BASELINE.json'))
missing=[t for t in b['stable_pass'] if t not in passed]
print('stable_pass',len(b['stable_pass']),'passed_now',len(passed),'missing',len(missing))
for m in missing: print('MISSING',m)
sys.exit(1 if missing else 0)
PY
