#!/bin/bash
# bin/seedall.sh [seed ids...] - run the quick check of its property against every kept seeded change (applies the
# change to /repo, runs, undoes it) and write seeded/LAST_RUN.md.  /repo is not touched (scratch worktree per change).
cd /verif
ids=${@:-$(ls seeded | grep -v -E 'RESULTS|LAST_RUN')}
out=seeded/LAST_RUN.md
{ echo "# Last run of the quick checks against the kept seeded changes"; echo; echo "/repo $(git -C /repo rev-parse --short HEAD), /verif $(git rev-parse --short HEAD), $(date -u +%Y-%m-%dT%H:%MZ)"; echo; echo "| seed | property | result |"; echo "|---|---|---|"; } > $out.tmp
for id in $ids; do
  prop=${id%%-*}; prop=${prop%r2}; prop=${prop%r3}; prop=${prop%r4}; prop=${prop%r5}
  r=$(bin/seedtest2.sh /verif/seeded/$id/patch.diff $prop 2>&1 | grep -E "^\[$prop\]|does not|not clean" | head -1)
  tag=$(echo "$r" | grep -o "replay=[^ ]*" | sed 's#.*seed[0-9]*-##; s#/replay.json##')
  case "$r" in
    *"rc=1 VIOLATION"*) res="caught ($tag)";;
    *"rc=0"*) res="MISSED";;
    *) res="? $r";;
  esac
  echo "| $id | $prop | $res |" >> $out.tmp
  echo "$id $res"
done
mv $out.tmp $out
