#!/bin/bash
# bin/seedtest2.sh <patch.diff> <property> [<property>...]  - like seedtest.sh, but /repo is not touched: the change
# is applied in a scratch worktree of /repo HEAD and the drivers are built against that checkout (VERIF_REPO).
P=$(readlink -f "$1"); shift
wt=/tmp/seedt2-$$
git -C /repo worktree add -q --detach $wt HEAD || exit 2
trap 'git -C /repo worktree remove --force '$wt' >/dev/null 2>&1; rm -rf '$wt EXIT
git -C $wt apply "$P" || { echo "patch does not apply"; exit 2; }
(cd $wt/lib && GOFLAGS=-mod=mod GOPROXY=off GOSUMDB=off GOTOOLCHAIN=local go build ./... ) || { echo "does not build"; exit 2; }
for prop in "$@"; do
  out=$(cd /verif && VERIF_REPO=$wt VERIF_SEED=${VERIF_SEED:-1} bin/check $prop --tier ${TIER:-quick} 2>&1)
  rc=$?
  echo "[$prop] rc=$rc $(echo "$out" | grep -E '^(VIOLATION|OK|INCONCLUSIVE)' | head -1)"
  echo "$out" | grep '^violation' | head -3 | cut -c1-300
done
