#!/bin/bash
# bin/seedtest.sh <patch.diff> <property> [<property>...]  - apply a seeded change to /repo, run the quick checks, undo it
P=$1; shift
cd /repo || exit 2
if [ -n "$(git status --porcelain)" ]; then echo "repo not clean"; exit 2; fi
git apply "$P" || { echo "patch does not apply"; exit 2; }
(cd lib && GOFLAGS=-mod=mod GOPROXY=off GOSUMDB=off GOTOOLCHAIN=local go build ./... ) || { git checkout -- .; echo "does not build"; exit 2; }
for prop in "$@"; do
  out=$(cd /verif && VERIF_SEED=${VERIF_SEED:-1} bin/check $prop --tier ${TIER:-quick} 2>&1)
  rc=$?
  echo "[$prop] rc=$rc $(echo "$out" | grep -E '^(VIOLATION|OK|INCONCLUSIVE)' | head -1)"
  echo "$out" | grep '^violation' | head -3 | cut -c1-300
done
git checkout -- . ; git status --short
