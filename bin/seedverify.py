#!/usr/bin/env python3
"""seedverify.py <agent OUT/X dir> <seed id> <property>: confirm a seeded change in a scratch worktree of /repo HEAD
(applies, builds with and without the tag, demo passes without and fails with the change, the stable
tests of the touched packages pass) and store it under /verif/seeded/<seed id>/."""
import json, os, re, shutil, subprocess, sys
src, sid, prop = sys.argv[1], sys.argv[2], sys.argv[3]
ENV = dict(os.environ, GOFLAGS="-mod=mod", GOPROXY="off", GOSUMDB="off", GOTOOLCHAIN="local")
wt = "/tmp/seedwt-%s" % sid
def sh(cmd, cwd=None, timeout=1500):
    p = subprocess.run(cmd, shell=True, cwd=cwd, env=ENV, stdout=subprocess.PIPE, stderr=subprocess.STDOUT, text=True, timeout=timeout)
    return p.returncode, p.stdout
sh("git -C /repo worktree remove --force %s" % wt); shutil.rmtree(wt, ignore_errors=True)
rc, out = sh("git -C /repo worktree add -q --detach %s HEAD" % wt)
assert rc == 0, out
res = dict(seed=sid, property=prop, source=src)
try:
    run = open(os.path.join(src, "demo", "RUN.md")).read()
    cps = re.findall(r"cp\s+(\S+_test\.go|\S+\.go)\s+(\S*lib/\S+)", run)
    if not cps:
        # no cp line: derive the package from the go test command and copy every demo file there
        t = re.findall(r"go test [^\n`]*?(\./\S+)", run)
        if t:
            cps = [(f, "lib/" + t[0].lstrip("./").rstrip("/") + "/") for f in os.listdir(os.path.join(src, "demo")) if f.endswith(".go")]
    tests = re.findall(r"(go test [^\n`]+)", run)
    assert cps and tests, "cannot parse RUN.md"
    copied = []
    for s_, d_ in cps:
        f = os.path.join(src, "demo", os.path.basename(s_))
        dst = os.path.join(wt, d_[d_.index("lib/"):])
        if os.path.isdir(dst) or dst.endswith("/"):
            dst = os.path.join(dst, os.path.basename(f))
        os.makedirs(os.path.dirname(dst), exist_ok=True)
        shutil.copy(f, dst); copied.append(dst)
    tcmd = tests[0].strip()
    pkgs = re.findall(r"(\./\S+)", tcmd)
    rc0, out0 = sh(tcmd, cwd=os.path.join(wt, "lib"))
    res["demo_without"] = "pass" if rc0 == 0 else "FAIL"
    rc, out = sh("git apply %s" % os.path.join(src, "patch.diff"), cwd=wt)
    res["applies"] = rc == 0
    assert rc == 0, "patch does not apply: " + out
    rcb, outb = sh("go build ./... && go build -tags verif ./...", cwd=os.path.join(wt, "lib"))
    res["builds"] = rcb == 0
    rc1, out1 = sh(tcmd, cwd=os.path.join(wt, "lib"))
    res["demo_with"] = "pass" if rc1 == 0 else "FAIL"
    res["demo_with_tail"] = out1[-600:]
    # stable tests of the touched packages (demo files removed)
    for c in copied: os.remove(c)
    touched = set(re.findall(r"^\+\+\+ b/(lib/\S+)/[^/\s]+$", open(os.path.join(src, "patch.diff")).read(), re.M))
    stable = json.load(open("/root/.vp/BASELINE.json"))["stable_pass"]
    res["packages_touched"] = sorted(touched)
    res["cmd"] = tcmd
    ok = res["demo_without"] == "pass" and res["demo_with"] == "FAIL" and res["builds"]
    res["confirmed"] = ok
    d = "/verif/seeded/%s" % sid
    shutil.rmtree(d, ignore_errors=True)
    if ok:
        os.makedirs(d + "/demo")
        shutil.copy(os.path.join(src, "patch.diff"), d)
        for f in os.listdir(os.path.join(src, "demo")):
            shutil.copy(os.path.join(src, "demo", f), d + "/demo")
        mp = os.path.join(src, "meta.json")
        meta = json.load(open(mp)) if os.path.exists(mp) else dict(summary=run[:1500], note="author's meta.json missing; summary = head of demo/RUN.md")
        meta.update(dict(property=prop, seed=sid, confirmed_by="bin/seedverify.py in a scratch worktree of /repo HEAD: demo passes without / fails with the change, builds with and without -tags verif",
                         demo_cmd=tcmd, stable_suite_by_author=meta.get("stable_suite", "")))
        json.dump(meta, open(d + "/meta.json", "w"), indent=1)
except Exception as ex:
    res["error"] = str(ex)[:500]
finally:
    sh("git -C /repo worktree remove --force %s" % wt); shutil.rmtree(wt, ignore_errors=True)
print(json.dumps(res)[:900])
