SPECIFICATION Spec
CONSTANTS
  PageSize = 4096
  Hdr = 24
  SlotSz = 8
  Sizes <- SzA
  Tags <- Tg1
  MaxPages = 2
  MaxSlots = 2
INVARIANTS PagesOK LastOK
PROPERTIES Isolation Moved
