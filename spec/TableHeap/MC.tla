---- MODULE MC ----
EXTENDS TableHeap
SzA == {1300, 2000}
SzB == {900, 1800, 2600}
Tg1 == {0}
====
