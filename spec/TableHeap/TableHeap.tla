------------------------------- MODULE TableHeap -------------------------------
(* L1 mechanism specification of lib/storage/access/table_heap.go and table_heap_iterator.go: a heap is a chain   *)
(* of slotted pages (page level: spec/SlottedPage - the same rules, here as functions on page values).             *)
(*   InsertTuple   L63   starts at the page remembered as "last", walks the chain forward, appends a new page when  *)
(*                       no page from there on has room; remembers the page it used                                  *)
(*   UpdateTuple   L143  in place when the page allows it; otherwise (no room, or the row shrinks) the old row is    *)
(*                       delete-marked and the new one inserted like any other row: the row id changes               *)
(*   MarkDelete L230, RollbackDelete L299, ApplyDelete L268 (which also resets "last" to the first page)             *)
(*   GetTuple L327;  Iterator / GetFirstTuple / Next: every row that is present and not delete-marked, in chain      *)
(*                       and slot order (marked rows of the scanning transaction itself are stepped over, pages      *)
(*                       without rows are passed)                                                                    *)
(* Recovery-phase mode as in SlottedPage: one transaction, no row locks, no logging (locks: spec/LockManager,        *)
(* spec/TwoPL; logging: spec/WalRecovery).  Layout constants are the code's.                                         *)
EXTENDS Integers, Sequences, FiniteSets, TLC

CONSTANTS PageSize, Hdr, SlotSz,   \* 4096, 24, 8
          Sizes, Tags,
          MaxPages, MaxSlots       \* model bounds

VARIABLES pages,   \* sequence of pages in chain order; a page is [cnt, fsp, slot]
          last,    \* position of the page InsertTuple starts from
          reply

vars == <<pages, last, reply>>

EmptySlot == [off |-> 0, size |-> 0, mark |-> FALSE, tag |-> -1]
NewPg == [cnt |-> 0, fsp |-> PageSize, slot |-> <<>>]
Occupied(s) == s.size > 0
Live(s) == s.size > 0 /\ ~s.mark
PFree(p) == p.fsp - Hdr - SlotSz * p.cnt
PFirstEmpty(p) == IF \E i \in 1..p.cnt : p.slot[i].size = 0
                    THEN CHOOSE i \in 1..p.cnt : p.slot[i].size = 0 /\ \A j \in 1..(i - 1) : p.slot[j].size # 0
                    ELSE p.cnt + 1
PFits(p, s) == PFree(p) >= s + SlotSz
PInsert(p, s, tg) ==
  LET i == PFirstEmpty(p)
      ns == [off |-> p.fsp - s, size |-> s, mark |-> FALSE, tag |-> tg]
  IN [p |-> [cnt |-> IF i = p.cnt + 1 THEN p.cnt + 1 ELSE p.cnt, fsp |-> p.fsp - s,
             slot |-> IF i = p.cnt + 1 THEN Append(p.slot, ns) ELSE [p.slot EXCEPT ![i] = ns]],
      i |-> i]
\* "ok" / "fail" / "nospace" / "rollbackdifficult" of TablePage.UpdateTuple (not a rollback)
PUpdateRes(p, i, s) ==
  IF i > p.cnt \/ ~Live(p.slot[i]) THEN "fail"
  ELSE IF PFree(p) + p.slot[i].size < s THEN "nospace"
  ELSE IF p.slot[i].size > s THEN "rollbackdifficult"
  ELSE "ok"
PUpdate(p, i, s, tg) ==
  LET old == p.slot[i].size
      lim == p.slot[i].off + old
  IN [p EXCEPT !.fsp = p.fsp + old - s,
               !.slot = [j \in 1..p.cnt |->
                           IF j = i THEN [off |-> p.slot[i].off + old - s, size |-> s, mark |-> FALSE, tag |-> tg]
                           ELSE IF Occupied(p.slot[j]) /\ p.slot[j].off < lim THEN [p.slot[j] EXCEPT !.off = @ + old - s]
                           ELSE p.slot[j]]]
PApply(p, i) ==
  LET sz == p.slot[i].size
      o == p.slot[i].off
  IN [p EXCEPT !.fsp = p.fsp + sz,
               !.slot = [j \in 1..p.cnt |->
                           IF j = i THEN EmptySlot
                           ELSE IF Occupied(p.slot[j]) /\ p.slot[j].off < o THEN [p.slot[j] EXCEPT !.off = @ + sz]
                           ELSE p.slot[j]]]

Init == pages = <<NewPg>> /\ last = 1 /\ reply = [op |-> "init", res |-> "ok"]

\* the page InsertTuple ends up in, starting from position k: the first page with room, or one past the chain
RECURSIVE Target(_, _)
Target(k, s) == IF k > Len(pages) THEN k ELSE IF PFits(pages[k], s) THEN k ELSE Target(k + 1, s)

\* pages and rid after inserting (s, tg) into `pgs` starting at position k
InsertInto(pgs, k0, s, tg) ==
  LET RECURSIVE T(_)
      T(k) == IF k > Len(pgs) THEN k ELSE IF PFits(pgs[k], s) THEN k ELSE T(k + 1)
      k == T(k0)
      base == IF k > Len(pgs) THEN Append(pgs, NewPg) ELSE pgs
      r == PInsert(base[k], s, tg)
  IN [pages |-> [base EXCEPT ![k] = r.p], k |-> k, i |-> r.i]

CanInsert(pgs, k0, s) ==
  LET RECURSIVE T(_)
      T(k) == IF k > Len(pgs) THEN k ELSE IF PFits(pgs[k], s) THEN k ELSE T(k + 1)
      k == T(k0)
  IN /\ k <= MaxPages
     /\ (k <= Len(pgs) => (pgs[k].cnt < MaxSlots \/ PFirstEmpty(pgs[k]) <= pgs[k].cnt))

Insert(s, tg) ==
  /\ CanInsert(pages, last, s)
  /\ LET r == InsertInto(pages, last, s, tg) IN
     /\ pages' = r.pages /\ last' = r.k
     /\ reply' = [op |-> "Insert", res |-> "ok", k |-> r.k, i |-> r.i]

Update(k, i, s, tg) ==
  /\ k \in 1..Len(pages)
  /\ LET res == PUpdateRes(pages[k], i, s) IN
     CASE res = "ok" -> /\ pages' = [pages EXCEPT ![k] = PUpdate(pages[k], i, s, tg)]
                        /\ reply' = [op |-> "Update", res |-> "ok", k |-> k, i |-> i, nk |-> k, ni |-> i]
                        /\ UNCHANGED last
       [] res = "fail" -> /\ reply' = [op |-> "Update", res |-> "fail", k |-> k, i |-> i, nk |-> 0, ni |-> 0]
                          /\ UNCHANGED <<pages, last>>
       [] OTHER -> \* the old row is delete-marked, the new one goes where any new row would go
                   LET marked == [pages EXCEPT ![k].slot[i].mark = TRUE] IN
                   /\ CanInsert(marked, last, s)
                   /\ LET r == InsertInto(marked, last, s, tg) IN
                      /\ pages' = r.pages /\ last' = r.k
                      /\ reply' = [op |-> "Update", res |-> "moved", k |-> k, i |-> i, nk |-> r.k, ni |-> r.i]

MarkDelete(k, i) ==
  /\ k \in 1..Len(pages)
  /\ IF i > pages[k].cnt \/ ~Live(pages[k].slot[i])
       THEN reply' = [op |-> "MarkDelete", res |-> "fail", k |-> k, i |-> i] /\ UNCHANGED <<pages, last>>
       ELSE /\ pages' = [pages EXCEPT ![k].slot[i].mark = TRUE]
            /\ reply' = [op |-> "MarkDelete", res |-> "ok", k |-> k, i |-> i]
            /\ UNCHANGED last

RollbackDelete(k, i) ==
  /\ k \in 1..Len(pages) /\ i <= pages[k].cnt /\ Occupied(pages[k].slot[i])
  /\ pages' = [pages EXCEPT ![k].slot[i].mark = FALSE]
  /\ reply' = [op |-> "RollbackDelete", res |-> "ok", k |-> k, i |-> i]
  /\ UNCHANGED last

ApplyDelete(k, i) ==
  /\ k \in 1..Len(pages) /\ i <= pages[k].cnt /\ Occupied(pages[k].slot[i])
  /\ pages' = [pages EXCEPT ![k] = PApply(pages[k], i)]
  /\ last' = 1                  \* t.lastPageID = t.firstPageID
  /\ reply' = [op |-> "ApplyDelete", res |-> "ok", k |-> k, i |-> i]

Get(k, i) ==
  /\ k \in 1..Len(pages)
  /\ UNCHANGED <<pages, last>>
  /\ reply' = LET p == pages[k] IN
              IF i > p.cnt THEN [op |-> "Get", res |-> "badslot", k |-> k, i |-> i]
              ELSE IF p.slot[i].size = 0 THEN [op |-> "Get", res |-> "empty", k |-> k, i |-> i]
              ELSE IF p.slot[i].mark THEN [op |-> "Get", res |-> "deleted", k |-> k, i |-> i]
              ELSE [op |-> "Get", res |-> "ok", k |-> k, i |-> i, tag |-> p.slot[i].tag, size |-> p.slot[i].size]

\* what a complete run of the iterator returns: <<page position, slot, tag>> of every live row, in order
RECURSIVE RowsFrom(_, _)
RowsFrom(k, i) ==
  IF k > Len(pages) THEN <<>>
  ELSE IF i > pages[k].cnt THEN RowsFrom(k + 1, 1)
  ELSE (IF Live(pages[k].slot[i]) THEN <<<<k, i, pages[k].slot[i].tag>>>> ELSE <<>>) \o RowsFrom(k, i + 1)
Scan ==
  /\ UNCHANGED <<pages, last>>
  /\ reply' = [op |-> "Scan", res |-> "ok", rows |-> RowsFrom(1, 1)]

Next == \/ \E s \in Sizes, tg \in Tags : Insert(s, tg)
        \/ \E k \in 1..MaxPages, i \in 1..MaxSlots :
             \/ \E s \in Sizes, tg \in Tags : Update(k, i, s, tg)
             \/ MarkDelete(k, i) \/ RollbackDelete(k, i) \/ ApplyDelete(k, i) \/ Get(k, i)
        \/ Scan
Spec == Init /\ [][Next]_vars

--------------------------------------------------------------------------------
RECURSIVE SumSz(_, _)
SumSz(p, S) == IF S = {} THEN 0 ELSE LET i == CHOOSE x \in S : TRUE IN p.slot[i].size + SumSz(p, S \ {i})
POcc(p) == {i \in 1..p.cnt : Occupied(p.slot[i])}
PageOK(p) ==
  /\ p.cnt = Len(p.slot) /\ p.fsp >= Hdr + SlotSz * p.cnt
  /\ p.fsp = PageSize - SumSz(p, POcc(p))
  /\ \A i \in POcc(p) : /\ p.slot[i].off >= p.fsp /\ p.slot[i].off + p.slot[i].size <= PageSize
                        /\ \A j \in POcc(p) : i # j => (p.slot[i].off + p.slot[i].size <= p.slot[j].off
                                                        \/ p.slot[j].off + p.slot[j].size <= p.slot[i].off)
PagesOK == \A k \in 1..Len(pages) : PageOK(pages[k])
LastOK == last \in 1..Len(pages)
\* a row keeps its row id and content unless the operation names it; a moved row is marked where it was and live where it went
Isolation ==
  [][\A k \in 1..Len(pages) : \A j \in 1..pages[k].cnt :
        (~("k" \in DOMAIN reply' /\ reply'.k = k /\ reply'.i = j)
         /\ ~("nk" \in DOMAIN reply' /\ reply'.nk = k /\ reply'.ni = j)) =>
           (pages'[k].slot[j].tag = pages[k].slot[j].tag /\ pages'[k].slot[j].size = pages[k].slot[j].size
            /\ pages'[k].slot[j].mark = pages[k].slot[j].mark)]_vars
Moved ==
  [][(reply'.op = "Update" /\ reply'.res = "moved") =>
        /\ pages'[reply'.k].slot[reply'.i].mark /\ pages'[reply'.k].slot[reply'.i].tag = pages[reply'.k].slot[reply'.i].tag
        /\ Live(pages'[reply'.nk].slot[reply'.ni])]_vars
================================================================================
