--------------------------- MODULE TableHeapTrace ---------------------------
(* Trace specification for TableHeap (C15 at heap level).  Every recorded TableHeap call is judged in two ways:      *)
(*  (a) property clauses, evaluated on the projection of the real chain (adopted as the specification's state):      *)
(*      C15.heap.page     a page of the chain breaks the page invariants (overlap, header, free space)                *)
(*      C15.heap.other    a row the call did not name changed its content, size, mark or row id, or vanished          *)
(*      C15.heap.result   the call's own effect is wrong: the inserted / updated row is not there with its content,   *)
(*                        a moved row is not marked where it was or not live where it went, Get returns other bytes   *)
(*                        than the slot holds, a mark operation changed something else                                *)
(*      C15.heap.scan     the iterator does not return exactly the present, unmarked rows in chain and slot order     *)
(*      C15.heap.panic    the call panicked                                                                           *)
(*  (b) mechanism conformance, counted but not a verdict: mech.C15.heap - the chain after the call is not the one     *)
(*      the specification's own action produces from the chain before it (page chosen by InsertTuple, slot reuse,     *)
(*      in-place or moved, offsets).                                                                                   *)
EXTENDS TableHeap, TraceKit

VARIABLES l, viol
tvars == <<vars, l, viol>>
V(tag, ln, info) == <<[tag |-> tag, line |-> ln, info |-> info, kf |-> "new"]>>

TInit == Init /\ l = 1 /\ viol = <<>>

Logged(e) == [k \in DOMAIN e.pages |-> [cnt |-> e.pages[k].cnt, fsp |-> e.pages[k].fsp,
                                        slot |-> [j \in DOMAIN e.pages[k].slots |->
                                                    [off |-> IF e.pages[k].slots[j].size = 0 THEN 0 ELSE e.pages[k].slots[j].off,
                                                     size |-> e.pages[k].slots[j].size, mark |-> e.pages[k].slots[j].mark,
                                                     tag |-> e.pages[k].slots[j].tag]]]]
Named(e) == {<<e.k, e.i>>, <<e.nk, e.ni>>}
\* rows of `old` (occupied slots) not named by the call are the same in `new`
OthersKept(old, new, e) ==
  \A k \in DOMAIN old : \A j \in 1..old[k].cnt :
     (Occupied(old[k].slot[j]) /\ <<k, j>> \notin Named(e)) =>
        /\ k \in DOMAIN new /\ j <= new[k].cnt
        /\ new[k].slot[j].tag = old[k].slot[j].tag /\ new[k].slot[j].size = old[k].slot[j].size
        /\ new[k].slot[j].mark = old[k].slot[j].mark
NoNewRows(old, new, e) ==
  \A k \in DOMAIN new : \A j \in 1..new[k].cnt :
     (Occupied(new[k].slot[j]) /\ <<k, j>> \notin Named(e)) =>
        (k \in DOMAIN old /\ j <= old[k].cnt /\ Occupied(old[k].slot[j]))
SlotIs(pgs, k, j, s, tg, m) == k \in DOMAIN pgs /\ j \in 1..pgs[k].cnt /\ pgs[k].slot[j].size = s /\ pgs[k].slot[j].tag = tg /\ pgs[k].slot[j].mark = m
RowsOfChain(pgs) ==
  LET RECURSIVE R(_, _)
      R(k, i) == IF k > Len(pgs) THEN <<>>
                 ELSE IF i > pgs[k].cnt THEN R(k + 1, 1)
                 ELSE (IF Live(pgs[k].slot[i]) THEN <<<<k, i, pgs[k].slot[i].tag>>>> ELSE <<>>) \o R(k, i + 1)
  IN R(1, 1)
WasLive(k, j) == k \in DOMAIN pages /\ j \in 1..pages[k].cnt /\ Live(pages[k].slot[j])
WasOcc(k, j) == k \in DOMAIN pages /\ j \in 1..pages[k].cnt /\ Occupied(pages[k].slot[j])

ResultOK(e, new) ==
  CASE e.op = "Insert" -> e.res = "ok" /\ SlotIs(new, e.k, e.i, e.s, e.tag, FALSE) /\ ~WasOcc(e.k, e.i)
    [] e.op = "Update" ->
         IF ~WasLive(e.k, e.i) THEN e.res = "fail" /\ new = pages
         ELSE \/ e.res = "ok" /\ SlotIs(new, e.k, e.i, e.s, e.tag, FALSE)
              \/ e.res = "moved" /\ <<e.nk, e.ni>> # <<e.k, e.i>> /\ ~WasOcc(e.nk, e.ni)
                 /\ SlotIs(new, e.k, e.i, pages[e.k].slot[e.i].size, pages[e.k].slot[e.i].tag, TRUE)
                 /\ SlotIs(new, e.nk, e.ni, e.s, e.tag, FALSE)
    [] e.op = "MarkDelete" ->
         IF WasLive(e.k, e.i) THEN e.res = "ok" /\ SlotIs(new, e.k, e.i, pages[e.k].slot[e.i].size, pages[e.k].slot[e.i].tag, TRUE)
         ELSE e.res = "fail" /\ new = pages
    [] e.op = "RollbackDelete" -> SlotIs(new, e.k, e.i, pages[e.k].slot[e.i].size, pages[e.k].slot[e.i].tag, FALSE)
    [] e.op = "ApplyDelete" -> e.k \in DOMAIN new /\ e.i <= new[e.k].cnt /\ new[e.k].slot[e.i].size = 0
    [] e.op = "Get" ->
         /\ new = pages
         /\ IF ~(e.k \in DOMAIN pages /\ e.i \in 1..pages[e.k].cnt) THEN e.res = "badslot"
            ELSE IF pages[e.k].slot[e.i].size = 0 \/ pages[e.k].slot[e.i].mark THEN e.res = "deleted"
            ELSE e.res = "ok" /\ e.gtag = pages[e.k].slot[e.i].tag /\ e.gsize = pages[e.k].slot[e.i].size
    [] e.op = "Scan" -> new = pages
    [] OTHER -> FALSE

\* what the specification's own action makes of the chain
Expected(e) ==
  CASE e.op = "Insert" -> InsertInto(pages, last, e.s, e.tag).pages
    [] e.op = "Update" -> IF ~WasLive(e.k, e.i) THEN pages
                          ELSE IF PUpdateRes(pages[e.k], e.i, e.s) = "ok" THEN [pages EXCEPT ![e.k] = PUpdate(pages[e.k], e.i, e.s, e.tag)]
                          ELSE InsertInto([pages EXCEPT ![e.k].slot[e.i].mark = TRUE], last, e.s, e.tag).pages
    [] e.op = "MarkDelete" -> IF WasLive(e.k, e.i) THEN [pages EXCEPT ![e.k].slot[e.i].mark = TRUE] ELSE pages
    [] e.op = "RollbackDelete" -> [pages EXCEPT ![e.k].slot[e.i].mark = FALSE]
    [] e.op = "ApplyDelete" -> [pages EXCEPT ![e.k] = PApply(pages[e.k], e.i)]
    [] OTHER -> pages

Check(e, ln, new) ==
     (IF e.panic # "" THEN V("C15.heap.panic", ln, <<e.op, e.k, e.i, e.panic>>) ELSE <<>>)
  \o (IF e.panic = "" /\ \E k \in DOMAIN new : ~PageOK(new[k]) THEN V("C15.heap.page", ln, <<e.op, e.k, e.i>>) ELSE <<>>)
  \o (IF e.panic = "" /\ ~(OthersKept(pages, new, e) /\ NoNewRows(pages, new, e) /\ Len(new) >= Len(pages))
        THEN V("C15.heap.other", ln, <<e.op, e.k, e.i, e.nk, e.ni>>) ELSE <<>>)
  \o (IF e.panic = "" /\ ~ResultOK(e, new) THEN V("C15.heap.result", ln, <<e.op, e.k, e.i, e.s, e.res, e.nk, e.ni>>) ELSE <<>>)
  \o (IF e.panic = "" /\ e.op = "Scan" /\ [j \in DOMAIN e.rows |-> <<e.rows[j][1], e.rows[j][2], e.rows[j][3]>>] # RowsOfChain(pages)
        THEN V("C15.heap.scan", ln, [got |-> e.rows, want |-> RowsOfChain(pages)]) ELSE <<>>)
  \o (IF e.panic = "" /\ new # Expected(e) THEN V("mech.C15.heap", ln, <<e.op, e.k, e.i, e.s, e.res>>) ELSE <<>>)

TNext ==
  /\ l <= TraceLen
  /\ LET e == TraceLog[l] IN
     IF e.ev = "Reset"
       THEN /\ pages' = Logged(e) /\ last' = 1 /\ reply' = [op |-> "init", res |-> "ok"]
            /\ viol' = AddViol(viol, IF Logged(e) # <<NewPg>> THEN V("mech.C15.heap", l, <<"fresh heap">>) ELSE <<>>)
       ELSE LET new == IF e.panic = "" THEN Logged(e) ELSE pages IN
            /\ viol' = AddViol(viol, Check(e, l, new))
            /\ pages' = new
            /\ last' = (IF e.op = "ApplyDelete" THEN 1
                        ELSE IF e.op = "Insert" /\ e.k \in DOMAIN new THEN e.k
                        ELSE IF e.op = "Update" /\ e.res = "moved" /\ e.nk \in DOMAIN new THEN e.nk
                        ELSE last)
            /\ reply' = [op |-> e.op, res |-> e.res]
  /\ l' = l + 1

TSpec == TInit /\ [][TNext]_tvars
Done == (l = TraceLen + 1) => Emit(viol, l - 1)
=============================================================================
