CONSTANTS
  PageSize = 4096
  Hdr = 24
  SlotSz = 8
  Sizes = {1}
  Tags = {0}
  MaxPages = 1
  MaxSlots = 1
SPECIFICATION TSpec
INVARIANT Done
CHECK_DEADLOCK FALSE
