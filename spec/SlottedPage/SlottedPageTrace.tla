--------------------------- MODULE SlottedPageTrace ---------------------------
(* Deterministic trace specification for SlottedPage (C15).  Every recorded   *)
(* TablePage call is one action of SlottedPage; its outcome and the recorded  *)
(* projection of the real page (slot array, free-space pointer, decoded       *)
(* content tags, header fields) are compared with the specification.          *)
(*   C15.result   outcome (ok / nospace / fail / slot chosen) differs         *)
(*   C15.layout   slot offsets, sizes, marks, count or free-space pointer     *)
(*                differ (overlap, wrong compaction arithmetic, wrong free    *)
(*                space)                                                      *)
(*   C15.content  bytes read back differ from what was last stored under the  *)
(*                row id (lost or corrupted row, another row changed)         *)
(*   C15.header   page id / prev / next header fields changed                 *)
(*   C15.panic    the call panicked                                           *)
EXTENDS SlottedPage, TraceKit

VARIABLES l, viol
tvars == <<vars, l, viol>>

TInit == Init /\ l = 1 /\ viol = <<>>

V(tag, ln, info) == <<[tag |-> tag, line |-> ln, info |-> info]>>

SlotEq(a, b) == a.off = b.off /\ a.size = b.size /\ a.mark = b.mark
ProjLayoutOK(e) == /\ e.cnt = cnt' /\ e.fsp = fsp' /\ Len(e.slots) = cnt'
                   /\ \A i \in 1..cnt' : SlotEq(e.slots[i], slot'[i])
ProjContentOK(e) == Len(e.slots) = cnt' => \A i \in 1..cnt' : e.slots[i].tag = slot'[i].tag

ResultOK(e) ==
  CASE e.ev = "Insert" -> e.res = reply'.res /\ (e.res = "ok" => e.i = reply'.i)
    [] e.ev = "Update" -> e.res = reply'.res /\ (e.res = "ok" => e.oldtag = slot[e.i].tag)
    [] e.ev = "MarkDelete" -> e.res = reply'.res /\ (e.res = "ok" => e.tag = reply'.tag)
    [] e.ev = "Get" -> IF reply'.res \in {"empty", "deleted"} THEN e.res = "selfdeleted"
                       ELSE e.res = reply'.res /\ (e.res = "ok" => (e.tag = reply'.tag /\ e.size = reply'.size))
    [] OTHER -> e.res = reply'.res

Check(e, ln) ==
     (IF e.panic # "" THEN V("C15.panic", ln, <<e.ev, e.panic>>) ELSE <<>>)
  \o (IF e.panic = "" /\ ~ResultOK(e) THEN V("C15.result", ln, <<e.ev, e.res, "spec", reply'>>) ELSE <<>>)
  \o (IF ~ProjLayoutOK(e) THEN V("C15.layout", ln, <<e.ev, "fsp", e.fsp, fsp', "cnt", e.cnt, cnt'>>) ELSE <<>>)
  \o (IF ProjLayoutOK(e) /\ ~ProjContentOK(e) THEN V("C15.content", ln, <<e.ev, e.i>>) ELSE <<>>)
  \o (IF e.pid # 7 \/ e.prev # -1 \/ e.next # -1 THEN V("C15.header", ln, <<e.pid, e.prev, e.next>>) ELSE <<>>)

Disabled(e) == UNCHANGED pvars /\ reply' = [op |-> e.ev, res |-> "not-enabled-in-spec", i |-> e.i]

TNext ==
  /\ l <= TraceLen
  /\ LET e == TraceLog[l] IN
       /\ CASE e.ev = "Reset"  -> cnt' = 0 /\ fsp' = PageSize /\ slot' = <<>>
                                  /\ reply' = [op |-> "init", res |-> "ok", i |-> 0]
            [] e.ev = "Insert" -> Insert(e.s, e.tag)
            [] e.ev = "Update" -> Update(e.i, e.s, e.rb, e.tag)
            [] e.ev = "MarkDelete" -> MarkDelete(e.i)
            [] e.ev = "ApplyDelete" -> IF ENABLED ApplyDelete(e.i) THEN ApplyDelete(e.i) ELSE Disabled(e)
            [] e.ev = "RollbackDelete" -> IF ENABLED RollbackDelete(e.i) THEN RollbackDelete(e.i) ELSE Disabled(e)
            [] e.ev = "Get" -> Get(e.i)
       /\ viol' = AddViol(viol, IF e.ev = "Reset"
                                  THEN (IF ProjLayoutOK(e) THEN <<>> ELSE V("C15.layout", l, <<"fresh page", e.fsp, e.cnt>>))
                                  ELSE Check(e, l))
  /\ l' = l + 1

TSpec == TInit /\ [][TNext]_tvars
Done == (l = TraceLen + 1) => Emit(viol, l - 1)
===============================================================================
