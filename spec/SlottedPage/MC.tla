---- MODULE MC ----
EXTENDS SlottedPage
View == pvars
====
