CONSTANTS
  PageSize = 4096
  Hdr = 24
  SlotSz = 8
  Sizes = {1, 16, 1000, 2028, 4064}
  Tags = {0}
  MaxSlots = 4
SPECIFICATION Spec
INVARIANTS TypeOK NoOverlap HeaderSafe FreeExact
PROPERTY Isolation
VIEW View
CHECK_DEADLOCK FALSE
