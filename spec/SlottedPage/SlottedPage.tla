------------------------------ MODULE SlottedPage ------------------------------
(***************************************************************************)
(* L1 mechanism specification of lib/storage/access/table_page.go: one     *)
(* slotted heap page in recovery-phase mode (no row locks, no logging).    *)
(* Layout constants are the code's: page 4096 B, header 24 B, slot 8 B.    *)
(* One action per TablePage method (each runs under the page W-latch):     *)
(*   InsertTuple L68, UpdateTuple L143, MarkDelete L266, ApplyDelete L335, *)
(*   RollbackDelete L404, GetTuple L552.                                   *)
(* A slot is [off, size, mark, tag]; size = 0 /\ off = 0 is an empty slot; *)
(* `tag` identifies the bytes last stored under that row id (the driver    *)
(* derives the payload from it and decodes it again on read-back).         *)
(***************************************************************************)
EXTENDS Integers, Sequences, FiniteSets, TLC

CONSTANTS PageSize, Hdr, SlotSz,   \* 4096, 24, 8
          Sizes,                   \* row sizes the model explores
          Tags,                    \* content identities available to a write
          MaxSlots                 \* bound on the slot array (model only)

VARIABLES cnt,    \* tuple count (length of the slot array)
          fsp,    \* free-space pointer
          slot,   \* [0..cnt-1 -> [off, size, mark, tag]] as a sequence (index i+1)
          reply   \* outcome of the last call (observation)

vars  == <<cnt, fsp, slot, reply>>
pvars == <<cnt, fsp, slot>>

Empty == [off |-> 0, size |-> 0, mark |-> FALSE, tag |-> -1]
IsEmpty(s) == s.size = 0
Occupied(s) == s.size > 0                 \* raw size field # 0 (live or delete-marked)
Live(s) == s.size > 0 /\ ~s.mark

Free == fsp - Hdr - SlotSz * cnt          \* getFreeSpaceRemaining L532

Init == cnt = 0 /\ fsp = PageSize /\ slot = <<>> /\ reply = [op |-> "init", res |-> "ok", i |-> 0]

FirstEmpty == IF \E i \in 1..cnt : IsEmpty(slot[i])
                THEN CHOOSE i \in 1..cnt : IsEmpty(slot[i]) /\ \A j \in 1..(i-1) : ~IsEmpty(slot[j])
                ELSE cnt + 1

(* InsertTuple: the space test charges a slot entry even when an empty slot is reused *)
Insert(s, tg) ==
  IF Free < s + SlotSz
    THEN reply' = [op |-> "Insert", res |-> "nospace", i |-> 0] /\ UNCHANGED pvars
    ELSE LET i == FirstEmpty IN
         /\ fsp' = fsp - s
         /\ slot' = IF i = cnt + 1 THEN Append(slot, [off |-> fsp - s, size |-> s, mark |-> FALSE, tag |-> tg])
                                   ELSE [slot EXCEPT ![i] = [off |-> fsp - s, size |-> s, mark |-> FALSE, tag |-> tg]]
         /\ cnt' = IF i = cnt + 1 THEN cnt + 1 ELSE cnt
         /\ reply' = [op |-> "Insert", res |-> "ok", i |-> i]

(* UpdateTuple (whole-row replacement): rb = isRollbackOrUndo *)
Update(i, s, rb, tg) ==
  IF i > cnt \/ ~Live(slot[i])
    THEN reply' = [op |-> "Update", res |-> "fail", i |-> i] /\ UNCHANGED pvars
  ELSE IF Free + slot[i].size < s
    THEN reply' = [op |-> "Update", res |-> "nospace", i |-> i] /\ UNCHANGED pvars
  ELSE IF slot[i].size > s /\ ~rb
    THEN reply' = [op |-> "Update", res |-> "rollbackdifficult", i |-> i] /\ UNCHANGED pvars
  ELSE LET old == slot[i].size
           lim == slot[i].off + old IN
       /\ fsp' = fsp + old - s
       /\ slot' = [j \in 1..cnt |->
                     IF j = i THEN [off |-> slot[i].off + old - s, size |-> s, mark |-> FALSE, tag |-> tg]
                     ELSE IF Occupied(slot[j]) /\ slot[j].off < lim
                       THEN [slot[j] EXCEPT !.off = @ + old - s]
                       ELSE slot[j]]
       /\ UNCHANGED cnt
       /\ reply' = [op |-> "Update", res |-> "ok", i |-> i]

MarkDelete(i) ==
  IF i > cnt \/ ~Live(slot[i])
    THEN reply' = [op |-> "MarkDelete", res |-> "fail", i |-> i] /\ UNCHANGED pvars
    ELSE /\ slot' = [slot EXCEPT ![i].mark = TRUE]
         /\ reply' = [op |-> "MarkDelete", res |-> "ok", i |-> i, tag |-> slot[i].tag]
         /\ UNCHANGED <<cnt, fsp>>

(* ApplyDelete: commit of a delete (marked row) or rollback of an insert (live row).   *)
(* The code asserts i < cnt and that the row lies in the tuple area, so the action is  *)
(* defined only for occupied slots.                                                    *)
ApplyDelete(i) ==
  /\ i <= cnt /\ Occupied(slot[i])
  /\ LET sz == slot[i].size
         o  == slot[i].off IN
     /\ fsp' = fsp + sz
     /\ slot' = [j \in 1..cnt |->
                   IF j = i THEN Empty
                   ELSE IF Occupied(slot[j]) /\ slot[j].off < o THEN [slot[j] EXCEPT !.off = @ + sz]
                   ELSE slot[j]]
     /\ UNCHANGED cnt
     /\ reply' = [op |-> "ApplyDelete", res |-> "ok", i |-> i]

(* RollbackDelete: clears the mark (panics on an empty slot: not modelled) *)
RollbackDelete(i) ==
  /\ i <= cnt /\ Occupied(slot[i])
  /\ slot' = [slot EXCEPT ![i].mark = FALSE]
  /\ UNCHANGED <<cnt, fsp>>
  /\ reply' = [op |-> "RollbackDelete", res |-> "ok", i |-> i]

Get(i) ==
  /\ UNCHANGED pvars
  /\ reply' = IF i > cnt THEN [op |-> "Get", res |-> "badslot", i |-> i]
              ELSE IF IsEmpty(slot[i]) THEN [op |-> "Get", res |-> "empty", i |-> i]
              ELSE IF slot[i].mark THEN [op |-> "Get", res |-> "deleted", i |-> i]
              ELSE [op |-> "Get", res |-> "ok", i |-> i, tag |-> slot[i].tag, size |-> slot[i].size]

(* model bound only: the slot array does not grow beyond MaxSlots *)
BoundedInsert(s, tg) == (cnt < MaxSlots \/ FirstEmpty <= cnt) /\ Insert(s, tg)

Next == \/ \E s \in Sizes, tg \in Tags : BoundedInsert(s, tg)
        \/ \E i \in 1..MaxSlots :
             \/ \E s \in Sizes, rb \in BOOLEAN, tg \in Tags : Update(i, s, rb, tg)
             \/ MarkDelete(i) \/ ApplyDelete(i) \/ RollbackDelete(i) \/ Get(i)

Spec == Init /\ [][Next]_vars

--------------------------------------------------------------------------------
Occ == {i \in 1..cnt : Occupied(slot[i])}
RECURSIVE SumSizes(_)
SumSizes(S) == IF S = {} THEN 0 ELSE LET i == CHOOSE x \in S : TRUE IN slot[i].size + SumSizes(S \ {i})

TypeOK == cnt = Len(slot) /\ fsp \in 0..PageSize
(* rows do not overlap each other, lie in the tuple area *)
NoOverlap == \A i \in Occ : /\ slot[i].off >= fsp /\ slot[i].off + slot[i].size <= PageSize
                            /\ \A j \in Occ : i # j =>
                                  (slot[i].off + slot[i].size <= slot[j].off \/ slot[j].off + slot[j].size <= slot[i].off)
(* ... nor the header and slot array *)
HeaderSafe == fsp >= Hdr + SlotSz * cnt
(* the free space reported is exactly the space not occupied *)
FreeExact == fsp = PageSize - SumSizes(Occ)
(* an operation on one row never changes another row's size, mark or content; a failed   *)
(* operation changes nothing                                                              *)
Isolation ==
  [][/\ \A j \in 1..cnt : j # reply'.i =>
           (slot'[j].tag = slot[j].tag /\ slot'[j].size = slot[j].size /\ slot'[j].mark = slot[j].mark)
     /\ reply'.res # "ok" => UNCHANGED pvars]_vars
================================================================================
