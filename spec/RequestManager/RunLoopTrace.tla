---------------------------- MODULE RunLoopTrace ----------------------------
(***************************************************************************)
(* Protocol-level trace specification for request_manager.go: the events   *)
(* recorded by hook VerifRM at the Run loop's critical sections are        *)
(* replayed with the ACTIONS OF RequestManager.tla itself.                 *)
(*   queued(c)   under queMutex, after the append        ClientEnqueue(c)   *)
(*   wake        Run loop received nil                   ClientWake . RunRecv *)
(*   recv(c)     Run loop received the result of c       WorkerFinish(c) . WorkerSend(c) . RunRecv [. RunDeliver] *)
(*   requeue(c)  under queMutex, conflict abort of c     (check: c is at the head of the queue) *)
(*   launch(c)   under queMutex, before the worker starts RunLaunch with Head(queue) = c *)
(* Unlogged steps (channel sends, worker completion, delivery, a loop turn *)
(* that launches nothing) are placed deterministically: a message is sent *)
(* just before the loop receives it (the order of recv / wake events IS the *)
(* order of the channel), an abort is told from the requeue event that     *)
(* follows, and a turn without launch is placed right after the recv/wake  *)
(* handling - the earliest point, where the queue is a subset of what the   *)
(* real check saw (queued events are under the same mutex), so "queue       *)
(* non-empty and workers free, yet nothing launched" is a genuine deviation.*)
(* One trace line is consumed, then its micro steps (todo) are executed one *)
(* per TLC step with the spec's own actions; a step whose action is not     *)
(* enabled is either a counted mechanism deviation (see Act2) or recorded   *)
(* as C12.protocol and skipped.  The spec's invariants   *)
(* (OneReply, ExactlyOnce, WorkerBound) are checked on every state.         *)
(***************************************************************************)
EXTENDS RequestManager, TraceKit

VARIABLES l, todo, viol
tvars == <<vars, l, todo, viol>>

V(tag, ln, info) == <<[tag |-> tag, line |-> ln, info |-> info, kf |-> "new"]>>
LoopEv == {"wake", "recv", "requeue", "launch", "Reset"}
RECURSIVE NextLoop(_)
NextLoop(i) == IF i > TraceLen THEN [ev |-> "none", id |-> 0]
               ELSE IF TraceLog[i].ev \in LoopEv THEN TraceLog[i] ELSE NextLoop(i + 1)
LaunchTail(i) == IF NextLoop(i + 1).ev = "launch" THEN <<>> ELSE <<[a |-> "noLaunch", c |-> 0]>>

Plan(e, i) ==
  CASE e.ev = "queued"  -> <<[a |-> "enq", c |-> e.id]>>
    [] e.ev = "wake"    -> <<[a |-> "wakeSend", c |-> 0], [a |-> "runRecv", c |-> 0]>> \o LaunchTail(i)
    [] e.ev = "recv"    -> IF NextLoop(i + 1).ev = "requeue" /\ NextLoop(i + 1).id = e.id
                             THEN <<[a |-> "finAb", c |-> e.id], [a |-> "send", c |-> e.id], [a |-> "runRecv", c |-> e.id]>>
                             ELSE <<[a |-> "finOk", c |-> e.id], [a |-> "send", c |-> e.id], [a |-> "runRecv", c |-> e.id],
                                    [a |-> "deliver", c |-> e.id]>> \o LaunchTail(i)
    [] e.ev = "requeue" -> <<[a |-> "chkRequeue", c |-> e.id]>> \o LaunchTail(i)
    [] e.ev = "launch"  -> <<[a |-> "launch", c |-> e.id]>>
    [] OTHER            -> <<>>

Act(s) ==
  CASE s.a = "enq"        -> s.c \in Client /\ ClientEnqueue(s.c)
    [] s.a = "wakeSend"   -> \E c \in Client : pc[c] = "enq" /\ (\A d \in Client : pc[d] = "enq" => c <= d) /\ ClientWake(c)
    [] s.a = "runRecv"    -> /\ inCh # <<>>
                             /\ IF s.c = 0 THEN Head(inCh).k = "nil" ELSE Head(inCh).k = "res" /\ Head(inCh).c = s.c
                             /\ RunRecv
    [] s.a = "finOk"      -> s.c \in Client /\ WorkerFinish(s.c) /\ wk'[s.c] = "sendOk"
    [] s.a = "finAb"      -> s.c \in Client /\ WorkerFinish(s.c) /\ wk'[s.c] = "sendAb"
    [] s.a = "send"       -> s.c \in Client /\ WorkerSend(s.c)
    [] s.a = "deliver"    -> RunDeliver /\ deliv = s.c
    [] s.a = "noLaunch"   -> RunLaunch /\ cur' = cur
    [] s.a = "launch"     -> RunLaunch /\ queue # <<>> /\ Head(queue) = s.c /\ cur' = cur + 1
    [] s.a = "chkRequeue" -> queue # <<>> /\ Head(queue) = s.c /\ UNCHANGED vars

(* Generalisations that keep C12 (the property fixes neither the position at which an aborted request re-enters *)
(* the queue, nor the order of launches, nor the worker bound, nor that a turn launches whenever it could): a step *)
(* that is not the mechanism's own but is one of these is taken and COUNTED (tag mech.C12, reported in the evidence, *)
(* not a violation).  A step that is neither - a result for a request that is not executing, a launch of a request *)
(* that is not queued, a delivery into an occupied reply channel - is C12.protocol.                                *)
RECURSIVE Without(_, _)
Without(q, c) == IF q = <<>> THEN <<>> ELSE IF Head(q) = c THEN Tail(q) ELSE <<Head(q)>> \o Without(Tail(q), c)
InQueue(c) == \E i \in DOMAIN queue : queue[i] = c
Act2(s) ==
  CASE s.a = "launch"     -> /\ rpc = "launch" /\ InQueue(s.c) /\ rpc' = "recv"
                             /\ queue' = Without(queue, s.c) /\ wk' = [wk EXCEPT ![s.c] = "exec"] /\ cur' = cur + 1
                             /\ UNCHANGED <<pc, inCh, deliv, box, got, execOk, aborts>>
    [] s.a = "noLaunch"   -> /\ rpc = "launch" /\ rpc' = "recv"
                             /\ UNCHANGED <<pc, queue, inCh, wk, deliv, cur, box, got, execOk, aborts>>
    [] s.a = "chkRequeue" -> InQueue(s.c) /\ UNCHANGED vars
    [] s.a = "wakeSend"   -> /\ Len(inCh) < Cap /\ inCh' = Append(inCh, Nil)      \* a wake-up nobody is known to have sent
                             /\ UNCHANGED <<pc, queue, wk, rpc, deliv, cur, box, got, execOk, aborts>>
    [] OTHER              -> FALSE

State == [rpc |-> rpc, cur |-> cur, queue |-> queue, inCh |-> Len(inCh), deliv |-> deliv]

TInit == Init /\ l = 1 /\ todo = <<>> /\ viol = <<>>
ResetAll == /\ pc' = [c \in Client |-> "start"] /\ queue' = <<>> /\ inCh' = <<>>
            /\ wk' = [c \in Client |-> "idle"] /\ rpc' = "recv" /\ deliv' = None /\ cur' = 0
            /\ box' = [c \in Client |-> 0] /\ got' = [c \in Client |-> 0]
            /\ execOk' = [c \in Client |-> 0] /\ aborts' = [c \in Client |-> 0]
TNext ==
  \/ /\ todo # <<>>
     /\ LET s == Head(todo) IN
        IF ENABLED Act(s) THEN Act(s) /\ UNCHANGED viol
        ELSE IF ENABLED Act2(s)
          THEN Act2(s) /\ viol' = AddViol(viol, V("mech.C12", l - 1, [step |-> s, state |-> State]))
          ELSE UNCHANGED vars /\ viol' = AddViol(viol, V("C12.protocol", l - 1, [step |-> s, state |-> State, event |-> TraceLog[l - 1]]))
     /\ todo' = Tail(todo) /\ UNCHANGED l
  \/ /\ todo = <<>> /\ l <= TraceLen
     /\ LET e == TraceLog[l] IN
        IF e.ev = "Reset" THEN ResetAll /\ todo' = <<>> ELSE UNCHANGED vars /\ todo' = Plan(e, l)
     /\ l' = l + 1 /\ UNCHANGED viol
TSpec == TInit /\ [][TNext]_tvars
Done == (l = TraceLen + 1 /\ todo = <<>>) => Emit(viol, l - 1)

(* request ids of the trace: 1..MAXID (the largest id, computed by the check and passed in the environment) *)
TClient == 1..atoi(IOEnv.MAXID)
=============================================================================
