--------------------------- MODULE CallHistoryTrace ---------------------------
(* C12, history side: invoke / return events of concurrent ExecuteSQL calls      *)
(* (ordered by a shared atomic counter taken just before the call and just after *)
(* it returns) must have a linearization: every call takes effect atomically at  *)
(* one instant between its invocation and its return, exactly once, and returns  *)
(* the answer of that instant (TxnModel restricted to single-statement           *)
(* transactions).  The linearization point is a silent step TLC infers.          *)
(* Acceptance is existential (some interleaving of silent steps consumes the     *)
(* whole trace); the register 1 holds the longest consumed prefix.               *)
(*   C12.order  no linearization: a reader saw part of a multi-row update, a     *)
(*              result belongs to another statement, an effect is missing /      *)
(*              applied twice, or real-time order is violated                    *)
EXTENDS Integers, Sequences, FiniteSets, TLC, TLCExt, Json, IOUtils

TraceLog == ndJsonDeserialize(IOEnv.TRACE)
TraceLen == Len(TraceLog)

VARIABLES tbl,      \* set of <<k, v>> (a bag is not needed: keys inserted are unique per call, duplicates show as length mismatch)
          dup,      \* keys that were inserted more than once (cannot happen in the model; kept for clarity)
          pend,     \* [call -> op] invoked, not yet linearized
          done,     \* calls linearized, not yet returned
          l
vars == <<tbl, dup, pend, done, l>>

RowSet(rows) == {<<rows[i][1], rows[i][2]>> : i \in DOMAIN rows}
Put(f, x, y) == [z \in DOMAIN f \cup {x} |-> IF z = x THEN y ELSE f[z]]
Drop(f, x) == [z \in DOMAIN f \ {x} |-> f[z]]

Init == tbl = {} /\ dup = {} /\ pend = <<>> /\ done = {} /\ l = 1

Effect(op) == CASE op.k = "upd" -> {r \in tbl : ~(r[1] >= op.a /\ r[1] <= op.b)} \cup {<<r[1], op.v>> : r \in {x \in tbl : x[1] >= op.a /\ x[1] <= op.b}}
                [] op.k = "ins" -> tbl \cup {<<op.a, op.v>>}
                [] OTHER -> tbl
(* the answer the call must have returned if it takes effect now *)
AnswerOK(op) == IF op.k = "read"
                  THEN LET want == {r \in tbl : r[1] >= op.a /\ r[1] <= op.b} IN
                       RowSet(op.rows) = want /\ Len(op.rows) = Cardinality(want)
                  ELSE TRUE

Reset == /\ l <= TraceLen /\ TraceLog[l].ev = "Reset"
         /\ tbl' = RowSet(TraceLog[l].rows) /\ dup' = {} /\ pend' = <<>> /\ done' = {} /\ l' = l + 1
Inv == /\ l <= TraceLen /\ TraceLog[l].ev = "Inv" /\ TraceLog[l].res = "ok"
       /\ pend' = Put(pend, TraceLog[l].c, TraceLog[l]) /\ l' = l + 1 /\ UNCHANGED <<tbl, dup, done>>
(* canonical form: linearization points are pushed as late as possible, i.e. a call takes effect only when  *)
(* the next recorded event is the return of a call that has not taken effect yet (this loses no history:   *)
(* moving a linearization point later, keeping the order of the points, stays inside the call's interval)  *)
Lin(c) == /\ l <= TraceLen /\ TraceLog[l].ev = "Ret" /\ TraceLog[l].c \notin done
          /\ c \in DOMAIN pend /\ AnswerOK(pend[c])
          /\ tbl' = Effect(pend[c]) /\ pend' = Drop(pend, c) /\ done' = done \cup {c} /\ UNCHANGED <<dup, l>>
Ret == /\ l <= TraceLen /\ TraceLog[l].ev = "Ret" /\ TraceLog[l].c \in done
       /\ done' = done \ {TraceLog[l].c} /\ l' = l + 1 /\ UNCHANGED <<tbl, dup, pend>>
Info == /\ l <= TraceLen /\ TraceLog[l].ev \in {"Gate"} /\ TraceLog[l].returned = TraceLog[l].callers
        /\ l' = l + 1 /\ UNCHANGED <<tbl, dup, pend, done>>

Next == Reset \/ Inv \/ Ret \/ Info \/ \E c \in DOMAIN pend : Lin(c)
Spec == Init /\ [][Next]_vars

ASSUME TLCSet(1, 0)
(* keeps the high-water mark; once the whole trace has been consumed on some branch nothing else is explored *)
Mark == /\ TLCSet(1, IF l > TLCGet(1) THEN l ELSE TLCGet(1))
        /\ (TLCGet(1) = TraceLen + 1 => l = TraceLen + 1)
Accepted ==
  LET reached == TLCGet(1) IN
  JsonSerialize(IOEnv.VOUT,
     [lines |-> TraceLen,
      viol |-> IF reached = TraceLen + 1 THEN <<>>
               ELSE <<[tag |-> IF TraceLog[reached].ev = "Gate" \/ (TraceLog[reached].ev = "Inv" /\ TraceLog[reached].res = "stuck") THEN "C12.stuck" ELSE "C12.order", line |-> reached, kf |-> "new",
                       info |-> <<"longest linearizable prefix ends before line", reached, TraceLog[reached]>>]>>])
===============================================================================
