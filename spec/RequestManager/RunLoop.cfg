CONSTANTS
  Client <- TClient
  Cap = 100
  MaxW = 24
  MaxAbort = 1000000
  ReplyCap = 1
SPECIFICATION TSpec
INVARIANTS Done OneReply ExactlyOnce
CHECK_DEADLOCK FALSE
