---------------------------- MODULE RequestManager ----------------------------
(***************************************************************************)
(* L1 mechanism specification of lib/samehada/request_manager.go and of    *)
(* SamehadaDB.ExecuteSQL / ExecuteSQLForTxnTh.                              *)
(*   client c : AppendRequest = ClientEnqueue (under queMutex, L35-48)      *)
(*              then ClientWake (send nil on inCh, L51; blocks if full),    *)
(*              then waits on its own reply channel (samehada.go L225)      *)
(*   Run loop : RunRecv (L88) -> result: counter--, requeue at head on      *)
(*              QueryAbortedErr (L95) or RunDeliver (L99/L103)              *)
(*              -> RunLaunch (L108-112: at most one request per turn)       *)
(*   worker   : executes the statement (ok, or aborted by a lock conflict), *)
(*              then sends the result on inCh (blocks if full)              *)
(* ReplyCap = 0 models the pinned tree (unbuffered reply channel: delivery  *)
(* is a rendezvous with a caller that already waits); ReplyCap = 1 the      *)
(* repaired one.                                                            *)
(***************************************************************************)
EXTENDS Naturals, Sequences, FiniteSets, TLC

CONSTANTS Client, Cap, MaxW, MaxAbort, ReplyCap

VARIABLES pc,      \* [Client -> "start" | "enq" | "wait" | "done"]
          queue,   \* execQue
          inCh,    \* messages in flight: [k |-> "nil"] or [k |-> "res", c, ab]
          wk,      \* [Client -> "idle" | "exec" | "sendOk" | "sendAb"]  (the worker of c's request)
          rpc,     \* Run loop: "recv" | "deliver" | "launch"
          deliv,   \* request being delivered
          cur,     \* curExectingReqNum
          box,     \* [Client -> number of results sitting in c's reply channel]
          got,     \* [Client -> number of results c has received]
          execOk,  \* [Client -> how many times c's statement ran to success]
          aborts   \* [Client -> conflict aborts so far]

vars == <<pc, queue, inCh, wk, rpc, deliv, cur, box, got, execOk, aborts>>
None == "-"
Nil == [k |-> "nil", c |-> None, ab |-> FALSE]

Init == /\ pc = [c \in Client |-> "start"] /\ queue = <<>> /\ inCh = <<>>
        /\ wk = [c \in Client |-> "idle"] /\ rpc = "recv" /\ deliv = None /\ cur = 0
        /\ box = [c \in Client |-> 0] /\ got = [c \in Client |-> 0]
        /\ execOk = [c \in Client |-> 0] /\ aborts = [c \in Client |-> 0]

ClientEnqueue(c) == /\ pc[c] = "start" /\ queue' = Append(queue, c) /\ pc' = [pc EXCEPT ![c] = "enq"]
                    /\ UNCHANGED <<inCh, wk, rpc, deliv, cur, box, got, execOk, aborts>>
ClientWake(c) == /\ pc[c] = "enq" /\ Len(inCh) < Cap /\ inCh' = Append(inCh, Nil)
                 /\ pc' = [pc EXCEPT ![c] = "wait"]
                 /\ UNCHANGED <<queue, wk, rpc, deliv, cur, box, got, execOk, aborts>>
(* the caller takes the result out of its reply channel *)
ClientReceive(c) == /\ pc[c] = "wait" /\ box[c] > 0
                    /\ box' = [box EXCEPT ![c] = @ - 1] /\ got' = [got EXCEPT ![c] = @ + 1]
                    /\ pc' = [pc EXCEPT ![c] = "done"]
                    /\ UNCHANGED <<queue, inCh, wk, rpc, deliv, cur, execOk, aborts>>

RunRecv == /\ rpc = "recv" /\ inCh # <<>>
           /\ LET m == Head(inCh) IN
              /\ inCh' = Tail(inCh)
              /\ IF m.k = "nil" THEN rpc' = "launch" /\ UNCHANGED <<queue, deliv, cur>>
                 ELSE /\ cur' = cur - 1
                      /\ IF m.ab THEN queue' = <<m.c>> \o queue /\ rpc' = "launch" /\ UNCHANGED deliv
                                 ELSE rpc' = "deliver" /\ deliv' = m.c /\ UNCHANGED queue
           /\ UNCHANGED <<pc, wk, box, got, execOk, aborts>>
(* send on the caller's reply channel: with capacity 0 the caller must already be receiving *)
RunDeliver == /\ rpc = "deliver"
              /\ IF ReplyCap = 0
                   THEN /\ pc[deliv] = "wait"
                        /\ got' = [got EXCEPT ![deliv] = @ + 1] /\ pc' = [pc EXCEPT ![deliv] = "done"] /\ UNCHANGED box
                   ELSE /\ box[deliv] < ReplyCap
                        /\ box' = [box EXCEPT ![deliv] = @ + 1] /\ UNCHANGED <<got, pc>>
              /\ rpc' = "launch" /\ deliv' = None
              /\ UNCHANGED <<queue, inCh, wk, cur, execOk, aborts>>
RunLaunch == /\ rpc = "launch" /\ rpc' = "recv"
             /\ IF queue # <<>> /\ cur < MaxW
                  THEN queue' = Tail(queue) /\ wk' = [wk EXCEPT ![Head(queue)] = "exec"] /\ cur' = cur + 1
                  ELSE UNCHANGED <<queue, wk, cur>>
             /\ UNCHANGED <<pc, inCh, deliv, box, got, execOk, aborts>>
WorkerFinish(c) == /\ wk[c] = "exec"
                   /\ \/ /\ wk' = [wk EXCEPT ![c] = "sendOk"] /\ execOk' = [execOk EXCEPT ![c] = @ + 1] /\ UNCHANGED aborts
                      \/ /\ aborts[c] < MaxAbort                 \* lock conflict: rolled back, to be retried
                         /\ wk' = [wk EXCEPT ![c] = "sendAb"] /\ aborts' = [aborts EXCEPT ![c] = @ + 1] /\ UNCHANGED execOk
                   /\ UNCHANGED <<pc, queue, inCh, rpc, deliv, cur, box, got>>
WorkerSend(c) == /\ wk[c] \in {"sendAb", "sendOk"} /\ Len(inCh) < Cap
                 /\ inCh' = Append(inCh, [k |-> "res", c |-> c, ab |-> wk[c] = "sendAb"])
                 /\ wk' = [wk EXCEPT ![c] = "idle"]
                 /\ UNCHANGED <<pc, queue, rpc, deliv, cur, box, got, execOk, aborts>>
AllDone == (\A c \in Client : pc[c] = "done") /\ UNCHANGED vars

Run == RunRecv \/ RunDeliver \/ RunLaunch
Next == Run \/ AllDone
        \/ \E c \in Client : ClientEnqueue(c) \/ ClientWake(c) \/ ClientReceive(c) \/ WorkerFinish(c) \/ WorkerSend(c)

Spec == Init /\ [][Next]_vars
FairSpec == Spec /\ WF_vars(Run) /\ \A c \in Client : WF_vars(ClientWake(c)) /\ WF_vars(ClientReceive(c))
                                                     /\ WF_vars(WorkerFinish(c)) /\ WF_vars(WorkerSend(c))

--------------------------------------------------------------------------------
(* C12: every call gets exactly one result, its own; a statement runs to success at most once *)
OneReply == \A c \in Client : got[c] + box[c] <= 1 /\ (pc[c] = "done" => got[c] = 1)
ExactlyOnce == \A c \in Client : execOk[c] <= 1 /\ (got[c] + box[c] = 1 => execOk[c] = 1)
WorkerBound == cur <= MaxW
(* "no call blocks forever" *)
Answered == \A c \in Client : (pc[c] = "enq") ~> (pc[c] = "done")
================================================================================
