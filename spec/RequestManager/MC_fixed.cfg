CONSTANTS
  Client = {"a", "b", "c"}
  Cap = 1
  MaxW = 1
  MaxAbort = 1
  ReplyCap = 1
SPECIFICATION FairSpec
INVARIANTS OneReply ExactlyOnce WorkerBound
PROPERTY Answered
