CONSTANTS
  Client = {"a", "b", "c"}
  Cap = 1
  MaxW = 1
  MaxAbort = 1
  ReplyCap = 0
SPECIFICATION Spec
INVARIANTS OneReply ExactlyOnce WorkerBound
