CONSTANTS
  Client = {"a", "b", "c", "d"}
  Cap = 2
  MaxW = 2
  MaxAbort = 1
  ReplyCap = 1
SPECIFICATION FairSpec
INVARIANTS OneReply ExactlyOnce WorkerBound
PROPERTY Answered
