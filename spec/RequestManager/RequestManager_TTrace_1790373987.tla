---- MODULE RequestManager_TTrace_1790373987 ----
EXTENDS Sequences, TLCExt, RequestManager, Toolbox, Naturals, TLC

_expression ==
    LET RequestManager_TEExpression == INSTANCE RequestManager_TEExpression
    IN RequestManager_TEExpression!expression
----

_trace ==
    LET RequestManager_TETrace == INSTANCE RequestManager_TETrace
    IN RequestManager_TETrace!trace
----

_inv ==
    ~(
        TLCGet("level") = Len(_TETrace)
        /\
        cur = (0)
        /\
        pc = ([a |-> "wait", b |-> "wait", c |-> "enq"])
        /\
        rpc = ("deliver")
        /\
        wk = ([a |-> "idle", b |-> "idle", c |-> "idle"])
        /\
        deliv = ("c")
        /\
        box = ([a |-> 0, b |-> 0, c |-> 0])
        /\
        inCh = (<<[c |-> "-", k |-> "nil", ab |-> FALSE]>>)
        /\
        aborts = ([a |-> 0, b |-> 0, c |-> 0])
        /\
        got = ([a |-> 0, b |-> 0, c |-> 0])
        /\
        execOk = ([a |-> 0, b |-> 0, c |-> 1])
        /\
        queue = (<<"a", "b">>)
    )
----

_init ==
    /\ execOk = _TETrace[1].execOk
    /\ deliv = _TETrace[1].deliv
    /\ cur = _TETrace[1].cur
    /\ box = _TETrace[1].box
    /\ pc = _TETrace[1].pc
    /\ aborts = _TETrace[1].aborts
    /\ rpc = _TETrace[1].rpc
    /\ queue = _TETrace[1].queue
    /\ got = _TETrace[1].got
    /\ wk = _TETrace[1].wk
    /\ inCh = _TETrace[1].inCh
----

_next ==
    /\ \E i,j \in DOMAIN _TETrace:
        /\ \/ /\ j = i + 1
              /\ i = TLCGet("level")
        /\ execOk  = _TETrace[i].execOk
        /\ execOk' = _TETrace[j].execOk
        /\ deliv  = _TETrace[i].deliv
        /\ deliv' = _TETrace[j].deliv
        /\ cur  = _TETrace[i].cur
        /\ cur' = _TETrace[j].cur
        /\ box  = _TETrace[i].box
        /\ box' = _TETrace[j].box
        /\ pc  = _TETrace[i].pc
        /\ pc' = _TETrace[j].pc
        /\ aborts  = _TETrace[i].aborts
        /\ aborts' = _TETrace[j].aborts
        /\ rpc  = _TETrace[i].rpc
        /\ rpc' = _TETrace[j].rpc
        /\ queue  = _TETrace[i].queue
        /\ queue' = _TETrace[j].queue
        /\ got  = _TETrace[i].got
        /\ got' = _TETrace[j].got
        /\ wk  = _TETrace[i].wk
        /\ wk' = _TETrace[j].wk
        /\ inCh  = _TETrace[i].inCh
        /\ inCh' = _TETrace[j].inCh

\* Uncomment the ASSUME below to write the states of the error trace
\* to the given file in Json format. Note that you can pass any tuple
\* to `JsonSerialize`. For example, a sub-sequence of _TETrace.
    \* ASSUME
    \*     LET J == INSTANCE Json
    \*         IN J!JsonSerialize("RequestManager_TTrace_1790373987.json", _TETrace)

=============================================================================

 Note that you can extract this module `RequestManager_TEExpression`
  to a dedicated file to reuse `expression` (the module in the 
  dedicated `RequestManager_TEExpression.tla` file takes precedence 
  over the module `RequestManager_TEExpression` below).

---- MODULE RequestManager_TEExpression ----
EXTENDS Sequences, TLCExt, RequestManager, Toolbox, Naturals, TLC

expression == 
    [
        \* To hide variables of the `RequestManager` spec from the error trace,
        \* remove the variables below.  The trace will be written in the order
        \* of the fields of this record.
        execOk |-> execOk
        ,deliv |-> deliv
        ,cur |-> cur
        ,box |-> box
        ,pc |-> pc
        ,aborts |-> aborts
        ,rpc |-> rpc
        ,queue |-> queue
        ,got |-> got
        ,wk |-> wk
        ,inCh |-> inCh
        
        \* Put additional constant-, state-, and action-level expressions here:
        \* ,_stateNumber |-> _TEPosition
        \* ,_execOkUnchanged |-> execOk = execOk'
        
        \* Format the `execOk` variable as Json value.
        \* ,_execOkJson |->
        \*     LET J == INSTANCE Json
        \*     IN J!ToJson(execOk)
        
        \* Lastly, you may build expressions over arbitrary sets of states by
        \* leveraging the _TETrace operator.  For example, this is how to
        \* count the number of times a spec variable changed up to the current
        \* state in the trace.
        \* ,_execOkModCount |->
        \*     LET F[s \in DOMAIN _TETrace] ==
        \*         IF s = 1 THEN 0
        \*         ELSE IF _TETrace[s].execOk # _TETrace[s-1].execOk
        \*             THEN 1 + F[s-1] ELSE F[s-1]
        \*     IN F[_TEPosition - 1]
    ]

=============================================================================



Parsing and semantic processing can take forever if the trace below is long.
 In this case, it is advised to uncomment the module below to deserialize the
 trace from a generated binary file.

\*
\*---- MODULE RequestManager_TETrace ----
\*EXTENDS IOUtils, RequestManager, TLC
\*
\*trace == IODeserialize("RequestManager_TTrace_1790373987.bin", TRUE)
\*
\*=============================================================================
\*

---- MODULE RequestManager_TETrace ----
EXTENDS RequestManager, TLC

trace == 
    <<
    ([cur |-> 0,pc |-> [a |-> "start", b |-> "start", c |-> "start"],rpc |-> "recv",wk |-> [a |-> "idle", b |-> "idle", c |-> "idle"],deliv |-> "-",box |-> [a |-> 0, b |-> 0, c |-> 0],inCh |-> <<>>,aborts |-> [a |-> 0, b |-> 0, c |-> 0],got |-> [a |-> 0, b |-> 0, c |-> 0],execOk |-> [a |-> 0, b |-> 0, c |-> 0],queue |-> <<>>]),
    ([cur |-> 0,pc |-> [a |-> "start", b |-> "start", c |-> "enq"],rpc |-> "recv",wk |-> [a |-> "idle", b |-> "idle", c |-> "idle"],deliv |-> "-",box |-> [a |-> 0, b |-> 0, c |-> 0],inCh |-> <<>>,aborts |-> [a |-> 0, b |-> 0, c |-> 0],got |-> [a |-> 0, b |-> 0, c |-> 0],execOk |-> [a |-> 0, b |-> 0, c |-> 0],queue |-> <<"c">>]),
    ([cur |-> 0,pc |-> [a |-> "enq", b |-> "start", c |-> "enq"],rpc |-> "recv",wk |-> [a |-> "idle", b |-> "idle", c |-> "idle"],deliv |-> "-",box |-> [a |-> 0, b |-> 0, c |-> 0],inCh |-> <<>>,aborts |-> [a |-> 0, b |-> 0, c |-> 0],got |-> [a |-> 0, b |-> 0, c |-> 0],execOk |-> [a |-> 0, b |-> 0, c |-> 0],queue |-> <<"c", "a">>]),
    ([cur |-> 0,pc |-> [a |-> "wait", b |-> "start", c |-> "enq"],rpc |-> "recv",wk |-> [a |-> "idle", b |-> "idle", c |-> "idle"],deliv |-> "-",box |-> [a |-> 0, b |-> 0, c |-> 0],inCh |-> <<[c |-> "-", k |-> "nil", ab |-> FALSE]>>,aborts |-> [a |-> 0, b |-> 0, c |-> 0],got |-> [a |-> 0, b |-> 0, c |-> 0],execOk |-> [a |-> 0, b |-> 0, c |-> 0],queue |-> <<"c", "a">>]),
    ([cur |-> 0,pc |-> [a |-> "wait", b |-> "start", c |-> "enq"],rpc |-> "launch",wk |-> [a |-> "idle", b |-> "idle", c |-> "idle"],deliv |-> "-",box |-> [a |-> 0, b |-> 0, c |-> 0],inCh |-> <<>>,aborts |-> [a |-> 0, b |-> 0, c |-> 0],got |-> [a |-> 0, b |-> 0, c |-> 0],execOk |-> [a |-> 0, b |-> 0, c |-> 0],queue |-> <<"c", "a">>]),
    ([cur |-> 1,pc |-> [a |-> "wait", b |-> "start", c |-> "enq"],rpc |-> "recv",wk |-> [a |-> "idle", b |-> "idle", c |-> "exec"],deliv |-> "-",box |-> [a |-> 0, b |-> 0, c |-> 0],inCh |-> <<>>,aborts |-> [a |-> 0, b |-> 0, c |-> 0],got |-> [a |-> 0, b |-> 0, c |-> 0],execOk |-> [a |-> 0, b |-> 0, c |-> 0],queue |-> <<"a">>]),
    ([cur |-> 1,pc |-> [a |-> "wait", b |-> "enq", c |-> "enq"],rpc |-> "recv",wk |-> [a |-> "idle", b |-> "idle", c |-> "exec"],deliv |-> "-",box |-> [a |-> 0, b |-> 0, c |-> 0],inCh |-> <<>>,aborts |-> [a |-> 0, b |-> 0, c |-> 0],got |-> [a |-> 0, b |-> 0, c |-> 0],execOk |-> [a |-> 0, b |-> 0, c |-> 0],queue |-> <<"a", "b">>]),
    ([cur |-> 1,pc |-> [a |-> "wait", b |-> "enq", c |-> "enq"],rpc |-> "recv",wk |-> [a |-> "idle", b |-> "idle", c |-> "sendOk"],deliv |-> "-",box |-> [a |-> 0, b |-> 0, c |-> 0],inCh |-> <<>>,aborts |-> [a |-> 0, b |-> 0, c |-> 0],got |-> [a |-> 0, b |-> 0, c |-> 0],execOk |-> [a |-> 0, b |-> 0, c |-> 1],queue |-> <<"a", "b">>]),
    ([cur |-> 1,pc |-> [a |-> "wait", b |-> "enq", c |-> "enq"],rpc |-> "recv",wk |-> [a |-> "idle", b |-> "idle", c |-> "idle"],deliv |-> "-",box |-> [a |-> 0, b |-> 0, c |-> 0],inCh |-> <<[c |-> "c", k |-> "res", ab |-> FALSE]>>,aborts |-> [a |-> 0, b |-> 0, c |-> 0],got |-> [a |-> 0, b |-> 0, c |-> 0],execOk |-> [a |-> 0, b |-> 0, c |-> 1],queue |-> <<"a", "b">>]),
    ([cur |-> 0,pc |-> [a |-> "wait", b |-> "enq", c |-> "enq"],rpc |-> "deliver",wk |-> [a |-> "idle", b |-> "idle", c |-> "idle"],deliv |-> "c",box |-> [a |-> 0, b |-> 0, c |-> 0],inCh |-> <<>>,aborts |-> [a |-> 0, b |-> 0, c |-> 0],got |-> [a |-> 0, b |-> 0, c |-> 0],execOk |-> [a |-> 0, b |-> 0, c |-> 1],queue |-> <<"a", "b">>]),
    ([cur |-> 0,pc |-> [a |-> "wait", b |-> "wait", c |-> "enq"],rpc |-> "deliver",wk |-> [a |-> "idle", b |-> "idle", c |-> "idle"],deliv |-> "c",box |-> [a |-> 0, b |-> 0, c |-> 0],inCh |-> <<[c |-> "-", k |-> "nil", ab |-> FALSE]>>,aborts |-> [a |-> 0, b |-> 0, c |-> 0],got |-> [a |-> 0, b |-> 0, c |-> 0],execOk |-> [a |-> 0, b |-> 0, c |-> 1],queue |-> <<"a", "b">>])
    >>
----


=============================================================================

---- CONFIG RequestManager_TTrace_1790373987 ----
CONSTANTS
    Client = { "a" , "b" , "c" }
    Cap = 1
    MaxW = 1
    MaxAbort = 1
    ReplyCap = 0

INVARIANT
    _inv

CHECK_DEADLOCK
    \* CHECK_DEADLOCK off because of PROPERTY or INVARIANT above.
    FALSE

INIT
    _init

NEXT
    _next

CONSTANT
    _TETrace <- _trace

ALIAS
    _expression
=============================================================================
\* Generated on Fri Sep 25 22:06:28 UTC 2026