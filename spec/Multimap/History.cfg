SPECIFICATION Spec
CONSTRAINT Mark
POSTCONDITION Accepted
CHECK_DEADLOCK FALSE
