------------------------ MODULE MultimapHistoryTrace ------------------------
(* C17, concurrent clause: invoke / return events of index operations issued   *)
(* by several goroutines on one index (ordered by a shared atomic counter).    *)
(*  - insert, delete, update (old entry out, new entry in) and point lookup    *)
(*    take effect atomically at a silent       *)
(*    linearization step between invocation and return (TLC infers it);        *)
(*  - an ordered scan is not required to be one atomic snapshot (the skip list *)
(*    couples latches node by node): it must return, in key order and each     *)
(*    once, every in-range entry that was present during the WHOLE scan (in    *)
(*    particular the never-touched sentinel entries) and nothing that was not  *)
(*    present at SOME time during the scan.                                    *)
(* Acceptance is existential; register 1 holds the longest consumed prefix.    *)
(*   C17.conc   no such linearization exists (lost / phantom entry, stale      *)
(*              lookup, scan out of order or with duplicates, lost sentinel)   *)
EXTENDS Integers, Sequences, FiniteSets, TLC, TLCExt, Json, IOUtils

TraceLog == ndJsonDeserialize(IOEnv.TRACE)
TraceLen == Len(TraceLog)
Open == -2

VARIABLES ents,    \* set of <<k, r>>
          pend,    \* [call -> op] invoked, effect not yet taken (insert / delete / point)
          done,    \* calls that took effect, not yet returned
          scans,   \* [call -> [must, may]] running scans: entries present throughout / at some time
          l
vars == <<ents, pend, done, scans, l>>

Put(f, x, y) == [z \in DOMAIN f \cup {x} |-> IF z = x THEN y ELSE f[z]]
Drop(f, x) == [z \in DOMAIN f \ {x} |-> f[z]]
SetOf(s) == {s[i] : i \in DOMAIN s}
InRange(k, lo, hi) == (lo = Open \/ k >= lo) /\ (hi = Open \/ k <= hi)

Init == ents = {} /\ pend = <<>> /\ done = {} /\ scans = <<>> /\ l = 1

Reset == /\ l <= TraceLen /\ TraceLog[l].ev = "Reset"
         /\ ents' = IF "ents" \in DOMAIN TraceLog[l]
                      THEN {<<TraceLog[l].ents[i][1], TraceLog[l].ents[i][2]>> : i \in DOMAIN TraceLog[l].ents} ELSE {}
         /\ pend' = <<>> /\ done' = {} /\ scans' = <<>> /\ l' = l + 1
Inv == /\ l <= TraceLen /\ TraceLog[l].ev = "Inv" /\ TraceLog[l].res = "ok"
       /\ LET e == TraceLog[l] IN
          IF e.k = "scan"
            THEN /\ scans' = Put(scans, e.c, [must |-> {x \in ents : InRange(x[1], e.lo, e.hi)}, may |-> {x \in ents : InRange(x[1], e.lo, e.hi)}, e |-> e])
                 /\ UNCHANGED <<ents, pend, done>>
            ELSE /\ pend' = Put(pend, e.c, e) /\ UNCHANGED <<ents, done, scans>>
       /\ l' = l + 1
(* canonical late linearization: an effect is taken only when the next event is the return of a call that has not taken effect yet *)
(* or of a running scan (what a scan must / may contain depends on which effects were taken before it ended)      *)
Lin(c) == /\ l <= TraceLen /\ TraceLog[l].ev = "Ret" /\ (TraceLog[l].c \in DOMAIN pend \/ TraceLog[l].c \in DOMAIN scans)
          /\ c \in DOMAIN pend
          /\ LET op == pend[c] IN
             /\ CASE op.k = "ins" -> /\ ents' = ents \cup {<<op.a, op.r>>}
                                     /\ scans' = [s \in DOMAIN scans |-> IF InRange(op.a, scans[s].e.lo, scans[s].e.hi)
                                                                           THEN [scans[s] EXCEPT !.may = @ \cup {<<op.a, op.r>>}] ELSE scans[s]]
                  [] op.k = "del" -> /\ ents' = ents \ {<<op.a, op.r>>}
                                     /\ scans' = [s \in DOMAIN scans |-> [scans[s] EXCEPT !.must = @ \ {<<op.a, op.r>>}]]
                  [] op.k = "upd" -> \* UpdateEntry: the old entry goes and the new one comes in ONE step
                                     /\ ents' = (ents \ {<<op.a, op.r>>}) \cup {<<op.a2, op.r2>>}
                                     /\ scans' = [s \in DOMAIN scans |->
                                           [scans[s] EXCEPT !.must = @ \ {<<op.a, op.r>>},
                                                            !.may = IF InRange(op.a2, scans[s].e.lo, scans[s].e.hi) THEN @ \cup {<<op.a2, op.r2>>} ELSE @]]
                  [] op.k = "point" -> /\ SetOf(op.rids) = {x[2] : x \in {y \in ents : y[1] = op.a}}
                                       /\ Len(op.rids) = Cardinality(SetOf(op.rids))
                                       /\ UNCHANGED <<ents, scans>>
             /\ pend' = Drop(pend, c) /\ done' = done \cup {c} /\ UNCHANGED l
KeyOfRid(may, r) == (CHOOSE x \in may : x[2] = r)[1]
Ret == /\ l <= TraceLen /\ TraceLog[l].ev = "Ret"
       /\ LET c == TraceLog[l].c IN
          \/ /\ c \in done /\ done' = done \ {c} /\ UNCHANGED <<ents, pend, scans>>
          \/ /\ c \in DOMAIN scans
             /\ LET s == scans[c]
                    got == s.e.rids IN
                /\ Len(got) = Cardinality(SetOf(got))                                  \* each once
                /\ SetOf(got) \subseteq {x[2] : x \in s.may}                           \* nothing that was never there
                /\ {x[2] : x \in s.must} \subseteq SetOf(got)                          \* everything that was there throughout
                /\ \A i \in 1..(Len(got) - 1) : KeyOfRid(s.may, got[i]) <= KeyOfRid(s.may, got[i + 1])   \* key order
             /\ scans' = Drop(scans, c) /\ UNCHANGED <<ents, pend, done>>
       /\ l' = l + 1
Skip == l <= TraceLen /\ TraceLog[l].ev = "Create" /\ TraceLog[l].res = "ok" /\ l' = l + 1 /\ UNCHANGED <<ents, pend, done, scans>>
Next == Reset \/ Inv \/ Ret \/ Skip \/ \E c \in DOMAIN pend : Lin(c)
Spec == Init /\ [][Next]_vars

ASSUME TLCSet(1, 0)
Mark == /\ TLCSet(1, IF l > TLCGet(1) THEN l ELSE TLCGet(1))
        /\ (TLCGet(1) = TraceLen + 1 => l = TraceLen + 1)
Accepted ==
  LET reached == TLCGet(1) IN
  JsonSerialize(IOEnv.VOUT,
     [lines |-> TraceLen,
      viol |-> IF reached = TraceLen + 1 THEN <<>>
               ELSE <<[tag |-> "C17.conc", line |-> reached, kf |-> "new",
                       info |-> <<"longest explainable prefix ends before line", reached, TraceLog[reached]>>]>>])
=============================================================================
