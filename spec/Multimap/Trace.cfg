CONSTANTS
  Keys = {0}
  Rids = {0}
SPECIFICATION TSpec
INVARIANT Done
CHECK_DEADLOCK FALSE
