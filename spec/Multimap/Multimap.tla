------------------------------- MODULE Multimap -------------------------------
(***************************************************************************)
(* L0 contract of an index container: a set of entries (key, row id).       *)
(* Keys are ranks in an ordered domain; a row id is an opaque identity.     *)
(*   Insert / Delete / Update (= delete old entry, insert new entry)        *)
(*   Point(k)        = the row ids stored under k                           *)
(*   Range(lo, hi)   = the entries with lo <= key <= hi (either bound may   *)
(*                     be open), in key order, each once                    *)
(* Unique kinds hold at most one row id per key (the driver respects that). *)
(***************************************************************************)
EXTENDS Integers, Sequences, FiniteSets, TLC

CONSTANTS Keys, Rids      \* finite sets for model checking; the trace spec does not use them

VARIABLE ents             \* set of [k, r]
Open == -2

Init == ents = {}
Insert(k, r) == ents' = ents \cup {[k |-> k, r |-> r]}
Delete(k, r) == ents' = ents \ {[k |-> k, r |-> r]}
Update(k1, r1, k2, r2) == ents' = (ents \ {[k |-> k1, r |-> r1]}) \cup {[k |-> k2, r |-> r2]}

PointAnswer(k) == {e.r : e \in {x \in ents : x.k = k}}
InRange(k, lo, hi) == (lo = Open \/ k >= lo) /\ (hi = Open \/ k <= hi)
RangeSet(lo, hi) == {e \in ents : InRange(e.k, lo, hi)}
(* a sequence of row ids is a correct range answer iff it lists the in-range entries each once in key order *)
KeyOf(r) == (CHOOSE e \in ents : e.r = r).k
RangeAnswerOK(seq, lo, hi) ==
  /\ Len(seq) = Cardinality(RangeSet(lo, hi))
  /\ {seq[i] : i \in DOMAIN seq} = {e.r : e \in RangeSet(lo, hi)}
  /\ \A i \in 1..(Len(seq) - 1) : KeyOf(seq[i]) <= KeyOf(seq[i + 1])

Next == \E k \in Keys, r \in Rids : Insert(k, r) \/ Delete(k, r)
Spec == Init /\ [][Next]_ents
(* row ids are unique per entry in the way the engine uses an index: one key per row id at a time *)
===============================================================================
