---------------------------- MODULE MultimapTrace ----------------------------
(* Deterministic trace specification for the index containers (C17,            *)
(* sequential part): every recorded index call is one Multimap action, every    *)
(* recorded lookup / scan answer is compared with the reference.                *)
(*   C17.point   a lookup did not return exactly the row ids stored under key  *)
(*   C17.range   a scan did not return exactly the in-range entries each once   *)
(*   C17.order   a scan returned entries out of key order                      *)
(*   C17.fail    an index call panicked or hung                                *)
(*   C14.pins    pins held after the call differ from before                   *)
EXTENDS Multimap, TraceKit

VARIABLES l, viol,
          sawFF,   \* a key whose encoding starts with ff ff was inserted into this index
          many,    \* this index has held >= 100 entries
          sawMin   \* the smallest key of the domain (rank 0) was stored in this index
tvars == <<ents, l, viol, sawFF, many, sawMin>>
V(tag, ln, info) == <<[tag |-> tag, line |-> ln, info |-> info, kf |-> "new"]>>

VK(tag, ln, info, kf) == <<[tag |-> tag, line |-> ln, info |-> info, kf |-> kf]>>
PinnedPages(p) == {p[i][1] : i \in DOMAIN p}
Pins(e, ln) == IF Has(e, "pb") /\ PinnedPages(e.pb) # PinnedPages(e.pa) THEN V("C14.pins", ln, <<e.ev, e.kind, e.pb, e.pa>>) ELSE <<>>

(* Known finding KF-C17-uniq-int (known_findings.json): the UNIQUE skip list index with INTEGER keys loses   *)
(* entries (lookups and scans miss stored keys, removal then panics, a later lookup can hang); the smallest *)
(* integer, which is also the start node's "minus infinity" key, is the shortest way to trigger it.         *)
(* Root: that index stores integer keys as they are and its start node's "minus infinity" key IS the smallest  *)
(* integer.  Signature: kind "uniq", key type "int", and the smallest integer (rank 0) is involved - the call   *)
(* names it, a scan starts exactly at it, or it was stored earlier in the sequence.  Everything else about the   *)
(* unique skip list over integers is judged strictly.                                                           *)
UniqInt(e) == /\ e.kind = "uniq" /\ e.ktype = "int"
              /\ \/ sawMin                                                 \* the smallest integer was stored: the list is corrupt from then on
                 \/ (e.ev \in {"MPoint", "MInsert", "MDelete", "MUpdate"} /\ e.k = 0)   \* the call names the smallest integer
                 \/ (e.ev = "MUpdate" /\ e.k2 = 0)
                 \/ (e.ev = "MRange" /\ e.lo = 0)                          \* the scan starts exactly at it
(* Known finding KF-C17-btree-ffff-stopper: B-tree over integer keys whose encoding starts with ff ff (>= 2147418112): *)
(* such keys compare greater than the tree's 2-byte stopper key; after a split of the right-most leaf entries are    *)
(* filed in / looked up from the wrong leaf.  Signature: kind btree, key type int, such a key was inserted (the       *)
(* driver marks those calls with ffk) and the index has held >= 100 entries (smaller trees are one leaf).              *)
BtFF(e) == e.kind = "btree" /\ e.ktype = "int" /\ sawFF /\ many
KFOf(e) == IF UniqInt(e) THEN "KF-C17-uniq-int" ELSE IF BtFF(e) THEN "KF-C17-btree-ffff-stopper" ELSE "new"

Fail(e, ln) == IF e.res = "ok" THEN <<>> ELSE VK("C17.fail", ln, <<e.ev, e.res>>, KFOf(e))

PointCheck(e, ln) ==
  IF e.res # "ok" THEN <<>>
  ELSE IF SetOf(e.rids) # PointAnswer(e.k) \/ Len(e.rids) # Cardinality(PointAnswer(e.k))
    THEN VK("C17.point", ln, [kind |-> e.kind, key |-> e.k, got |-> e.rids, want |-> PointAnswer(e.k)],
            KFOf(e)) ELSE <<>>

RangeCheck(e, ln) ==
  IF e.res # "ok" THEN <<>>
  ELSE LET want == {x.r : x \in RangeSet(e.lo, e.hi)}
           known == \A i \in DOMAIN e.rids : \E x \in ents : x.r = e.rids[i] IN
       IF Len(e.rids) # Cardinality(want) \/ SetOf(e.rids) # want
         THEN VK("C17.range", ln, [kind |-> e.kind, lo |-> e.lo, hi |-> e.hi, got |-> e.rids, missing |-> want \ SetOf(e.rids), extra |-> SetOf(e.rids) \ want],
                 KFOf(e))
       ELSE IF known /\ \E i \in 1..(Len(e.rids) - 1) : KeyOf(e.rids[i]) > KeyOf(e.rids[i + 1])
         THEN VK("C17.order", ln, [kind |-> e.kind, got |-> e.rids], KFOf(e)) ELSE <<>>

TInit == Init /\ l = 1 /\ viol = <<>> /\ sawFF = FALSE /\ many = FALSE /\ sawMin = FALSE
TNext ==
  /\ l <= TraceLen
  /\ LET e == TraceLog[l] IN
     CASE e.ev = "Reset" -> ents' = {} /\ UNCHANGED viol /\ sawFF' = FALSE /\ many' = FALSE /\ sawMin' = FALSE
       [] e.ev = "Create" -> UNCHANGED ents /\ viol' = AddViol(viol, Fail(e, l))
       [] e.ev = "MInsert" -> (IF e.res = "ok" THEN Insert(e.k, e.r) ELSE UNCHANGED ents) /\ viol' = AddViol(viol, Fail(e, l) \o Pins(e, l))
       [] e.ev = "MDelete" -> (IF e.res = "ok" THEN Delete(e.k, e.r) ELSE UNCHANGED ents) /\ viol' = AddViol(viol, Fail(e, l) \o Pins(e, l))
       [] e.ev = "MUpdate" -> (IF e.res = "ok" THEN Update(e.k, e.r, e.k2, e.r2) ELSE UNCHANGED ents) /\ viol' = AddViol(viol, Fail(e, l) \o Pins(e, l))
       [] e.ev = "MPoint" -> UNCHANGED ents /\ viol' = AddViol(viol, Fail(e, l) \o PointCheck(e, l) \o Pins(e, l))
       [] e.ev = "MRange" -> UNCHANGED ents /\ viol' = AddViol(viol, Fail(e, l) \o RangeCheck(e, l) \o Pins(e, l))
  /\ LET e == TraceLog[l] IN
       IF e.ev = "Reset" THEN TRUE
       ELSE /\ sawFF' = (sawFF \/ (e.ev \in {"MInsert", "MUpdate"} /\ Has(e, "ffk")))
            /\ many' = (many \/ Cardinality(ents') >= 100)
            /\ sawMin' = (sawMin \/ (e.ev = "MInsert" /\ e.k = 0) \/ (e.ev = "MUpdate" /\ e.k2 = 0))
  /\ l' = l + 1
TSpec == TInit /\ [][TNext]_tvars
Done == (l = TraceLen + 1) => Emit(viol, l - 1)
==============================================================================
