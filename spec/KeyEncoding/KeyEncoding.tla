------------------------------ MODULE KeyEncoding ------------------------------
(***************************************************************************)
(* The index-key encoding scheme of samehada_util.go, stated once and      *)
(* parametrically in the digit base B and digit count N, so that the same  *)
(* operators are (a) checked for ALL pairs at reduced width (B = 4, N = 3:  *)
(* 6-bit values) by TLC evaluating the ASSUMEs of MCReduced, and (b) used   *)
(* at full width (B = 256, N = 4) as the oracle for vectors recorded from   *)
(* the real functions (KeyEncodingTrace).                                   *)
(*   integers: two's complement, sign bit flipped, big-endian digits        *)
(*             (encodeToDicOrderComparableBytes L277-284)                   *)
(*   floats  : pattern (sign, magnitude); non-negative -> set the sign bit, *)
(*             negative -> complement; big-endian (L264-275)                *)
(*   strings : bytes, then four zero bytes (L338-347)                       *)
(*   row id  : appended as UInt64(slot << 32 | page).Serialize(), which is  *)
(*             little-endian: page digits LE, then slot digits LE           *)
(***************************************************************************)
EXTENDS Integers, Sequences, FiniteSets, TLC

RECURSIVE Pow(_, _)
Pow(b, n) == IF n = 0 THEN 1 ELSE b * Pow(b, n - 1)

(* lexicographic order on digit sequences (Go's string comparison) *)
RECURSIVE LexLess(_, _)
LexLess(x, y) == IF x = <<>> THEN y # <<>>
                 ELSE IF y = <<>> THEN FALSE
                 ELSE IF Head(x) # Head(y) THEN Head(x) < Head(y)
                 ELSE LexLess(Tail(x), Tail(y))

(* ---- integers: a in -B^N/2 .. B^N/2 - 1 --------------------------------- *)
EncInt(a, B, N) == [k \in 1..N |-> IF k = 1 THEN ((a \div Pow(B, N - 1)) + B \div 2) % B
                                          ELSE (a \div Pow(B, N - k)) % B]
(* value of big-endian digits d[from..N] *)
RECURSIVE BEVal(_, _, _)
BEVal(d, B, k) == IF k = 0 THEN 0 ELSE BEVal(d, B, k - 1) * B + d[k]
DecInt(d, B, N) == LET top == (d[1] + B \div 2) % B                     \* flip back
                       rest == BEVal([k \in 1..(N-1) |-> d[k + 1]], B, N - 1)
                   IN (IF top >= B \div 2 THEN top - B ELSE top) * Pow(B, N - 1) + rest

(* ---- floats as (sign, magnitude); magnitude in 0 .. B^N/2 - 1 ------------ *)
(* numeric order of two non-NaN IEEE patterns: the value is (-1)^s * g(m) with g strictly  *)
(* increasing and g(0) = 0, so -0 = +0.                                                     *)
FLess(a, b) == IF a.s = 1 /\ b.s = 0 THEN ~(a.m = 0 /\ b.m = 0)
               ELSE IF a.s = 0 /\ b.s = 1 THEN FALSE
               ELSE IF a.s = 0 THEN a.m < b.m ELSE a.m > b.m
FEq(a, b) == (a.m = 0 /\ b.m = 0) \/ (a.s = b.s /\ a.m = b.m)
(* digits of the unsigned number u (0 <= u < B^N), big-endian; u is given as top digit + rest to stay inside 32 bits *)
BEDigitsHL(top, rest, B, N) == [k \in 1..N |-> IF k = 1 THEN top ELSE (rest \div Pow(B, N - k)) % B]
(* `f >= 0` in the code is true for -0.0 as well *)
EncFloat(f, B, N) ==
  LET half == Pow(B, N - 1)        \* weight of the top digit
      mtop == f.m \div half         \* top digit of the magnitude (< B/2)
      mrest == f.m % half
  IN IF f.s = 0 \/ f.m = 0
       THEN BEDigitsHL(mtop + B \div 2, mrest, B, N)                         \* set the sign bit
       ELSE BEDigitsHL((B \div 2 - 1) - mtop, (half - 1) - mrest, B, N)      \* complement of (sign | magnitude)
DecFloat(d, B, N) ==
  LET half == Pow(B, N - 1)
      rest == BEVal([k \in 1..(N-1) |-> d[k + 1]], B, N - 1)
  IN IF d[1] >= B \div 2 THEN [s |-> 0, m |-> (d[1] - B \div 2) * half + rest]
                         ELSE [s |-> 1, m |-> ((B \div 2 - 1) - d[1]) * half + ((half - 1) - rest)]

(* ---- strings (no zero digit) ---------------------------------------------- *)
EncStr(s) == s \o <<0, 0, 0, 0>>
DecStr(d) == SubSeq(d, 1, Len(d) - 4)

(* ---- row id suffix: page then slot, each little-endian, NR digits each ---- *)
LEDigits(v, B, N) == [k \in 1..N |-> (v \div Pow(B, k - 1)) % B]
RidSuffix(r, B, NR) == LEDigits(r.p, B, NR) \o LEDigits(r.s, B, NR)

================================================================================
