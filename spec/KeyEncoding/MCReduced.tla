------------------------------ MODULE MCReduced ------------------------------
(* All-pairs check of the scheme at reduced width: digits base 4, 3 digits    *)
(* (6-bit integers, 1+5-bit floats), strings of length <= 3 over {1,2,3},     *)
(* row ids with 2-digit page (< 8, the analogue of page < 2^31) and slot (< 16).                    *)
EXTENDS KeyEncoding
B == 4
N == 3
NR == 2
Ints == -(Pow(B, N) \div 2) .. (Pow(B, N) \div 2 - 1)
MaxMag == Pow(B, N) \div 2 - 1
(* the top-exponent patterns with non-zero mantissa are NaNs and excluded: model "exponent" = top 2 bits of the magnitude all ones *)
NaNFrom == (MaxMag + 1) - (MaxMag + 1) \div 4 + 1
Floats == {[s |-> s, m |-> m] : s \in {0, 1}, m \in 0..(NaNFrom - 1)}
Alpha == {1, 2, 3}
Strs == {<<>>} \cup {<<a>> : a \in Alpha} \cup {<<a, b>> : a, b \in Alpha} \cup {<<a, b, c>> : a, b, c \in Alpha}
AllRids == {[p |-> p, s |-> s] : p \in 0..(Pow(B, NR) \div 2 - 1), s \in 0..(Pow(B, NR) - 1)}
Rids == {r \in AllRids : r.p \in {0, 1, 3, 4, 7} /\ r.s \in {0, 1, 4, 5, 15}}
MinRid == [p |-> 0, s |-> 0]
MaxRid == [p |-> Pow(B, NR) \div 2 - 1, s |-> Pow(B, NR) - 1]
LexLeq(x, y) == x = y \/ LexLess(x, y)

IntKey(a, r) == EncInt(a, B, N) \o RidSuffix(r, B, NR)
FloatKey(f, r) == EncFloat(f, B, N) \o RidSuffix(r, B, NR)
StrKey(s, r) == EncStr(s) \o RidSuffix(r, B, NR)

RECURSIVE SeqLess(_, _)
SeqLess(x, y) == LexLess(x, y)   \* strings over non-zero digits compare bytewise

ASSUME IntOrder == \A a, b \in Ints : (a < b) <=> LexLess(EncInt(a, B, N), EncInt(b, B, N))
ASSUME IntRound == \A a \in Ints : DecInt(EncInt(a, B, N), B, N) = a
ASSUME FloatOrder == \A a, b \in Floats : /\ FLess(a, b) <=> LexLess(EncFloat(a, B, N), EncFloat(b, B, N))
                                          /\ FEq(a, b) <=> (EncFloat(a, B, N) = EncFloat(b, B, N))
ASSUME FloatRound == \A a \in Floats : FEq(DecFloat(EncFloat(a, B, N), B, N), a)
ASSUME StrOrder == \A a, b \in Strs : SeqLess(a, b) <=> LexLess(EncStr(a), EncStr(b))
ASSUME StrRound == \A a \in Strs : DecStr(EncStr(a)) = a
(* composite: the key part dominates, whatever the row ids *)
ASSUME IntDominates == \A a, b \in Ints : a < b => \A r1, r2 \in Rids : LexLess(IntKey(a, r1), IntKey(b, r2))
ASSUME FloatDominates == \A a, b \in Floats : FLess(a, b) => \A r1, r2 \in Rids : LexLess(FloatKey(a, r1), FloatKey(b, r2))
ASSUME StrDominates == \A a, b \in Strs : SeqLess(a, b) => \A r1, r2 \in Rids : LexLess(StrKey(a, r1), StrKey(b, r2))
(* distinct row ids give distinct entries; every row id lies between the ScanKey bounds *)
ASSUME RidDistinct == \A r1, r2 \in AllRids : r1 # r2 => RidSuffix(r1, B, NR) # RidSuffix(r2, B, NR)
ASSUME RidBounds == \A r \in AllRids : LexLeq(RidSuffix(MinRid, B, NR), RidSuffix(r, B, NR)) /\ LexLeq(RidSuffix(r, B, NR), RidSuffix(MaxRid, B, NR))

VARIABLE x
Init == x = 0
Next == x' = x
Spec == Init /\ [][Next]_x
===============================================================================
