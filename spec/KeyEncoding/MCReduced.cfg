SPECIFICATION Spec
