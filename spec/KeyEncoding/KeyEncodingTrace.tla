-------------------------- MODULE KeyEncodingTrace --------------------------
(* Validates vectors recorded from the real encode / decode / pack / unpack   *)
(* functions at full width (B = 256, N = 4).  The order and round-trip        *)
(* requirements of C18 are evaluated by TLC directly on the recorded bytes;   *)
(* in addition the bytes must equal the scheme of module KeyEncoding.         *)
(*   C18.order      (a < b) <=> Enc(a,ra) <lex Enc(b,rb) fails on recorded    *)
(*                  bytes, or equal keys with distinct row ids collide        *)
(*   C18.roundtrip  decoding the recorded encoding does not return the value  *)
(*   C18.scheme     recorded bytes differ from the documented scheme          *)
(*   C18.rid        pack/unpack of a row id is not the identity / not the     *)
(*                  documented layout                                         *)
(*   C18.bounds     a row id's suffix is outside the ScanKey bounds           *)
(*   C18.oracle     (self-check) Go's own float comparison disagrees with     *)
(*                  FLess - a defect of this specification, not of the code   *)
EXTENDS KeyEncoding, TraceKit

VARIABLES l, viol
tvars == <<l, viol>>
B == 256
N == 4

V(tag, ln, info) == <<[tag |-> tag, line |-> ln, info |-> info]>>

Slot4(s) == <<s[2] % 256, s[2] \div 256, s[1] % 256, s[1] \div 256>>    \* s = <<hi16, lo16>>, little-endian bytes
Suffix(r) == LEDigits(r.p, B, 4) \o Slot4(r.s)
MinSuffix == <<0, 0, 0, 0, 0, 0, 0, 0>>
MaxSuffix == <<255, 255, 255, 127, 255, 255, 255, 255>>
LexLeq(x, y) == x = y \/ LexLess(x, y)
Tail8(x) == SubSeq(x, Len(x) - 7, Len(x))

KeyLess(k, a, b) == CASE k = "Int" -> a < b [] k = "Float" -> FLess(a, b) [] k = "Str" -> LexLess(a, b)
KeyEq(k, a, b) == CASE k = "Int" -> a = b [] k = "Float" -> FEq(a, b) [] k = "Str" -> a = b
SpecKey(k, a) == CASE k = "Int" -> EncInt(a, B, N) [] k = "Float" -> EncFloat(a, B, N) [] k = "Str" -> EncStr(a)

PairCheck(e, ln) ==
  LET k == e.ev
      lt == KeyLess(k, e.a, e.b)
      gt == KeyLess(k, e.b, e.a)
      eq == KeyEq(k, e.a, e.b)
  IN (IF \/ (lt /\ ~LexLess(e.ea, e.eb))
         \/ (gt /\ ~LexLess(e.eb, e.ea))
         \/ (eq /\ e.ra # e.rb /\ e.ea = e.eb)
         \/ (eq /\ e.ra = e.rb /\ e.ea # e.eb)
        THEN V("C18.order", ln, <<k, e.a, e.b>>) ELSE <<>>)
  \o (IF ~KeyEq(k, e.da, e.a) \/ ~KeyEq(k, e.db, e.b) THEN V("C18.roundtrip", ln, <<k, e.a, e.da, e.b, e.db>>) ELSE <<>>)
  \o (IF (e.ea # SpecKey(k, e.a) \o Suffix(e.ra)) \/ (e.eb # SpecKey(k, e.b) \o Suffix(e.rb))
        THEN V("C18.scheme", ln, <<k, e.a, e.ea, SpecKey(k, e.a) \o Suffix(e.ra)>>) ELSE <<>>)
  \o (IF ~(LexLeq(MinSuffix, Tail8(e.ea)) /\ LexLeq(Tail8(e.ea), MaxSuffix)) THEN V("C18.bounds", ln, e.ra) ELSE <<>>)
  \o (IF k = "Float" /\ (e.golt # lt \/ e.goeq # eq) THEN V("C18.oracle", ln, <<e.a, e.b, e.golt, lt>>) ELSE <<>>)

(* u64 = slot << 32 | page as four 16-bit halves, most significant first *)
RidCheck(e, ln) ==
  LET r == e.r
      p16 == <<r.p \div 65536, r.p % 65536>>
  IN (IF e.back64 # r \/ e.back8 # r THEN V("C18.rid", ln, <<"unpack", r, e.back64, e.back8>>) ELSE <<>>)
  \o (IF e.u64 # <<r.s[1], r.s[2], p16[1], p16[2]>> THEN V("C18.rid", ln, <<"layout64", r, e.u64>>) ELSE <<>>)
  \o (IF e.b8 # <<(r.p \div 16777216) % 256, (r.p \div 65536) % 256, (r.p \div 256) % 256, r.p % 256,
                  r.s[1] \div 256, r.s[1] % 256, r.s[2] \div 256, r.s[2] % 256>>
        THEN V("C18.rid", ln, <<"layout8", r, e.b8>>) ELSE <<>>)
  \o (IF Has(e, "back6") /\ e.back6 # r THEN V("C18.rid", ln, <<"btree6", r, e.back6>>) ELSE <<>>)

TInit == l = 1 /\ viol = <<>>
TNext == /\ l <= TraceLen
         /\ LET e == TraceLog[l] IN
              viol' = AddViol(viol, CASE e.ev \in {"Int", "Float", "Str"} -> PairCheck(e, l)
                                      [] e.ev = "Rid" -> RidCheck(e, l)
                                      [] e.ev = "Reset" -> <<>>)
         /\ l' = l + 1
TSpec == TInit /\ [][TNext]_tvars
Done == (l = TraceLen + 1) => Emit(viol, l - 1)
=============================================================================
