------------------------- MODULE ClockReplacerTrace -------------------------
(* Deterministic trace specification for ClockReplacer (C13).  Each recorded *)
(* event is one call on a real buffer.ClockReplacer with its answer and the  *)
(* Size() read after it.  The ghost `mem` is the candidate set the CONTRACT  *)
(* defines (Unpin adds, Pin and Victim take away); the mechanism state       *)
(* (list, ref, hand) is stepped with the actions of ClockReplacer.tla.       *)
(*   C13.evictpinned  Victim returned a frame that is not a candidate (a     *)
(*                    pinned frame, or a frame it had already returned)      *)
(*   C13.novictim     Victim did not answer (panic / hang) although there    *)
(*                    was a candidate                                        *)
(*   C13.size         Size() differs from the number of candidates           *)
(*   C13.panic        Pin / Unpin panicked or hung                           *)
(* A victim that IS a candidate but not the one the mechanism spec chooses   *)
(* is a change of policy, which C13 does not forbid: it is counted in `dev`  *)
(* and the mechanism state is re-synchronised on the real choice.            *)
EXTENDS ClockReplacer, TraceKit

VARIABLES l, viol, mem, dev
tvars == <<vars, l, viol, mem, dev>>

TInit == Init /\ l = 1 /\ viol = <<>> /\ mem = {} /\ dev = 0

V(tag, ln, info) == <<[tag |-> tag, line |-> ln, info |-> info]>>

(* re-synchronise the mechanism state on a candidate set and a victim chosen by another policy *)
Resync(m, after) ==
  LET s == SelectSeq(list, LAMBDA x : x \in m) IN
  /\ list' = s
  /\ ref' = [x \in Elems(s) |-> TRUE]
  /\ hand' = IF s = <<>> THEN None ELSE "head"

TNext ==
  /\ l <= TraceLen
  /\ LET e == TraceLog[l] IN
     CASE e.ev = "Reset" ->
            /\ list' = <<>> /\ ref' = << >> /\ hand' = "head" /\ mem' = {}
            /\ reply' = [op |-> "init", f |-> None, size |-> 0]
            /\ UNCHANGED <<viol, dev>>
       [] e.ev = "Unpin" ->
            /\ mem' = mem \cup {e.f}
            /\ IF Elems(list) = mem THEN Unpin(e.f) ELSE (Resync(mem', e.f) /\ UNCHANGED reply)
            /\ viol' = AddViol(viol,
                 (IF e.res # "ok" THEN V("C13.panic", l, <<"Unpin", e.f, e.res>>) ELSE <<>>) \o
                 (IF e.res = "ok" /\ e.size # Cardinality(mem') THEN V("C13.size", l, <<"Unpin", e.f, e.size, Cardinality(mem')>>) ELSE <<>>))
            /\ UNCHANGED dev
       [] e.ev = "Pin" ->
            /\ mem' = mem \ {e.f}
            /\ IF Elems(list) = mem THEN Pin(e.f) ELSE (Resync(mem', e.f) /\ UNCHANGED reply)
            /\ viol' = AddViol(viol,
                 (IF e.res # "ok" THEN V("C13.panic", l, <<"Pin", e.f, e.res>>) ELSE <<>>) \o
                 (IF e.res = "ok" /\ e.size # Cardinality(mem') THEN V("C13.size", l, <<"Pin", e.f, e.size, Cardinality(mem')>>) ELSE <<>>))
            /\ UNCHANGED dev
       [] e.ev = "Victim" ->
            IF mem = {}
              THEN \* no candidate: the code panics by design (pool exhausted); any frame returned is a pinned one
                   /\ UNCHANGED <<cvars, reply, mem, dev>>
                   /\ viol' = AddViol(viol, IF e.res \in Frame THEN V("C13.evictpinned", l, <<e.res, "no candidate">>) ELSE <<>>)
              ELSE IF e.res \notin Frame
                THEN \* panic / hang with candidates present
                     /\ UNCHANGED <<cvars, reply, mem, dev>>
                     /\ viol' = AddViol(viol, V("C13.novictim", l, <<e.res, mem>>))
                ELSE IF e.res \notin mem
                  THEN /\ UNCHANGED <<cvars, reply, mem, dev>>
                       /\ viol' = AddViol(viol, V("C13.evictpinned", l, <<e.res, mem>>))
                  ELSE /\ mem' = mem \ {e.res}
                       /\ IF Elems(list) = mem /\ Deref = e.res
                            THEN Victim /\ dev' = dev
                            ELSE Resync(mem', e.res) /\ UNCHANGED reply /\ dev' = dev + 1
                       /\ viol' = AddViol(viol, IF e.size # Cardinality(mem')
                                                  THEN V("C13.size", l, <<"Victim", e.res, e.size, Cardinality(mem')>>) ELSE <<>>)
  /\ l' = l + 1

TSpec == TInit /\ [][TNext]_tvars

(* invariants of the mechanism spec on the replayed states *)
TInv == NoDup /\ (Elems(list) = mem => HandLive)

Done == (l = TraceLen + 1) =>
          JsonSerialize(IOEnv.VOUT, [viol |-> viol, lines |-> l - 1, extra |-> [policy_deviations |-> dev]])
===============================================================================
