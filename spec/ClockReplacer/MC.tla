---- MODULE MC ----
EXTENDS ClockReplacer
View == cvars
(* refinement: the policy as coded implements the replacer BufferPool.tla assumes *)
C == INSTANCE ReplacerContract WITH cand <- Elems(list),
       last <- IF reply.op = "Victim" /\ reply.f \in Frame THEN reply.f ELSE "none"
Refines == C!CSpec
====
