---- MODULE MC ----
EXTENDS ClockReplacer
View == cvars
====
