CONSTANTS
  Frame = {"f0", "f1", "f2", "f3", "f4", "f5", "f6", "f7", "f8", "f9", "f10", "f11", "f12", "f13", "f14", "f15"}
  None = "None"
SPECIFICATION TSpec
INVARIANTS Done TInv
CHECK_DEADLOCK FALSE
