--------------------------- MODULE ReplacerContract ---------------------------
(* What BufferPool.tla assumes of its replacer (there the replacer is the set *)
(* of frames whose pin count is zero and the victim is ANY member): a set of  *)
(* candidates, Unpin adds, Pin takes away, Victim takes some member away and  *)
(* answers with it; with no candidate Victim changes nothing.                 *)
(* ClockReplacer.tla is checked to implement this module under the mapping    *)
(* cand = the set of frames in its circular list (MC.tla, property Refines):  *)
(* that is the step from the policy as coded to the abstraction BufferPool's  *)
(* exhaustive checks rest on.                                                 *)
CONSTANTS Frame
VARIABLES cand, last      \* last = the frame the latest Victim call answered with, or "none"

CInit == cand = {} /\ last = "none"
CUnpin(f)  == cand' = cand \cup {f} /\ last' = "none"
CPin(f)    == cand' = cand \ {f} /\ last' = "none"
CVictim    == \/ (cand # {} /\ \E v \in cand : cand' = cand \ {v} /\ last' = v)
              \/ (cand = {} /\ UNCHANGED cand /\ last' = "none")
CNext == (\E f \in Frame : CUnpin(f) \/ CPin(f)) \/ CVictim
CSpec == CInit /\ [][CNext]_<<cand, last>>
===============================================================================
