---------------------------- MODULE ClockReplacer ----------------------------
(* L1 mechanism specification of lib/storage/buffer/clock_replacer.go and     *)
(* circular_list.go: the structure from which the buffer pool takes its       *)
(* eviction victims.  BufferPool.tla abstracts the policy to "any member of   *)
(* the replacer"; this module is the policy as coded and states what C13      *)
(* needs of it: a frame that is pinned (was taken out with Pin, or was never  *)
(* handed in with Unpin) is never returned by Victim, no frame is returned    *)
(* twice without an Unpin in between, Size is the number of candidates, and   *)
(* Victim answers whenever there is a candidate.                              *)
(*                                                                            *)
(* State as the code keeps it:                                                *)
(*   list  the circular list from head to tail (insert appends at the tail)   *)
(*   ref   the nodes' reference bits (every node is inserted with TRUE)       *)
(*   hand  clockHand is a **node: it is either &cList.head - an ALIAS of the  *)
(*         list head, value "head" here - or the address of the next field of *)
(*         a node that has just been taken out of the list, whose value is    *)
(*         frozen from then on: the frame that followed it.                   *)
(*                                                                            *)
(* Deliberate deviation of the code from the textbook clock, modelled as      *)
(* coded: Victim's loop never advances `currentNode`; a set reference bit is  *)
(* cleared and the same node is looked at again, so the victim is always the  *)
(* node under the hand and the reference bit never saves a frame.             *)
EXTENDS Naturals, Sequences, FiniteSets

CONSTANTS Frame, None

VARIABLES list, ref, hand, reply
cvars == <<list, ref, hand>>
vars  == <<cvars, reply>>

Elems(s) == {s[i] : i \in DOMAIN s}
Pos(s, f) == CHOOSE i \in DOMAIN s : s[i] = f
Without(s, f) == SelectSeq(s, LAMBDA x : x # f)
(* the node after f in the circle (f itself when it is alone) *)
Succ(s, f) == s[(Pos(s, f) % Len(s)) + 1]

(* *clockHand *)
Deref == IF hand = "head" THEN (IF list = <<>> THEN None ELSE Head(list)) ELSE hand

TypeOK ==
  /\ list \in Seq(Frame) /\ Len(list) <= Cardinality(Frame)
  /\ ref \in [Elems(list) -> BOOLEAN]
  /\ hand \in Frame \cup {"head", None}

Init ==
  /\ list = <<>> /\ ref = << >> /\ hand = "head"
  /\ reply = [op |-> "init", f |-> None, size |-> 0]

(* Unpin(id): the frame's pin count fell to zero - it becomes a candidate.    *)
(* A frame that is already a candidate is left alone (its bit is not set).    *)
Unpin(f) ==
  /\ IF f \in Elems(list)
       THEN UNCHANGED cvars
       ELSE /\ list' = Append(list, f)
            /\ ref' = [x \in Elems(list) \cup {f} |-> IF x = f THEN TRUE ELSE ref[x]]
            /\ hand' = IF list = <<>> THEN "head" ELSE hand
  /\ reply' = [op |-> "Unpin", f |-> f, size |-> Len(list')]

(* Pin(id): the frame is in use - it stops being a candidate.  When the hand  *)
(* points at its node the hand moves on first.                                *)
Pin(f) ==
  /\ IF f \notin Elems(list)
       THEN UNCHANGED cvars
       ELSE /\ hand' = IF Deref = f THEN (IF Len(list) = 1 THEN None ELSE Succ(list, f)) ELSE hand
            /\ list' = Without(list, f)
            /\ ref' = [x \in Elems(list) \ {f} |-> ref[x]]
  /\ reply' = [op |-> "Pin", f |-> f, size |-> Len(list')]

(* Victim(): panics when there is no candidate (the pool is exhausted).       *)
Victim ==
  IF list = <<>>
    THEN /\ UNCHANGED cvars
         /\ reply' = [op |-> "Victim", f |-> "panic", size |-> 0]
    ELSE LET v == Deref IN
         /\ v \in Elems(list)      \* otherwise the loop of the code runs on a node that is not in the list
         /\ hand' = IF Len(list) = 1 THEN None ELSE Succ(list, v)
         /\ list' = Without(list, v)
         /\ ref' = [x \in Elems(list) \ {v} |-> ref[x]]
         /\ reply' = [op |-> "Victim", f |-> v, size |-> Len(list')]

Next == (\E f \in Frame : Unpin(f) \/ Pin(f)) \/ Victim
Spec == Init /\ [][Next]_vars

-------------------------------------------------------------------------------
(* What C13 needs *)
NoDup == Cardinality(Elems(list)) = Len(list)
(* the hand always denotes a node of the list: Victim's loop terminates and never returns a stale node *)
HandLive == list # <<>> => Deref \in Elems(list)
(* a victim was a candidate, and stops being one *)
VictimWasCandidate ==
  [][(reply'.op = "Victim" /\ reply'.f # "panic") => (reply'.f \in Elems(list) /\ reply'.f \notin Elems(list'))]_vars
(* Victim answers whenever there is a candidate *)
VictimAnswers == [][(reply'.op = "Victim" /\ list # <<>>) => reply'.f \in Frame]_vars
(* only Unpin makes a candidate, Pin and Victim take exactly one away *)
CandidatesRight ==
  [][ /\ (reply'.op = "Unpin"  => Elems(list') = Elems(list) \cup {reply'.f})
      /\ (reply'.op = "Pin"    => Elems(list') = Elems(list) \ {reply'.f})
      /\ (reply'.op = "Victim" => Elems(list') = Elems(list) \ {reply'.f}) ]_vars
(* every candidate is reached: n Victim calls in a row return n different frames (checked as: the hand's circle is the list) *)
AllBitsSet == \A x \in Elems(list) : ref[x]
===============================================================================
