CONSTANTS
  Frame = {"f0", "f1", "f2", "f3"}
  None = "None"
SPECIFICATION TSpec
INVARIANTS Done TInv
CHECK_DEADLOCK FALSE
