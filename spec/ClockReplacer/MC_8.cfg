CONSTANTS
  Frame = {"f0", "f1", "f2", "f3", "f4", "f5", "f6", "f7"}
  None = "None"
SPECIFICATION Spec
INVARIANTS TypeOK NoDup HandLive AllBitsSet
PROPERTIES VictimWasCandidate VictimAnswers CandidatesRight Refines
VIEW View
CHECK_DEADLOCK FALSE
