CONSTANTS
  Name = {"a", "b"}
  Kind = {"skip", "btree"}
  MaxV = 2
  MaxStops = 3
  MaxPage = 6
  FixNextOid = TRUE
  FixHdr = FALSE
SPECIFICATION Spec
INVARIANTS Identity UniqueOids RestartsSucceed IndexFresh
CHECK_DEADLOCK FALSE
