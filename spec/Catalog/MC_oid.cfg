CONSTANTS
  Name = {"a", "b"}
  Kind = {"skip", "btree"}
  MaxV = 2
  MaxStops = 3
  MaxPage = 6
  FixNextOid = FALSE
  FixHdr = TRUE
SPECIFICATION Spec
INVARIANTS Identity UniqueOids RestartsSucceed IndexFresh
CHECK_DEADLOCK FALSE
