CONSTANTS
  Name = {"a", "b"}
  Kind = {"skip", "btree", "hash"}
  MaxV = 1
  MaxStops = 3
  MaxPage = 6
  FixNextOid = TRUE
  FixHdr = TRUE
SPECIFICATION Spec
CHECK_DEADLOCK FALSE
