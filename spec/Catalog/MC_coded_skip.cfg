CONSTANTS
  Name = {"a", "b"}
  Kind = {"skip", "hash", "none"}
  MaxV = 2
  MaxStops = 4
  MaxPage = 6
  FixNextOid = TRUE
  FixHdr = FALSE
SPECIFICATION Spec
INVARIANTS Identity UniqueOids RestartsSucceed IndexFresh
CHECK_DEADLOCK FALSE
