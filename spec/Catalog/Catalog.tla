------------------------------- MODULE Catalog -------------------------------
(***************************************************************************)
(* L1 mechanism specification of how tables keep identity, schema and       *)
(* indexes across restarts (C10):                                            *)
(*   catalog/table_catalog.go   CreateTable (oid = nextTableID++, rows in     *)
(*                              the table catalog and the column catalog,     *)
(*                              both pages flushed), RecoveryCatalogFrom-     *)
(*                              CatalogPage (reload, nextTableID)             *)
(*   catalog/table_metadata.go  NewTableMetadata: a B-tree index is          *)
(*                              re-attached to the header page recorded in    *)
(*                              the column catalog after a GRACEFUL stop and  *)
(*                              created under a NEW header page otherwise;    *)
(*                              skip-list indexes are always rebuilt          *)
(*   samehada.go                restart: rebuild of every index from the heap *)
(*                              after a crash; graceful shutdown writes the   *)
(*                              B-tree container state to its header page     *)
(* The heap itself is taken as durable (C01); data[oid] is a version counter. *)
(* Defect switches (as in the pinned tree when FALSE):                        *)
(*   FixNextOid  reload continues the oid sequence after the largest loaded   *)
(*               oid (pinned tree: starts again at 1)        - repaired       *)
(*   FixHdr      a rebuilt B-tree's new header page id is written back to the *)
(*               column catalog (pinned tree: only the in-memory column       *)
(*               knows it)                                   - open finding   *)
(*               KF-C10-btree-reattach-after-crash                            *)
(***************************************************************************)
EXTENDS Integers, FiniteSets, TLC

CONSTANTS Name, Kind, MaxV, MaxStops, MaxPage, FixNextOid, FixHdr

VARIABLES up,        \* the instance is running
          clean,     \* the last stop was a graceful shutdown
          mem,       \* in-memory catalog: [oid -> [name, kind, hdr]]      (function with growing domain)
          nextOid,   \* Catalog.nextTableID
          dTab,      \* table catalog page: set of [oid, name]
          dCol,      \* column catalog page: [oid -> [kind, hdr]]
          data,      \* [oid -> version of the table's rows] (the heap, durable)
          idxVer,    \* [oid -> version of the rows the in-memory index reflects]
          page,      \* [page id -> version saved in a B-tree header page, -1 = never written]
          nextPage, stops,
          created,   \* ghost: what the user created, set of [oid, name, kind]
          bad        \* ghost: a restart failed (re-attached a page that holds no index)

vars == <<up, clean, mem, nextOid, dTab, dCol, data, idxVer, page, nextPage, stops, created, bad>>

Put(f, x, y) == [z \in DOMAIN f \cup {x} |-> IF z = x THEN y ELSE f[z]]
NoPage == -1

Init == /\ up = TRUE /\ clean = TRUE /\ mem = <<>> /\ nextOid = 1      \* (oid 0 is the column catalog itself)
        /\ dTab = {} /\ dCol = <<>> /\ data = <<>> /\ idxVer = <<>>
        /\ page = [p \in 1..MaxPage |-> -1] /\ nextPage = 1 /\ stops = 0 /\ created = {} /\ bad = FALSE

Names(m) == {m[o].name : o \in DOMAIN m}

Create(n, k) ==
  /\ up /\ ~bad /\ n \notin Names(mem) /\ (k = "btree" => nextPage <= MaxPage)
  /\ LET oid == nextOid
         hdr == IF k = "btree" THEN nextPage ELSE NoPage IN
     /\ nextOid' = nextOid + 1
     /\ nextPage' = IF k = "btree" THEN nextPage + 1 ELSE nextPage
     /\ mem' = Put(mem, oid, [name |-> n, kind |-> k, hdr |-> hdr])         \* (tableIDs[oid] = ...: an existing entry is overwritten)
     /\ dTab' = dTab \cup {[oid |-> oid, name |-> n]}
     /\ dCol' = Put(dCol, oid, [kind |-> k, hdr |-> hdr])
     /\ data' = Put(data, oid, 0) /\ idxVer' = Put(idxVer, oid, 0)
     /\ created' = created \cup {[oid |-> oid, name |-> n, kind |-> k]}
  /\ UNCHANGED <<up, clean, page, stops, bad>>

Write(o) ==   \* committed DML on table o: heap and in-memory index move together
  /\ up /\ ~bad /\ o \in DOMAIN mem /\ data[o] < MaxV
  /\ data' = [data EXCEPT ![o] = @ + 1] /\ idxVer' = [idxVer EXCEPT ![o] = data[o] + 1]
  /\ UNCHANGED <<up, clean, mem, nextOid, dTab, dCol, page, nextPage, stops, created, bad>>

Shutdown ==   \* graceful: every B-tree writes its state under the header page its in-memory column names
  /\ up /\ ~bad /\ stops < MaxStops
  /\ page' = [p \in 1..MaxPage |-> IF \E o \in DOMAIN mem : mem[o].kind = "btree" /\ mem[o].hdr = p
                                     THEN idxVer[CHOOSE o \in DOMAIN mem : mem[o].kind = "btree" /\ mem[o].hdr = p] ELSE page[p]]
  /\ up' = FALSE /\ clean' = TRUE /\ stops' = stops + 1
  /\ UNCHANGED <<mem, nextOid, dTab, dCol, data, idxVer, nextPage, created, bad>>

Crash == /\ up /\ ~bad /\ stops < MaxStops /\ up' = FALSE /\ clean' = FALSE /\ stops' = stops + 1
         /\ UNCHANGED <<mem, nextOid, dTab, dCol, data, idxVer, page, nextPage, created, bad>>

(* restart: the catalog is reloaded from its pages; indexes are re-attached or rebuilt *)
Oids == {r.oid : r \in dTab}
RowOf(o) == CHOOSE r \in dTab : r.oid = o
Btrees == {o \in Oids : dCol[o].kind = "btree"}
RECURSIVE Rank(_, _)
Rank(o, S) == Cardinality({x \in S : x < o})          \* rebuilt B-trees take fresh pages in oid order
Reopen ==
  /\ ~up
  /\ LET rebuild == IF clean THEN {} ELSE Btrees
         newHdr(o) == nextPage + Rank(o, rebuild) IN
     /\ nextPage + Cardinality(rebuild) - 1 <= MaxPage
     /\ nextPage' = nextPage + Cardinality(rebuild)
     /\ mem' = [o \in Oids |-> [name |-> RowOf(o).name, kind |-> dCol[o].kind,
                               hdr |-> IF o \in rebuild THEN newHdr(o) ELSE dCol[o].hdr]]
     /\ dCol' = IF FixHdr THEN [o \in DOMAIN dCol |-> IF o \in rebuild THEN [dCol[o] EXCEPT !.hdr = newHdr(o)] ELSE dCol[o]]
                          ELSE dCol
     \* a re-attached B-tree shows what its header page holds; everything else is rebuilt from the heap (a hash index
     \* keeps its header page for good - it is written when the index is created - and is cleared and refilled in
     \* place after a crash; after a graceful stop its pages are ordinary flushed pages)
     /\ idxVer' = [o \in DOMAIN idxVer |-> IF o \in Btrees /\ clean THEN page[dCol[o].hdr] ELSE data[o]]
     /\ bad' = (clean /\ \E o \in Btrees : page[dCol[o].hdr] = -1)
     /\ nextOid' = IF FixNextOid THEN (IF Oids = {} THEN 1 ELSE (CHOOSE m \in Oids : \A x \in Oids : x <= m) + 1) ELSE 1
  /\ up' = TRUE
  /\ UNCHANGED <<clean, dTab, data, page, stops, created>>

Next == Shutdown \/ Crash \/ Reopen \/ (\E n \in Name, k \in Kind : Create(n, k)) \/ (\E o \in 1..(2 * Cardinality(Name)) : Write(o))
Spec == Init /\ [][Next]_vars

--------------------------------------------------------------------------------
(* C10: tables keep identity and schema ... *)
Identity == (up /\ ~bad) => {[oid |-> o, name |-> mem[o].name, kind |-> mem[o].kind] : o \in DOMAIN mem} = created
UniqueOids == \A r1, r2 \in dTab : r1.oid = r2.oid => r1 = r2
(* ... every restart succeeds ... *)
RestartsSucceed == ~bad
(* ... and data: what an index lookup shows is what the heap holds *)
IndexFresh == (up /\ ~bad) => \A o \in DOMAIN mem : mem[o].kind # "none" => idxVer[o] = data[o]
================================================================================
