CONSTANTS
  Name = {"a", "b"}
  Kind = {"skip", "btree", "hash"}
  MaxV = 2
  MaxStops = 3
  MaxPage = 6
  FixNextOid = TRUE
  FixHdr = TRUE
SPECIFICATION Spec
INVARIANTS Identity UniqueOids RestartsSucceed IndexFresh
CHECK_DEADLOCK FALSE
