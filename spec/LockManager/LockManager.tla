------------------------------ MODULE LockManager ------------------------------
(***************************************************************************)
(* L1 mechanism specification of lib/storage/access/lock_manager.go        *)
(* (no-wait strict 2PL row locks).  One action per critical section        *)
(* (each runs under lockManager.mutex):                                    *)
(*   LockShared L131, LockExclusive L176, LockUpgrade L213,                *)
(*   ReleaseAll = TransactionManager.releaseLocks -> Unlock L255.          *)
(* Property C16 is stated as invariants (Compat, Agree) and action         *)
(* properties (ReplyRight, DeniedUnchanged, ShrinkOnlyAtEnd).              *)
(***************************************************************************)
EXTENDS Naturals, FiniteSets, TLC

CONSTANTS Txn, Rid, None

VARIABLES sh,     \* sharedLockTable    : [Rid -> SUBSET Txn]
          ex,     \* exclusiveLockTable : [Rid -> Txn \cup {None}]
          tS,     \* Transaction.sharedLockSet    : [Txn -> SUBSET Rid]
          tX,     \* Transaction.exclusiveLockSet : [Txn -> SUBSET Rid]
          reply   \* last request and its answer (observation only)

vars  == <<sh, ex, tS, tX, reply>>
lvars == <<sh, ex, tS, tX>>

TypeOK == /\ sh \in [Rid -> SUBSET Txn]
          /\ ex \in [Rid -> Txn \cup {None}]
          /\ tS \in [Txn -> SUBSET Rid]
          /\ tX \in [Txn -> SUBSET Rid]

Init == /\ sh = [r \in Rid |-> {}]
        /\ ex = [r \in Rid |-> None]
        /\ tS = [t \in Txn |-> {}]
        /\ tX = [t \in Txn |-> {}]
        /\ reply = [op |-> "init", t |-> None, r |-> None, ok |-> TRUE]

(* The compatibility matrix, stated independently of the code's branches.   *)
OthersHolding(t, r) == (sh[r] \ {t}) \cup (IF ex[r] \in {None, t} THEN {} ELSE {ex[r]})
ShouldGrant(op, t, r) ==
  IF op = "S" THEN ex[r] \in {None, t}               \* shared with shared only
              ELSE OthersHolding(t, r) = {}           \* X / upgrade: nobody else holds anything

(* -- lock_manager.go:LockShared ------------------------------------------ *)
LockShared(t, r) ==
  IF ex[r] # None
    THEN /\ reply' = [op |-> "S", t |-> t, r |-> r, ok |-> (ex[r] = t)]
         /\ UNCHANGED lvars
    ELSE IF t \in sh[r]
      THEN /\ reply' = [op |-> "S", t |-> t, r |-> r, ok |-> TRUE]
           /\ UNCHANGED lvars
      ELSE /\ sh' = [sh EXCEPT ![r] = @ \cup {t}]
           /\ tS' = [tS EXCEPT ![t] = @ \cup {r}]
           /\ reply' = [op |-> "S", t |-> t, r |-> r, ok |-> TRUE]
           /\ UNCHANGED <<ex, tX>>

(* -- lock_manager.go:LockExclusive --------------------------------------- *)
LockExclusive(t, r) ==
  IF ex[r] # None
    THEN /\ reply' = [op |-> "X", t |-> t, r |-> r, ok |-> (ex[r] = t)]
         /\ UNCHANGED lvars
    ELSE IF ~(sh[r] \subseteq {t})
      THEN /\ reply' = [op |-> "X", t |-> t, r |-> r, ok |-> FALSE]
           /\ UNCHANGED lvars
      ELSE /\ ex' = [ex EXCEPT ![r] = t]
           /\ tX' = [tX EXCEPT ![t] = @ \cup {r}]
           /\ reply' = [op |-> "X", t |-> t, r |-> r, ok |-> TRUE]
           /\ UNCHANGED <<sh, tS>>

(* -- lock_manager.go:LockUpgrade (panics unless the caller holds S) ------- *)
LockUpgrade(t, r) ==
  /\ r \in tS[t]
  /\ IF ex[r] # None
       THEN /\ reply' = [op |-> "U", t |-> t, r |-> r, ok |-> (ex[r] = t)]
            /\ UNCHANGED lvars
       ELSE IF Cardinality(sh[r]) # 1
         THEN /\ reply' = [op |-> "U", t |-> t, r |-> r, ok |-> FALSE]
              /\ UNCHANGED lvars
         ELSE /\ ex' = [ex EXCEPT ![r] = t]
              /\ tX' = [tX EXCEPT ![t] = @ \cup {r}]
              /\ reply' = [op |-> "U", t |-> t, r |-> r, ok |-> TRUE]
              /\ UNCHANGED <<sh, tS>>

(* -- transaction end: releaseLocks -> Unlock(X-set ++ S-set); the model    *)
(*    identity t is then reused by a fresh Transaction object.              *)
ReleaseAll(t) ==
  LET rs == tX[t] \cup tS[t] IN
  /\ ex' = [r \in Rid |-> IF r \in rs /\ ex[r] = t THEN None ELSE ex[r]]
  /\ sh' = [r \in Rid |-> IF r \in rs THEN sh[r] \ {t} ELSE sh[r]]
  /\ tS' = [tS EXCEPT ![t] = {}]
  /\ tX' = [tX EXCEPT ![t] = {}]
  /\ reply' = [op |-> "End", t |-> t, r |-> None, ok |-> TRUE]

Next == \E t \in Txn :
           \/ ReleaseAll(t)
           \/ \E r \in Rid : LockShared(t, r) \/ LockExclusive(t, r) \/ LockUpgrade(t, r)

Spec == Init /\ [][Next]_vars

--------------------------------------------------------------------------------
(* C16, first sentence: what is held is always compatible.                  *)
Compat == \A r \in Rid : ex[r] # None => sh[r] \subseteq {ex[r]}
(* lock tables and per-transaction lock sets agree                           *)
Agree  == \A t \in Txn, r \in Rid : /\ (r \in tX[t]) <=> (ex[r] = t)
                                    /\ (r \in tS[t]) <=> (t \in sh[r])

(* "granted exactly when compatible"; re-requests of held locks succeed      *)
ReplyRight ==
  [][reply'.op \in {"S", "X", "U"} =>
       reply'.ok = ShouldGrant(reply'.op, reply'.t, reply'.r)]_vars
(* "a denied request leaves every lock unchanged"                            *)
DeniedUnchanged == [][(reply'.op \in {"S", "X", "U"} /\ ~reply'.ok) => UNCHANGED lvars]_vars
(* "locks disappear only when their transaction ends"                        *)
ShrinkOnlyAtEnd ==
  [][\A t \in Txn : (~(tS[t] \subseteq tS'[t]) \/ ~(tX[t] \subseteq tX'[t]))
                        => (reply'.op = "End" /\ reply'.t = t)]_vars
(* a granted request really installs the lock                                *)
GrantInstalls ==
  [][(reply'.op \in {"S", "X", "U"} /\ reply'.ok) =>
       IF reply'.op = "S" THEN (reply'.t \in sh'[reply'.r] \/ ex'[reply'.r] = reply'.t)
                          ELSE ex'[reply'.r] = reply'.t]_vars
================================================================================
