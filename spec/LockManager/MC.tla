---- MODULE MC ----
EXTENDS LockManager
View == lvars
====
