CONSTANTS
  Txn = {"t1", "t2", "t3"}
  Rid = {"r1", "r2", "r3"}
  None = "None"
SPECIFICATION TSpec
INVARIANT Done
CHECK_DEADLOCK FALSE
