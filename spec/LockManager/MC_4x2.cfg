CONSTANTS
  Txn = {"t1", "t2", "t3", "t4"}
  Rid = {"r1", "r2"}
  None = "None"
SPECIFICATION Spec
INVARIANTS TypeOK Compat Agree
PROPERTIES ReplyRight DeniedUnchanged ShrinkOnlyAtEnd GrantInstalls
CHECK_DEADLOCK FALSE
