--------------------------- MODULE LockManagerProofs ---------------------------
(***************************************************************************)
(* TLAPS proof that the lock tables of LockManager.tla are always          *)
(* compatible and agree with the per-transaction lock sets - for ANY set of *)
(* transactions and rows (TLC checks the same invariants exhaustively for  *)
(* 3x2, 4x2 and 3x3).  Checked by `tlapm` in bin/check C16 (thorough).      *)
(***************************************************************************)
EXTENDS LockManager, FiniteSetTheorems, TLAPS

ASSUME TxnFinite == IsFiniteSet(Txn)
ASSUME NoneNotTxn == None \notin Txn

Inv == TypeOK /\ Compat /\ Agree

LEMMA InitInv == Init => Inv
  BY NoneNotTxn DEF Init, Inv, TypeOK, Compat, Agree

LEMMA SharedInv == ASSUME Inv, NEW t \in Txn, NEW r \in Rid, LockShared(t, r) PROVE Inv'
  BY NoneNotTxn DEF Inv, TypeOK, Compat, Agree, LockShared, lvars

LEMMA ExclusiveInv == ASSUME Inv, NEW t \in Txn, NEW r \in Rid, LockExclusive(t, r) PROVE Inv'
  BY NoneNotTxn DEF Inv, TypeOK, Compat, Agree, LockExclusive, lvars

LEMMA UpgradeInv == ASSUME Inv, NEW t \in Txn, NEW r \in Rid, LockUpgrade(t, r) PROVE Inv'
<1>1. CASE ex[r] # None
  BY <1>1 DEF Inv, TypeOK, Compat, Agree, LockUpgrade, lvars
<1>2. CASE ex[r] = None /\ Cardinality(sh[r]) # 1
  BY <1>2 DEF Inv, TypeOK, Compat, Agree, LockUpgrade, lvars
<1>3. CASE ex[r] = None /\ Cardinality(sh[r]) = 1
  <2>1. t \in sh[r]
    BY DEF Inv, Agree, LockUpgrade
  <2>2. IsFiniteSet(sh[r])
    BY TxnFinite, FS_Subset DEF Inv, TypeOK
  <2>3. sh[r] = {t}
    BY <1>3, <2>1, <2>2, FS_Singleton
  <2>4. /\ ex' = [ex EXCEPT ![r] = t] /\ tX' = [tX EXCEPT ![t] = @ \cup {r}] /\ UNCHANGED <<sh, tS>>
    BY <1>3 DEF LockUpgrade
  <2> QED
    BY <2>3, <2>4, NoneNotTxn DEF Inv, TypeOK, Compat, Agree
<1> QED
  BY <1>1, <1>2, <1>3

LEMMA ReleaseInv == ASSUME Inv, NEW t \in Txn, ReleaseAll(t) PROVE Inv'
  BY NoneNotTxn DEF Inv, TypeOK, Compat, Agree, ReleaseAll

THEOREM Safety == Spec => []Inv
<1>1. Init => Inv
  BY InitInv
<1>2. Inv /\ [Next]_vars => Inv'
  <2> SUFFICES ASSUME Inv, [Next]_vars PROVE Inv'
    OBVIOUS
  <2>1. CASE UNCHANGED vars
    BY <2>1 DEF Inv, TypeOK, Compat, Agree, vars
  <2>2. CASE Next
    BY <2>2, SharedInv, ExclusiveInv, UpgradeInv, ReleaseInv DEF Next
  <2> QED
    BY <2>1, <2>2
<1> QED
  BY <1>1, <1>2, PTL DEF Spec

(* ---- "granted exactly when compatible" (ReplyRight) and "a denied request leaves every lock unchanged" -------- *)
ReplyStep == reply'.op \in {"S", "X", "U"} => reply'.ok = ShouldGrant(reply'.op, reply'.t, reply'.r)
DeniedStep == (reply'.op \in {"S", "X", "U"} /\ ~reply'.ok) => UNCHANGED lvars

LEMMA SharedReply == ASSUME Inv, NEW t \in Txn, NEW r \in Rid, LockShared(t, r) PROVE ReplyStep /\ DeniedStep
  BY NoneNotTxn DEF Inv, TypeOK, Compat, Agree, LockShared, lvars, ReplyStep, DeniedStep, ShouldGrant, OthersHolding

LEMMA ExclusiveReply == ASSUME Inv, NEW t \in Txn, NEW r \in Rid, LockExclusive(t, r) PROVE ReplyStep /\ DeniedStep
  BY NoneNotTxn DEF Inv, TypeOK, Compat, Agree, LockExclusive, lvars, ReplyStep, DeniedStep, ShouldGrant, OthersHolding

LEMMA UpgradeReply == ASSUME Inv, NEW t \in Txn, NEW r \in Rid, LockUpgrade(t, r) PROVE ReplyStep /\ DeniedStep
<1>0. t \in sh[r] /\ IsFiniteSet(sh[r])
  BY TxnFinite, FS_Subset DEF Inv, TypeOK, Agree, LockUpgrade
<1>1. CASE ex[r] # None
  BY <1>1, NoneNotTxn DEF Inv, TypeOK, Compat, Agree, LockUpgrade, lvars, ReplyStep, DeniedStep, ShouldGrant, OthersHolding
<1>2. CASE ex[r] = None /\ Cardinality(sh[r]) # 1
  <2>1. sh[r] # {t}
    BY <1>2, FS_Singleton
  <2>2. sh[r] \ {t} # {}
    BY <1>0, <2>1
  <2> QED
    BY <1>2, <2>2 DEF LockUpgrade, lvars, ReplyStep, DeniedStep, ShouldGrant, OthersHolding
<1>3. CASE ex[r] = None /\ Cardinality(sh[r]) = 1
  <2>1. sh[r] = {t}
    BY <1>0, <1>3, FS_Singleton
  <2> QED
    BY <1>3, <2>1 DEF LockUpgrade, lvars, ReplyStep, DeniedStep, ShouldGrant, OthersHolding
<1> QED
  BY <1>1, <1>2, <1>3

LEMMA ReleaseReply == ASSUME Inv, NEW t \in Txn, ReleaseAll(t) PROVE ReplyStep /\ DeniedStep
  BY DEF ReleaseAll, ReplyStep, DeniedStep

THEOREM Replies == Spec => ReplyRight /\ DeniedUnchanged
<1>1. Inv /\ [Next]_vars => [ReplyStep]_vars /\ [DeniedStep]_vars
  <2> SUFFICES ASSUME Inv, [Next]_vars PROVE [ReplyStep]_vars /\ [DeniedStep]_vars
    OBVIOUS
  <2>1. CASE UNCHANGED vars
    BY <2>1
  <2>2. CASE Next
    BY <2>2, SharedReply, ExclusiveReply, UpgradeReply, ReleaseReply DEF Next
  <2> QED
    BY <2>1, <2>2
<1>2. Spec => []Inv
  BY Safety
<1> QED
  BY <1>1, <1>2, PTL DEF Spec, ReplyRight, DeniedUnchanged, ReplyStep, DeniedStep
================================================================================
