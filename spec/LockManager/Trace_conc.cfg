CONSTANTS
  Txn = {"t1", "t2", "t3", "t4", "t5", "t6", "t7", "t8", "t9", "t10", "t11", "t12", "t13", "t14", "t15", "t16"}
  Rid = {"r1", "r2", "r3"}
  None = "None"
SPECIFICATION TSpec
INVARIANT Done
CHECK_DEADLOCK FALSE
