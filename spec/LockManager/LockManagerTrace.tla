--------------------------- MODULE LockManagerTrace ---------------------------
(* Deterministic trace specification for LockManager (C16).                   *)
(* Each recorded event is one action of the specification; the recorded       *)
(* answer and the recorded projection of the real lock tables and transaction *)
(* lock sets are compared with the specification's next state.  Mismatches    *)
(* are accumulated in `viol` (tags below), the whole trace is always consumed.*)
(*   C16.reply   grant/deny differs from the compatibility rule               *)
(*   C16.state   lock tables / lock sets after the call differ from the spec  *)
(*               (covers "denied leaves everything unchanged", "locks only    *)
(*                disappear at transaction end", "grant installs the lock")   *)
(*   C16.panic   the call panicked                                            *)
EXTENDS LockManager, TraceKit

VARIABLES l, viol
tvars == <<vars, l, viol>>

TInit == Init /\ l = 1 /\ viol = <<>>

RecToFun(rec, dom) == [k \in dom |-> SetOf(rec[k])]

Check(e, ln) ==
  LET bad1 == IF e.panic # "" THEN <<[tag |-> "C16.panic", line |-> ln, info |-> e.panic]>> ELSE <<>>
      bad2 == IF e.ev \in {"S", "X", "U"} /\ e.ok # reply'.ok
                THEN <<[tag |-> "C16.reply", line |-> ln,
                        info |-> <<e.ev, e.t, e.r, "impl", e.ok, "spec", reply'.ok>>]>> ELSE <<>>
      bad3 == IF Has(e, "tS") /\
                 ( \/ RecToFun(e.tS, Txn) # tS' \/ RecToFun(e.tX, Txn) # tX'
                   \/ RecToFun(e.sh, Rid) # sh' \/ [r \in Rid |-> e.ex[r]] # ex' )
                THEN <<[tag |-> "C16.state", line |-> ln, info |-> <<e.ev, e.t, e.r>>]>> ELSE <<>>
  IN bad1 \o bad2 \o bad3

TNext ==
  /\ l <= TraceLen
  /\ LET e == TraceLog[l] IN
       /\ CASE e.ev = "Reset" -> /\ sh' = [r \in Rid |-> {}] /\ ex' = [r \in Rid |-> None]
                                 /\ tS' = [t \in Txn |-> {}] /\ tX' = [t \in Txn |-> {}]
                                 /\ reply' = [op |-> "init", t |-> None, r |-> None, ok |-> TRUE]
            [] e.ev = "S"   -> LockShared(e.t, e.r)
            [] e.ev = "X"   -> LockExclusive(e.t, e.r)
            [] e.ev = "U"   -> IF e.r \in tS[e.t] THEN LockUpgrade(e.t, e.r)
                               ELSE UNCHANGED lvars /\ reply' = [op |-> "U", t |-> e.t, r |-> e.r, ok |-> e.ok]
            [] e.ev = "End" -> ReleaseAll(e.t)
       /\ viol' = IF e.ev = "Reset" THEN viol ELSE AddViol(viol, Check(e, l))
  /\ l' = l + 1

TSpec == TInit /\ [][TNext]_tvars

Done == (l = TraceLen + 1) => Emit(viol, l - 1)
===============================================================================
