------------------------------- MODULE TraceKit -------------------------------
(* Shared plumbing of all trace specifications: the recorded ndjson trace,    *)
(* the position `l`, helpers to turn JSON arrays into sets, and the output of *)
(* the accumulated violation tags.                                            *)
EXTENDS Naturals, Sequences, TLC, TLCExt, Json, IOUtils

TraceLog == ndJsonDeserialize(IOEnv.TRACE)
TraceLen == Len(TraceLog)

SetOf(s) == {s[i] : i \in DOMAIN s}
Has(e, f) == f \in DOMAIN e

MaxViol == 200
AddViol(viol, tags) == IF Len(viol) >= MaxViol THEN viol ELSE viol \o tags

(* writes the verdict of a fully consumed trace *)
Emit(viol, lines) == JsonSerialize(IOEnv.VOUT, [viol |-> viol, lines |-> lines])
===============================================================================
