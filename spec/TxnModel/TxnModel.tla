------------------------------- MODULE TxnModel -------------------------------
(***************************************************************************)
(* L0 contract for concurrent transactions (C04, C05, C12).  No lock, no   *)
(* index, no page appears here.                                            *)
(*  - committed store db: set of <<key, version>>; every write stores a    *)
(*    fresh version, so a row identifies its writer;                       *)
(*  - a statement of transaction t that completes returns exactly the      *)
(*    answer over  db (+) t's own earlier writes ; a DML statement adds to *)
(*    t's pending writes; a statement may instead abort its transaction -  *)
(*    always allowed (no-wait locking, spurious conflicts, plan-dependent  *)
(*    locking are outside the contract);                                   *)
(*  - Commit installs the pending writes; Abort drops them;                *)
(*  - C05: the dependency graph over committed transactions (wr, ww, rw    *)
(*    edges on rows actually returned / overwritten; versions are          *)
(*    installed at commit) must be acyclic.                                *)
(***************************************************************************)
EXTENDS Integers, Sequences, FiniteSets, TLC

VARIABLES db,      \* set of <<k, v>>
          pend,    \* [txn -> Seq of writes [op, k, k2, v]]
          st,      \* [txn -> "active" | "committed" | "aborted"]
          reads,   \* [txn -> set of <<k, v>> returned to it that it did not write itself]
          overw,   \* [txn -> set of versions (of other transactions) it overwrote or deleted]
          owner,   \* [version -> txn]   (0 = initial load)
          order    \* sequence of committed transactions in commit order

mvars == <<db, pend, st, reads, overw, owner, order>>

Put(f, x, y) == [z \in DOMAIN f \cup {x} |-> IF z = x THEN y ELSE f[z]]
KeysOf(t) == {r[1] : r \in t}

Apply1(t, w) ==
  CASE w.op = "ins" -> t \cup {<<w.k, w.v>>}
    [] w.op = "upd" -> {r \in t : r[1] # w.k} \cup {<<w.k, w.v>> : r \in {x \in t : x[1] = w.k}}
    [] w.op = "kupd" -> {r \in t : r[1] # w.k} \cup {<<w.k2, w.v>> : r \in {x \in t : x[1] = w.k}}
    [] w.op = "del" -> {r \in t : r[1] # w.k}
RECURSIVE ApplySeq(_, _)
ApplySeq(t, ws) == IF ws = <<>> THEN t ELSE ApplySeq(Apply1(t, Head(ws)), Tail(ws))

View(t) == ApplySeq(db, pend[t])

(* reference answer of a read statement in the view of t *)
Answer(t, s) ==
  CASE s.k = "pread" -> {r \in View(t) : r[1] = s.a}
    [] s.k = "rread" -> {r \in View(t) : r[1] >= s.a /\ r[1] <= s.b}
    [] s.k = "sread" -> View(t)

IsRead(s) == s.k \in {"pread", "rread", "sread"}
WriteOf(s) == CASE s.k = "ins" -> [op |-> "ins", k |-> s.a, k2 |-> s.a, v |-> s.v]
                [] s.k \in {"upd", "rupd", "supd"} -> [op |-> "upd", k |-> s.a, k2 |-> s.a, v |-> s.v]
                [] s.k = "kupd" -> [op |-> "kupd", k |-> s.a, k2 |-> s.b, v |-> s.v]
                [] s.k = "del" -> [op |-> "del", k |-> s.a, k2 |-> s.a, v |-> -1]

OwnVersions(t) == {pend[t][i].v : i \in DOMAIN pend[t]}

Begin(t) == /\ st' = Put(st, t, "active") /\ pend' = Put(pend, t, <<>>) /\ reads' = Put(reads, t, {}) /\ overw' = Put(overw, t, {})
            /\ UNCHANGED <<db, owner, order>>
(* a read that completed: remember which foreign versions were returned *)
Read(t, rows) == /\ reads' = [reads EXCEPT ![t] = @ \cup {r \in rows : r[2] \notin OwnVersions(t)}]
                 /\ UNCHANGED <<db, pend, st, overw, owner, order>>
(* a write that completed *)
Write(t, s) == LET w == WriteOf(s)
                   hit == {r \in View(t) : r[1] = w.k} IN
               /\ pend' = [pend EXCEPT ![t] = Append(@, w)]
               /\ overw' = [overw EXCEPT ![t] = @ \cup (IF w.op = "ins" THEN {} ELSE {r[2] : r \in {x \in hit : x[2] \notin OwnVersions(t)}})]
               /\ owner' = IF w.op = "del" THEN owner ELSE Put(owner, w.v, t)
               /\ UNCHANGED <<db, st, reads, order>>
Commit(t) == /\ db' = ApplySeq(db, pend[t]) /\ st' = [st EXCEPT ![t] = "committed"] /\ order' = Append(order, t)
             /\ UNCHANGED <<pend, reads, overw, owner>>
Abort(t) == /\ st' = [st EXCEPT ![t] = "aborted"] /\ UNCHANGED <<db, pend, reads, overw, owner, order>>

(* ---- C05: dependency graph over committed transactions ------------------------------------ *)
Committed == {order[i] : i \in DOMAIN order}
OwnerOf(v) == IF v \in DOMAIN owner THEN owner[v] ELSE 0
Edge(a, b) == a # b /\ ( \/ \E r \in reads[b] : OwnerOf(r[2]) = a                     \* wr: b read a's version
                         \/ \E v \in overw[b] : OwnerOf(v) = a                         \* ww: b overwrote a's version
                         \/ \E r \in reads[a] : r[2] \in overw[b] )                    \* rw: a read a version b overwrote
RECURSIVE Reach(_, _)
Reach(S, n) == IF n = 0 THEN S ELSE Reach(S \cup {b \in Committed : \E a \in S : Edge(a, b)}, n - 1)
Cyclic == \E a \in Committed : \E b \in Committed : Edge(a, b) /\ a \in Reach({b}, Cardinality(Committed))
================================================================================
