---------------------------- MODULE TxnModelTrace ----------------------------
(* Deterministic trace specification over TxnModel for statement-level          *)
(* schedules executed by one driver goroutine (every statement is atomic).      *)
(*   C04.dirty   a returned row was written by another, uncommitted transaction *)
(*   C04.hidden  a committed row is missing from the answer while another        *)
(*               transaction has an uncommitted delete / update on it           *)
(*   C04.wrong   any other difference between answer and committed + own writes *)
(*   C04.final   the committed table read back after the schedule (seq scan and  *)
(*               index scan) differs from the model's committed store           *)
(*   C04.fail    a statement / commit / abort panicked or hung                  *)
(*   C05.cycle   the dependency graph of the committed transactions has a cycle *)
EXTENDS TxnModel, TraceKit

VARIABLES l, viol,
          taint    \* this schedule contains the pattern of known finding KF-C04-kupd-hides-row
tvars == <<mvars, l, viol, taint>>

(* Known finding KF-C04-kupd-hides-row (known_findings.json): UPDATE of an indexed key swaps the index entry *)
(* when the statement runs.  Until the updater ends, a statement of another transaction that looks the OLD   *)
(* key up through the index finds no entry and completes as if the committed row did not exist (instead of   *)
(* aborting on the row lock): reads miss the row, writes silently do nothing.  Signature: a completed        *)
(* statement that addresses key a through the index (point / range read, delete, update of a) while another *)
(* ACTIVE transaction has a pending key-changing update of a.  Every violation of such a schedule is         *)
(* attributed to the finding; all other schedules are judged strictly.                                        *)
PendingKupdKeys(t) == UNION {{pend[u][i].k : i \in {j \in DOMAIN pend[u] : pend[u][j].op = "kupd"}} : u \in {x \in DOMAIN st : x # t /\ st[x] = "active"}}
TargetKeys(e) == CASE e.k = "pread" -> {e.a}
                   [] e.k = "rread" -> e.a..e.b
                   [] e.k \in {"del", "upd", "kupd", "rupd", "supd"} -> {e.a}
                   [] OTHER -> {}
Pattern(e) == e.res = "ok" /\ TargetKeys(e) \cap PendingKupdKeys(e.t) # {}
V(tag, ln, info) == <<[tag |-> tag, line |-> ln, info |-> info, kf |-> IF taint THEN "KF-C04-kupd-hides-row" ELSE "new"]>>
VT(tag, ln, info, tnt) == <<[tag |-> tag, line |-> ln, info |-> info, kf |-> IF tnt THEN "KF-C04-kupd-hides-row" ELSE "new"]>>

RowSet(rows) == {<<rows[i][1], rows[i][2]>> : i \in DOMAIN rows}
Others(t) == {u \in DOMAIN st : u # t /\ st[u] = "active"}
PendingVersions(u) == {pend[u][i].v : i \in DOMAIN pend[u]}
PendingKeys(u) == {pend[u][i].k : i \in {j \in DOMAIN pend[u] : pend[u][j].op # "ins"}}

ReadCheck(e, ln) ==
  LET got == RowSet(e.rows)
      want == Answer(e.t, e)
      extra == got \ want
      missing == want \ got IN
  IF got = want /\ Len(e.rows) = Cardinality(want) THEN <<>>
  ELSE IF \E r \in extra : \E u \in Others(e.t) : r[2] \in PendingVersions(u)
         THEN VT("C04.dirty", ln, [stmt |-> <<e.t, e.k, e.a, e.b>>, got |-> got, want |-> want], taint \/ Pattern(e))
  ELSE IF \E r \in missing : \E u \in Others(e.t) : r[1] \in PendingKeys(u)
         THEN VT("C04.hidden", ln, [stmt |-> <<e.t, e.k, e.a, e.b>>, got |-> got, want |-> want], taint \/ Pattern(e))
  ELSE VT("C04.wrong", ln, [stmt |-> <<e.t, e.k, e.a, e.b>>, got |-> e.rows, want |-> want], taint \/ Pattern(e))

TInit == /\ db = {} /\ pend = <<>> /\ st = <<>> /\ reads = <<>> /\ overw = <<>> /\ owner = <<>> /\ order = <<>>
         /\ l = 1 /\ viol = <<>> /\ taint = FALSE
Stut == UNCHANGED mvars

TNext ==
  /\ l <= TraceLen
  /\ LET e == TraceLog[l] IN
     CASE e.ev = "Reset" -> /\ db' = RowSet(e.rows) /\ pend' = <<>> /\ st' = <<>> /\ reads' = <<>> /\ overw' = <<>>
                            /\ owner' = <<>> /\ order' = <<>> /\ UNCHANGED viol
       [] e.ev = "Begin" -> Begin(e.t) /\ UNCHANGED viol
       [] e.ev = "Stmt" ->
            IF e.res = "abort" THEN Stut /\ UNCHANGED viol                    \* "or its transaction is aborted instead"
            ELSE IF e.res # "ok" THEN Stut /\ viol' = AddViol(viol, V("C04.fail", l, <<e.t, e.k, e.res>>))
            ELSE IF IsRead(e) THEN Read(e.t, RowSet(e.rows)) /\ viol' = AddViol(viol, ReadCheck(e, l))
            ELSE Write(e.t, e) /\ UNCHANGED viol
       [] e.ev = "Commit" -> (IF e.res = "ok" THEN Commit(e.t) ELSE Stut)
                             /\ viol' = AddViol(viol, IF e.res # "ok" THEN V("C04.fail", l, <<e.t, "commit", e.res>>) ELSE <<>>)
       [] e.ev = "Abort" -> (IF e.t \in DOMAIN st THEN Abort(e.t) ELSE Stut)
                            /\ viol' = AddViol(viol, IF e.res # "ok" THEN V("C04.fail", l, <<e.t, "abort", e.res>>) ELSE <<>>)
       [] e.ev = "Final" -> /\ Stut
                            /\ viol' = AddViol(viol,
                                 (IF e.res # "ok" THEN V("C04.fail", l, <<"final read", e.res>>)
                                  ELSE IF RowSet(e.seq) # db \/ Len(e.seq) # Cardinality(db) \/ RowSet(e.idx) # db \/ Len(e.idx) # Cardinality(db)
                                    THEN V("C04.final", l, [seq |-> e.seq, idx |-> e.idx, want |-> db, sched |-> e.sched]) ELSE <<>>)
                                 \o (IF Cyclic THEN V("C05.cycle", l, [sched |-> e.sched, reads |-> reads, overw |-> overw, order |-> order]) ELSE <<>>))
  /\ taint' = LET e == TraceLog[l] IN
              IF e.ev = "Reset" THEN FALSE ELSE IF e.ev = "Stmt" /\ Pattern(e) THEN TRUE ELSE taint
  /\ l' = l + 1
TSpec == TInit /\ [][TNext]_tvars
Done == (l = TraceLen + 1) => Emit(viol, l - 1)
==============================================================================
