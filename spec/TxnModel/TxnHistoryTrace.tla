-------------------------- MODULE TxnHistoryTrace --------------------------
(***************************************************************************)
(* C04 / C05 under real goroutine concurrency.  Every goroutine runs        *)
(* multi-statement transactions of its own on one shared table; invocation  *)
(* and return of every statement, commit and abort are stamped with one     *)
(* shared atomic counter and merged into one history.  Versions are unique, *)
(* so every row read names its writer; an update / delete is always         *)
(* preceded, in the same transaction, by a point read of the row (which it  *)
(* then holds locked), so the version it overwrites is the version it read. *)
(* Judged on every statement return (no linearization point is needed):     *)
(*   C04.dirty   a row written by another transaction that had not even     *)
(*               started to commit when the statement returned, or that was *)
(*               rolled back                                                *)
(*   C04.stale   a row version that a transaction which had COMMITTED       *)
(*               BEFORE the statement was invoked had overwritten / deleted *)
(*   C04.own     the transaction's own earlier write is not what it reads   *)
(*   C04.hidden  a never-touched committed row is missing from a scan       *)
(*   C04.wrong   unknown version, key / version mismatch, duplicate rows    *)
(*   C04.final   the table read back at quiescence is not the set of        *)
(*               committed, not overwritten versions                         *)
(*   C04.fail    panic / hang                                               *)
(*   C05.cycle   the dependency graph (write-read, write-write, read-write) *)
(*               of the committed transactions has a cycle                  *)
(***************************************************************************)
EXTENDS Integers, Sequences, FiniteSets, TLC, TraceKit

VARIABLES l, viol,
          owner,     \* [version -> transaction, 0 = initial load]
          keyOf,     \* [version -> key]
          status,    \* [transaction -> "active" | "committing" | "committed" | "aborting" | "aborted"]
          reads,     \* [transaction -> versions of others it read]
          overw,     \* [transaction -> versions of others it overwrote or deleted]
          dead,      \* [transaction -> own versions it overwrote itself]
          mine,      \* [transaction -> [key -> own latest version, -1 = deleted]]
          lastRead,  \* [transaction -> [key -> version returned by its latest point read]]
          doneAtInv, \* [<<transaction, statement>> -> transactions committed when the statement was invoked]
          fixed      \* keys nobody writes
vars == <<l, viol, owner, keyOf, status, reads, overw, dead, mine, lastRead, doneAtInv, fixed>>

V(tag, ln, info) == <<[tag |-> tag, line |-> ln, info |-> info, kf |-> "new"]>>
Put(f, x, y) == [z \in DOMAIN f \cup {x} |-> IF z = x THEN y ELSE f[z]]
RowSet(rows) == {<<rows[i][1], rows[i][2]>> : i \in DOMAIN rows}
Committed == {t \in DOMAIN status : status[t] = "committed"}

Init == /\ l = 1 /\ viol = <<>> /\ owner = <<>> /\ keyOf = <<>> /\ status = <<>> /\ reads = <<>> /\ overw = <<>>
        /\ dead = <<>> /\ mine = <<>> /\ lastRead = <<>> /\ doneAtInv = <<>> /\ fixed = {}

IsRead(k) == k \in {"pread", "sread", "rread"}
Covers(e, key) == CASE e.k = "pread" -> key = e.a [] e.k = "rread" -> (key >= e.a /\ key <= e.v) [] OTHER -> TRUE
ReadChecks(e, ln) ==
  LET t == e.t
      R == RowSet(e.rows)
      unknown == {r \in R : r[2] \notin DOMAIN owner \/ (r[2] \in DOMAIN keyOf /\ keyOf[r[2]] # r[1])}
      K == R \ unknown
      dirty == {r \in K : owner[r[2]] # t /\ owner[r[2]] # 0 /\ status[owner[r[2]]] \notin {"committing", "committed"}}
      stale == {r \in K : owner[r[2]] # t /\ \E u \in doneAtInv[<<t, e.s>>] : r[2] \in overw[u]}
      ownBad == {key \in DOMAIN mine[t] : Covers(e, key) /\
                   IF mine[t][key] = -1 THEN \E r \in R : r[1] = key ELSE <<key, mine[t][key]>> \notin R}
      hidden == IF e.k \in {"sread", "rread"} THEN {f \in fixed : <<f, f>> \notin R} ELSE {}
  IN (IF unknown # {} \/ Len(e.rows) # Cardinality(R) THEN V("C04.wrong", ln, [stmt |-> <<t, e.k, e.a>>, rows |-> e.rows, unknown |-> unknown]) ELSE <<>>)
     \o (IF dirty # {} THEN V("C04.dirty", ln, [stmt |-> <<t, e.k, e.a>>, rows |-> dirty, writers |-> {<<owner[r[2]], status[owner[r[2]]]>> : r \in dirty}]) ELSE <<>>)
     \o (IF stale # {} THEN V("C04.stale", ln, [stmt |-> <<t, e.k, e.a>>, rows |-> stale]) ELSE <<>>)
     \o (IF ownBad # {} THEN V("C04.own", ln, [stmt |-> <<t, e.k, e.a>>, keys |-> ownBad, got |-> R]) ELSE <<>>)
     \o (IF hidden # {} THEN V("C04.hidden", ln, [stmt |-> <<t, e.k, e.a>>, missing |-> hidden, got |-> R]) ELSE <<>>)

(* dependency graph of the committed transactions *)
Edges == {p \in Committed \X Committed : p[1] # p[2] /\
            ( \/ \E v \in reads[p[2]] : owner[v] = p[1]
              \/ \E v \in overw[p[2]] : owner[v] = p[1]
              \/ \E v \in reads[p[1]] : v \in overw[p[2]] )}
RECURSIVE Closure(_)
Closure(R) == LET R2 == R \cup UNION {{<<p[1], q[2]>> : q \in {x \in R : x[1] = p[2]}} : p \in R} IN IF R2 = R THEN R ELSE Closure(R2)
Cyclic == \E p \in Closure(Edges) : p[1] = p[2]

LiveVersions == {v \in DOMAIN owner : /\ (owner[v] = 0 \/ owner[v] \in Committed)
                                     /\ ~\E u \in Committed : v \in overw[u] \/ v \in dead[u]}
FinalChecks(e, ln) ==
  LET want == {<<keyOf[v], v>> : v \in LiveVersions} IN
  (IF e.res # "ok" THEN V("C04.fail", ln, <<"final read", e.res>>)
   ELSE (IF RowSet(e.rows) # want \/ Len(e.rows) # Cardinality(want) THEN V("C04.final", ln, [path |-> "scan", got |-> RowSet(e.rows), want |-> want]) ELSE <<>>)
        \o (IF RowSet(e.idx) # want \/ Len(e.idx) # Cardinality(want) THEN V("C04.final", ln, [path |-> "index", got |-> RowSet(e.idx), want |-> want]) ELSE <<>>))
  \o (IF Cyclic THEN V("C05.cycle", ln, [edges |-> Edges]) ELSE <<>>)

Next ==
  /\ l <= TraceLen
  /\ LET e == TraceLog[l] IN
     CASE e.ev = "Reset" ->
            /\ owner' = [v \in {e.rows[i][2] : i \in DOMAIN e.rows} |-> 0]
            /\ keyOf' = [v \in {e.rows[i][2] : i \in DOMAIN e.rows} |-> (CHOOSE i \in DOMAIN e.rows : e.rows[i][2] = v)]
            /\ status' = <<>> /\ reads' = <<>> /\ overw' = <<>> /\ dead' = <<>> /\ mine' = <<>> /\ lastRead' = <<>>
            /\ doneAtInv' = <<>> /\ fixed' = {e.fixed[i] : i \in DOMAIN e.fixed} /\ UNCHANGED viol
       [] e.ev = "TBegin" ->
            /\ status' = Put(status, e.t, "active") /\ reads' = Put(reads, e.t, {}) /\ overw' = Put(overw, e.t, {})
            /\ dead' = Put(dead, e.t, {}) /\ mine' = Put(mine, e.t, <<>>) /\ lastRead' = Put(lastRead, e.t, <<>>)
            /\ UNCHANGED <<viol, owner, keyOf, doneAtInv, fixed>>
       [] e.ev = "SInv" ->
            /\ doneAtInv' = Put(doneAtInv, <<e.t, e.s>>, Committed)
            /\ UNCHANGED <<viol, owner, keyOf, status, reads, overw, dead, mine, lastRead, fixed>>
       [] e.ev = "SRet" ->
            IF e.res = "abort" THEN UNCHANGED <<viol, owner, keyOf, status, reads, overw, dead, mine, lastRead, doneAtInv, fixed>>
            ELSE IF e.res # "ok" THEN viol' = AddViol(viol, V("C04.fail", l, <<e.t, e.k, e.res>>))
                                      /\ UNCHANGED <<owner, keyOf, status, reads, overw, dead, mine, lastRead, doneAtInv, fixed>>
            ELSE IF IsRead(e.k)
              THEN /\ viol' = AddViol(viol, ReadChecks(e, l))
                   /\ reads' = [reads EXCEPT ![e.t] = @ \cup {r[2] : r \in {x \in RowSet(e.rows) : x[2] \in DOMAIN owner /\ owner[x[2]] # e.t}}]
                   /\ lastRead' = IF e.k = "pread" /\ Len(e.rows) = 1 THEN [lastRead EXCEPT ![e.t] = Put(@, e.a, e.rows[1][2])] ELSE lastRead
                   /\ UNCHANGED <<owner, keyOf, status, overw, dead, mine, doneAtInv, fixed>>
              ELSE \* upd / ins / del: e.a = key, e.v = new version (upd, ins)
                   LET t == e.t
                       old == IF e.a \in DOMAIN lastRead[t] THEN lastRead[t][e.a] ELSE -1
                       oldOwn == old # -1 /\ old \in DOMAIN owner /\ owner[old] = t IN
                   /\ owner' = IF e.k = "del" THEN owner ELSE Put(owner, e.v, t)
                   /\ keyOf' = IF e.k = "del" THEN keyOf ELSE Put(keyOf, e.v, e.a)
                   /\ overw' = IF e.k \in {"upd", "del"} /\ old # -1 /\ ~oldOwn THEN [overw EXCEPT ![t] = @ \cup {old}] ELSE overw
                   /\ dead' = IF e.k \in {"upd", "del"} /\ oldOwn THEN [dead EXCEPT ![t] = @ \cup {old}] ELSE dead
                   /\ mine' = [mine EXCEPT ![t] = Put(@, e.a, IF e.k = "del" THEN -1 ELSE e.v)]
                   /\ lastRead' = IF e.k = "del" THEN lastRead ELSE [lastRead EXCEPT ![t] = Put(@, e.a, e.v)]
                   /\ viol' = IF e.k \in {"upd", "del"} /\ old = -1 THEN AddViol(viol, V("C04.wrong", l, <<"write without a preceding read", e.t, e.k, e.a>>)) ELSE viol
                   /\ UNCHANGED <<status, reads, doneAtInv, fixed>>
       [] e.ev \in {"CInv", "CRet", "AInv", "ARet"} ->
            /\ status' = [status EXCEPT ![e.t] = CASE e.ev = "CInv" -> "committing" [] e.ev = "CRet" -> "committed"
                                                   [] e.ev = "AInv" -> "aborting" [] OTHER -> "aborted"]
            /\ UNCHANGED <<viol, owner, keyOf, reads, overw, dead, mine, lastRead, doneAtInv, fixed>>
       [] e.ev = "Final" ->
            /\ viol' = AddViol(viol, FinalChecks(e, l))
            /\ UNCHANGED <<owner, keyOf, status, reads, overw, dead, mine, lastRead, doneAtInv, fixed>>
  /\ l' = l + 1

Spec == Init /\ [][Next]_vars
Done == (l = TraceLen + 1) => Emit(viol, l - 1)
=============================================================================
