------------------------------ MODULE BufferPool ------------------------------
(***************************************************************************)
(* L1 mechanism specification of lib/storage/buffer/buffer_pool_manager.go *)
(* One action per critical section (each under b.mutex):                   *)
(*   NewPage L227, FetchPage L47, UnpinPage L141, FlushPage L205,          *)
(*   DeallocatePage L297.  The replacement policy is abstracted: the victim *)
(* is any member of the replacer (the property does not depend on the      *)
(* clock order; a trace binds the actual choice).                          *)
(* Page contents are abstracted to a version number `val`; `latest` and    *)
(* `live` are ghost variables: what a user last wrote under a page id and  *)
(* which page ids are allocated and not deallocated.                       *)
(* FixDealloc selects between the pinned tree's DeallocatePage(noWait)     *)
(* (FALSE: page-table entry dropped, frame left behind - finding P10) and  *)
(* the repaired one (TRUE).                                                *)
(***************************************************************************)
EXTENDS Integers, Sequences, FiniteSets, TLC

CONSTANTS NF,        \* number of frames
          MaxPid,    \* page ids 0..MaxPid
          MaxVer,    \* content versions 0..MaxVer
          MaxPin,    \* bound on pins per page (model only)
          FixDealloc,
          Races      \* explore FlushPage as two halves (pin + write ... unpin) with other users' steps in between

Fid == 0..(NF - 1)
Pid == 0..MaxPid
NoFrame == -1
Never == -1
EmptyFrame == [pid |-> -1, pin |-> 0, dirty |-> FALSE, dealloc |-> FALSE, val |-> 0]

VARIABLES fr,      \* b.pages : [Fid -> frame record]
          pt,      \* b.pageTable : [Pid -> Fid \cup {NoFrame}]
          free,    \* b.freeList (FIFO)
          repl,    \* frames in the replacer
          reuse,   \* b.reUsablePageList
          nextPid, \* disk manager's next page id
          disk,    \* [Pid -> version \cup {Never}]
          latest, live,      \* ghosts
          virgin,            \* ghost: allocated by NewPage and not yet written by its owner
          fl,                \* pages with a FlushPage call in flight (it holds a pin of its own)
          reply

vars  == <<fr, pt, free, repl, reuse, nextPid, disk, latest, live, virgin, fl, reply>>
svars == <<fr, pt, free, repl, reuse, nextPid, disk, latest, live, virgin, fl>>

Init == /\ fr = [f \in Fid |-> EmptyFrame]
        /\ pt = [p \in Pid |-> NoFrame]
        /\ free = [i \in 1..NF |-> i - 1]
        /\ repl = {}
        /\ reuse = <<>>
        /\ nextPid = 0
        /\ disk = [p \in Pid |-> Never]
        /\ latest = [p \in Pid |-> 0]
        /\ live = {}
        /\ virgin = {} /\ fl = {}
        /\ reply = [op |-> "init"]

Resident(p) == pt[p] # NoFrame
CanTake == free # <<>> \/ repl # {}

(* getFrameID + eviction of the frame's current page (FetchPage L72-103, NewPage L236-263).    *)
(* Results: the frame, and the values of pt/disk/reuse/free/repl after the eviction.           *)
Take(f) ==
  IF free # <<>>
    THEN [f |-> Head(free), pt |-> pt, disk |-> disk, reuse |-> reuse, free |-> Tail(free), repl |-> repl, victimPin |-> 0]
    ELSE LET cur == fr[f] IN
         [f |-> f,
          pt |-> IF cur.pid >= 0 THEN [pt EXCEPT ![cur.pid] = NoFrame] ELSE pt,   \* delete(pageTable, cur.pid) - whichever frame it maps to
          disk |-> IF cur.pid >= 0 /\ ~cur.dealloc /\ cur.dirty THEN [disk EXCEPT ![cur.pid] = cur.val] ELSE disk,
          reuse |-> IF cur.pid >= 0 /\ cur.dealloc THEN Append(reuse, cur.pid) ELSE reuse,
          free |-> free, repl |-> repl \ {f}, victimPin |-> cur.pin]
Candidates == IF free # <<>> THEN {Head(free)} ELSE repl

NewPage ==
  /\ CanTake
  /\ \E f \in Candidates :
       LET t == Take(f)
           pid == IF t.reuse # <<>> THEN Head(t.reuse) ELSE nextPid IN
       /\ pid <= MaxPid
       /\ fr' = [fr EXCEPT ![t.f] = [pid |-> pid, pin |-> 1, dirty |-> FALSE, dealloc |-> FALSE, val |-> 0]]
       /\ pt' = [t.pt EXCEPT ![pid] = t.f]
       /\ disk' = t.disk /\ free' = t.free /\ repl' = t.repl
       /\ reuse' = IF t.reuse # <<>> THEN Tail(t.reuse) ELSE t.reuse
       /\ nextPid' = IF t.reuse # <<>> THEN nextPid ELSE nextPid + 1
       /\ latest' = [latest EXCEPT ![pid] = 0]
       /\ live' = live \cup {pid}
       /\ virgin' = virgin \cup {pid}
       /\ reply' = [op |-> "New", pid |-> pid, fresh |-> (pid \notin live /\ \A g \in Fid : ~(fr[g].pid = pid /\ fr[g].pin > 0)),
                    victimPin |-> t.victimPin]

(* users only fetch pages they know to be allocated *)
FetchPage(p) ==
  /\ p \in live
  /\ IF Resident(p)
       THEN LET f == pt[p] IN
            /\ fr[f].pin < MaxPin
            /\ fr' = [fr EXCEPT ![f].pin = @ + 1]
            /\ repl' = repl \ {f}
            /\ reply' = [op |-> "Fetch", pid |-> p, val |-> fr[f].val, expect |-> latest[p], victimPin |-> 0]
            /\ UNCHANGED <<pt, free, reuse, nextPid, disk, latest, live, virgin>>
       ELSE /\ CanTake
            /\ \E f \in Candidates :
                 LET t == Take(f) IN
                 /\ t.disk[p] # Never                   \* a page that never reached the file cannot be read (error path, not modelled)
                 /\ fr' = [fr EXCEPT ![t.f] = [pid |-> p, pin |-> 1, dirty |-> FALSE, dealloc |-> FALSE, val |-> t.disk[p]]]
                 /\ pt' = [t.pt EXCEPT ![p] = t.f]
                 /\ disk' = t.disk /\ free' = t.free /\ repl' = t.repl /\ reuse' = t.reuse
                 /\ reply' = [op |-> "Fetch", pid |-> p, val |-> t.disk[p], expect |-> latest[p], victimPin |-> t.victimPin]
                 /\ UNCHANGED <<nextPid, latest, live, virgin>>

(* FetchPage of a page that is not in the db file (the read fails): a frame has been taken for it all the same -   *)
(* a victim was evicted - and is given back to the free list (FetchPage's error path)                              *)
FetchMissing ==
  \/ /\ ~CanTake /\ reply' = [op |-> "FetchMissing", pid |-> -1, victimPin |-> 0]
     /\ UNCHANGED <<fr, pt, free, repl, reuse, nextPid, disk, latest, live, virgin>>
  \/ /\ CanTake
     /\ \E f \in Candidates :
          LET t == Take(f) IN
          /\ fr' = [fr EXCEPT ![t.f] = EmptyFrame]
          /\ pt' = t.pt /\ disk' = t.disk /\ reuse' = t.reuse /\ repl' = t.repl
          /\ free' = Append(t.free, t.f)
          /\ reply' = [op |-> "FetchMissing", pid |-> -1, victimPin |-> t.victimPin]
          /\ UNCHANGED <<nextPid, latest, live, virgin>>

(* a user holding a pin stores a new version and unpins with isDirty = TRUE *)
WriteUnpin(p) ==
  /\ Resident(p) /\ fr[pt[p]].pin > 0 /\ fr[pt[p]].pid = p /\ latest[p] < MaxVer
  /\ LET f == pt[p]
         v == latest[p] + 1 IN
     /\ fr' = [fr EXCEPT ![f] = [@ EXCEPT !.val = v, !.pin = @ - 1, !.dirty = TRUE]]
     /\ repl' = IF fr[f].pin = 1 THEN repl \cup {f} ELSE repl
     /\ latest' = [latest EXCEPT ![p] = v]
     /\ virgin' = virgin \ {p}
     /\ reply' = [op |-> "WriteUnpin", pid |-> p]
     /\ UNCHANGED <<pt, free, reuse, nextPid, disk, live>>

UnpinClean(p) ==
  /\ Resident(p) /\ fr[pt[p]].pin > 0
  /\ p \notin virgin          \* contract: the owner of a new page writes it before letting go
  /\ LET f == pt[p] IN
     /\ fr' = [fr EXCEPT ![f].pin = @ - 1]
     /\ repl' = IF fr[f].pin = 1 THEN repl \cup {f} ELSE repl
     /\ reply' = [op |-> "UnpinClean", pid |-> p]
     /\ UNCHANGED <<pt, free, reuse, nextPid, disk, latest, live, virgin>>

FlushPage(p) ==
  /\ p \in live /\ Resident(p)
  /\ LET f == pt[p] IN
     /\ disk' = [disk EXCEPT ![p] = fr[f].val]
     /\ fr' = [fr EXCEPT ![f].dirty = FALSE]
     /\ reply' = [op |-> "Flush", pid |-> p]
     /\ UNCHANGED <<pt, free, repl, reuse, nextPid, latest, live, virgin>>

(* FlushPage is not one critical section: it pins the page under the mutex, writes it outside the mutex and unpins it  *)
(* under the mutex again (the pin keeps the frame from being chosen as a victim meanwhile).  FlushPage(p) above is the  *)
(* uninterrupted call; FlushHold / FlushRelease are its two halves, with other users' steps in between.                *)
FlushHold(p) ==
  /\ p \in live /\ Resident(p) /\ fr[pt[p]].pin < MaxPin /\ p \notin fl /\ fl' = fl \cup {p}
  /\ LET f == pt[p] IN
     /\ disk' = [disk EXCEPT ![p] = fr[f].val]
     /\ fr' = [fr EXCEPT ![f] = [@ EXCEPT !.dirty = FALSE, !.pin = @ + 1]]
     /\ repl' = repl \ {f}
     /\ reply' = [op |-> "FlushHold", pid |-> p]
     /\ UNCHANGED <<pt, free, reuse, nextPid, latest, live, virgin>>
FlushRelease(p) ==
  /\ p \in fl /\ fl' = fl \ {p}
  /\ Resident(p) /\ fr[pt[p]].pin > 0
  /\ LET f == pt[p] IN
     /\ fr' = [fr EXCEPT ![f].pin = @ - 1]
     /\ repl' = IF fr[f].pin = 1 THEN repl \cup {f} ELSE repl
     /\ reply' = [op |-> "FlushRelease", pid |-> p]
     /\ UNCHANGED <<pt, free, reuse, nextPid, disk, latest, live, virgin>>

(* DeallocatePage(p, noWait = TRUE): hash join drops its temporary pages this way, the last one *)
(* while it still holds its pin.                                                               *)
DeallocNoWait(p) ==
  /\ p \in live /\ (Resident(p) => fr[pt[p]].pin <= 1)
  /\ live' = live \ {p} /\ virgin' = virgin \ {p}
  /\ reply' = [op |-> "DeallocNoWait", pid |-> p]
  /\ IF ~Resident(p)
       THEN UNCHANGED <<fr, pt, free, repl, reuse, nextPid, disk, latest>>   \* L299: no page-table entry, nothing but the log record
     ELSE IF ~FixDealloc
       THEN /\ pt' = [pt EXCEPT ![p] = NoFrame]
            /\ reuse' = Append(reuse, p)
            /\ UNCHANGED <<fr, free, repl, nextPid, disk, latest>>
       ELSE LET f == pt[p] IN
            IF fr[f].pin = 0
              THEN /\ pt' = [pt EXCEPT ![p] = NoFrame]      \* not in use: the frame is released at once
                   /\ fr' = [fr EXCEPT ![f] = EmptyFrame]
                   /\ free' = Append(free, f) /\ repl' = repl \ {f}
                   /\ reuse' = Append(reuse, p)
                   /\ UNCHANGED <<nextPid, disk, latest>>
              ELSE /\ fr' = [fr EXCEPT ![f].dealloc = TRUE]  \* in use: reuse of the id waits for its eviction
                   /\ UNCHANGED <<pt, free, repl, reuse, nextPid, disk, latest>>

(* the skip list's way: flag the pinned node page, DeallocatePage(p, FALSE) (log only), unpin dirty *)
LazyDeallocUnpin(p) ==
  /\ p \in live /\ Resident(p) /\ fr[pt[p]].pin = 1
  /\ LET f == pt[p] IN
     /\ fr' = [fr EXCEPT ![f] = [@ EXCEPT !.dealloc = TRUE, !.pin = 0, !.dirty = TRUE]]
     /\ repl' = repl \cup {f}
     /\ live' = live \ {p} /\ virgin' = virgin \ {p}
     /\ reply' = [op |-> "LazyDeallocUnpin", pid |-> p]
     /\ UNCHANGED <<pt, free, reuse, nextPid, disk, latest>>

Steps == \/ NewPage \/ FetchMissing
         \/ \E p \in Pid : FetchPage(p) \/ WriteUnpin(p) \/ UnpinClean(p) \/ FlushPage(p)
                           \/ DeallocNoWait(p) \/ LazyDeallocUnpin(p)
(* pins held by users: a FlushPage call in flight holds one pin that belongs to nobody else *)
UserPin(p) == fr[pt[p]].pin - (IF p \in fl THEN 1 ELSE 0)
NewPageF == NewPage /\ UNCHANGED fl
FetchMissingF == FetchMissing /\ UNCHANGED fl
FetchPageF(p) == FetchPage(p) /\ UNCHANGED fl
WriteUnpinF(p) == Resident(p) /\ UserPin(p) > 0 /\ WriteUnpin(p) /\ UNCHANGED fl
UnpinCleanF(p) == Resident(p) /\ UserPin(p) > 0 /\ UnpinClean(p) /\ UNCHANGED fl
FlushPageF(p) == FlushPage(p) /\ p \notin fl /\ UNCHANGED fl
DeallocNoWaitF(p) == DeallocNoWait(p) /\ UNCHANGED fl
LazyDeallocUnpinF(p) == Resident(p) /\ UserPin(p) > 0 /\ LazyDeallocUnpin(p) /\ UNCHANGED fl
FlushHoldR(p) == Races /\ FlushHold(p)
FlushReleaseR(p) == Races /\ FlushRelease(p)
Next == \/ NewPageF \/ FetchMissingF
        \/ \E p \in Pid : FetchPageF(p) \/ WriteUnpinF(p) \/ UnpinCleanF(p) \/ FlushPageF(p)
                          \/ DeallocNoWaitF(p) \/ LazyDeallocUnpinF(p) \/ FlushHoldR(p) \/ FlushReleaseR(p)

Spec == Init /\ [][Next]_vars

--------------------------------------------------------------------------------
(* C13: "reading a page yields the bytes most recently written to it"        *)
Coherent == [][reply'.op = "Fetch" => reply'.val = reply'.expect]_vars
(* "a page that is in use is never evicted or handed to another page id"     *)
PinSafe == [][reply'.op \in {"Fetch", "New", "FetchMissing"} => reply'.victimPin = 0]_vars
ReplacerPinFree == \A f \in repl : fr[f].pin = 0
(* "a newly allocated page id is never one that is still in use"             *)
FreshId == [][reply'.op = "New" => reply'.fresh]_vars
(* design-level consequences *)
MappedRight == \A p \in Pid : Resident(p) => fr[pt[p]].pid = p
NonResidentOnDisk == \A p \in live : ~Resident(p) => disk[p] = latest[p]
(* an unpinned resident page that differs from its disk image is marked dirty (otherwise its eviction loses it) *)
DirtyRight == \A p \in live : (Resident(p) /\ fr[pt[p]].pin = 0 /\ fr[pt[p]].val # disk[p] /\ p \notin virgin) => fr[pt[p]].dirty
================================================================================
