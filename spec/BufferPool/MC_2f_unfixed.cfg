CONSTANTS
  NF = 2
  MaxPid = 2
  MaxVer = 2
  MaxPin = 2
  FixDealloc = FALSE
  Races = FALSE
SPECIFICATION Spec
INVARIANTS ReplacerPinFree
PROPERTIES Coherent PinSafe FreshId
VIEW View
CONSTRAINT Bound
CHECK_DEADLOCK FALSE
