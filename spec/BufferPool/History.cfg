SPECIFICATION Spec
INVARIANT Done
CHECK_DEADLOCK FALSE
