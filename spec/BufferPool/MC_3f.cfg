CONSTANTS
  NF = 3
  MaxPid = 3
  MaxVer = 1
  MaxPin = 2
  FixDealloc = TRUE
  Races = TRUE
SPECIFICATION Spec
INVARIANTS ReplacerPinFree MappedRight NonResidentOnDisk DirtyRight
PROPERTIES Coherent PinSafe FreshId
VIEW View
CONSTRAINT Bound3
CHECK_DEADLOCK FALSE
