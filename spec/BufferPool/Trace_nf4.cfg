CONSTANTS
  NF = 4
  MaxPid = 40
  MaxVer = 1000000
  MaxPin = 1000
  FixDealloc = TRUE
  Races = FALSE
SPECIFICATION TSpec
INVARIANT Done
CHECK_DEADLOCK FALSE
