CONSTANTS
  NF = 2
  MaxPid = 2
  MaxVer = 2
  MaxPin = 2
  FixDealloc = TRUE
  Races = FALSE
SPECIFICATION Spec
VIEW View
CONSTRAINT WalkBound
CHECK_DEADLOCK FALSE
