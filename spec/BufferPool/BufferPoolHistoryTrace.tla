----------------------- MODULE BufferPoolHistoryTrace -----------------------
(***************************************************************************)
(* C13 "by any number of users": goroutines share one small pool; each page *)
(* is owned by one goroutine, so its latest bytes are known from the owner's *)
(* program order.  The merged history (one shared atomic counter) is judged: *)
(*   C13.stale  a fetch did not show the version last stamped on the page   *)
(*   C13.moved  a page pinned by its user showed other bytes / another id   *)
(*              when it was read again (the frame was handed to another page)*)
(*   C13.fresh  NewPage returned an id that is still in use (allocated and  *)
(*              its deallocation not even started)                           *)
(*   C13.lost   a fetch of a live page failed                               *)
(*   C13.panic  the pool panicked / hung                                    *)
(***************************************************************************)
EXTENDS Integers, Sequences, FiniteSets, TLC, TraceKit

VARIABLES l, viol,
          latest,   \* [page id -> version last stamped]
          live      \* page ids allocated and not (being) deallocated
vars == <<l, viol, latest, live>>
V(tag, ln, info) == <<[tag |-> tag, line |-> ln, info |-> info, kf |-> "new"]>>
Put(f, x, y) == [z \in DOMAIN f \cup {x} |-> IF z = x THEN y ELSE f[z]]

Init == l = 1 /\ viol = <<>> /\ latest = <<>> /\ live = {}
Next ==
  /\ l <= TraceLen
  /\ LET e == TraceLog[l] IN
     CASE e.ev = "Reset" -> latest' = <<>> /\ live' = {} /\ UNCHANGED viol
       [] e.ev = "NewRet" ->
            IF e.p < 0 THEN viol' = AddViol(viol, V("C13.lost", l, <<"NewPage returned nil", e.g>>)) /\ UNCHANGED <<latest, live>>
            ELSE /\ viol' = IF e.p \in live THEN AddViol(viol, V("C13.fresh", l, <<"page id still in use", e.p, "goroutine", e.g>>)) ELSE viol
                 /\ latest' = Put(latest, e.p, e.v) /\ live' = live \cup {e.p}
       [] e.ev = "DeallocInv" -> live' = live \ {e.p} /\ UNCHANGED <<viol, latest>>
       [] e.ev = "Write" -> latest' = Put(latest, e.p, e.v) /\ UNCHANGED <<viol, live>>
       [] e.ev = "Fetch" ->
            /\ viol' = IF e.v = -1 THEN AddViol(viol, V("C13.lost", l, <<"FetchPage of a live page returned nil", e.p>>))
                       ELSE IF e.id # e.p \/ e.v # latest[e.p] THEN AddViol(viol, V("C13.stale", l, [page |-> e.p, got |-> <<e.id, e.v>>, latest |-> latest[e.p]]))
                       ELSE viol
            /\ UNCHANGED <<latest, live>>
       [] e.ev = "Reread" ->
            /\ viol' = IF e.id # e.p \/ e.v # latest[e.p] THEN AddViol(viol, V("C13.moved", l, [page |-> e.p, got |-> <<e.id, e.v>>, latest |-> latest[e.p]])) ELSE viol
            /\ UNCHANGED <<latest, live>>
       [] e.ev \in {"Panic", "Hang"} -> viol' = AddViol(viol, V("C13.panic", l, e)) /\ UNCHANGED <<latest, live>>
       [] OTHER -> UNCHANGED <<viol, latest, live>>
  /\ l' = l + 1
Spec == Init /\ [][Next]_vars
Done == (l = TraceLen + 1) => Emit(viol, l - 1)
=============================================================================
