---- MODULE MC_TTrace_1790367299 ----
EXTENDS Sequences, TLCExt, MC, Toolbox, Naturals, TLC

_expression ==
    LET MC_TEExpression == INSTANCE MC_TEExpression
    IN MC_TEExpression!expression
----

_trace ==
    LET MC_TETrace == INSTANCE MC_TETrace
    IN MC_TETrace!trace
----

_inv ==
    ~(
        TLCGet("level") = Len(_TETrace)
        /\
        disk = ((0 :> -1 @@ 1 :> -1 @@ 2 :> -1))
        /\
        reuse = (<<>>)
        /\
        pt = ((0 :> 1 @@ 1 :> -1 @@ 2 :> -1))
        /\
        repl = ({})
        /\
        reply = ([pid |-> 0, op |-> "New", victimPin |-> 0, fresh |-> FALSE])
        /\
        free = (<<>>)
        /\
        fr = ((0 :> [pid |-> 0, pin |-> 1, dirty |-> FALSE, dealloc |-> FALSE, val |-> 0] @@ 1 :> [pid |-> 0, pin |-> 1, dirty |-> FALSE, dealloc |-> FALSE, val |-> 0]))
        /\
        live = ({0})
        /\
        latest = ((0 :> 0 @@ 1 :> 0 @@ 2 :> 0))
        /\
        nextPid = (1)
    )
----

_init ==
    /\ repl = _TETrace[1].repl
    /\ reply = _TETrace[1].reply
    /\ pt = _TETrace[1].pt
    /\ disk = _TETrace[1].disk
    /\ free = _TETrace[1].free
    /\ reuse = _TETrace[1].reuse
    /\ latest = _TETrace[1].latest
    /\ fr = _TETrace[1].fr
    /\ nextPid = _TETrace[1].nextPid
    /\ live = _TETrace[1].live
----

_next ==
    /\ \E i,j \in DOMAIN _TETrace:
        /\ \/ /\ j = i + 1
              /\ i = TLCGet("level")
        /\ repl  = _TETrace[i].repl
        /\ repl' = _TETrace[j].repl
        /\ reply  = _TETrace[i].reply
        /\ reply' = _TETrace[j].reply
        /\ pt  = _TETrace[i].pt
        /\ pt' = _TETrace[j].pt
        /\ disk  = _TETrace[i].disk
        /\ disk' = _TETrace[j].disk
        /\ free  = _TETrace[i].free
        /\ free' = _TETrace[j].free
        /\ reuse  = _TETrace[i].reuse
        /\ reuse' = _TETrace[j].reuse
        /\ latest  = _TETrace[i].latest
        /\ latest' = _TETrace[j].latest
        /\ fr  = _TETrace[i].fr
        /\ fr' = _TETrace[j].fr
        /\ nextPid  = _TETrace[i].nextPid
        /\ nextPid' = _TETrace[j].nextPid
        /\ live  = _TETrace[i].live
        /\ live' = _TETrace[j].live

\* Uncomment the ASSUME below to write the states of the error trace
\* to the given file in Json format. Note that you can pass any tuple
\* to `JsonSerialize`. For example, a sub-sequence of _TETrace.
    \* ASSUME
    \*     LET J == INSTANCE Json
    \*         IN J!JsonSerialize("MC_TTrace_1790367299.json", _TETrace)

=============================================================================

 Note that you can extract this module `MC_TEExpression`
  to a dedicated file to reuse `expression` (the module in the 
  dedicated `MC_TEExpression.tla` file takes precedence 
  over the module `MC_TEExpression` below).

---- MODULE MC_TEExpression ----
EXTENDS Sequences, TLCExt, MC, Toolbox, Naturals, TLC

expression == 
    [
        \* To hide variables of the `MC` spec from the error trace,
        \* remove the variables below.  The trace will be written in the order
        \* of the fields of this record.
        repl |-> repl
        ,reply |-> reply
        ,pt |-> pt
        ,disk |-> disk
        ,free |-> free
        ,reuse |-> reuse
        ,latest |-> latest
        ,fr |-> fr
        ,nextPid |-> nextPid
        ,live |-> live
        
        \* Put additional constant-, state-, and action-level expressions here:
        \* ,_stateNumber |-> _TEPosition
        \* ,_replUnchanged |-> repl = repl'
        
        \* Format the `repl` variable as Json value.
        \* ,_replJson |->
        \*     LET J == INSTANCE Json
        \*     IN J!ToJson(repl)
        
        \* Lastly, you may build expressions over arbitrary sets of states by
        \* leveraging the _TETrace operator.  For example, this is how to
        \* count the number of times a spec variable changed up to the current
        \* state in the trace.
        \* ,_replModCount |->
        \*     LET F[s \in DOMAIN _TETrace] ==
        \*         IF s = 1 THEN 0
        \*         ELSE IF _TETrace[s].repl # _TETrace[s-1].repl
        \*             THEN 1 + F[s-1] ELSE F[s-1]
        \*     IN F[_TEPosition - 1]
    ]

=============================================================================



Parsing and semantic processing can take forever if the trace below is long.
 In this case, it is advised to uncomment the module below to deserialize the
 trace from a generated binary file.

\*
\*---- MODULE MC_TETrace ----
\*EXTENDS IOUtils, MC, TLC
\*
\*trace == IODeserialize("MC_TTrace_1790367299.bin", TRUE)
\*
\*=============================================================================
\*

---- MODULE MC_TETrace ----
EXTENDS MC, TLC

trace == 
    <<
    ([disk |-> (0 :> -1 @@ 1 :> -1 @@ 2 :> -1),reuse |-> <<>>,pt |-> (0 :> -1 @@ 1 :> -1 @@ 2 :> -1),repl |-> {},reply |-> [op |-> "init"],free |-> <<0, 1>>,fr |-> (0 :> [pid |-> -1, pin |-> 0, dirty |-> FALSE, dealloc |-> FALSE, val |-> 0] @@ 1 :> [pid |-> -1, pin |-> 0, dirty |-> FALSE, dealloc |-> FALSE, val |-> 0]),live |-> {},latest |-> (0 :> 0 @@ 1 :> 0 @@ 2 :> 0),nextPid |-> 0]),
    ([disk |-> (0 :> -1 @@ 1 :> -1 @@ 2 :> -1),reuse |-> <<>>,pt |-> (0 :> 0 @@ 1 :> -1 @@ 2 :> -1),repl |-> {},reply |-> [pid |-> 0, op |-> "New", victimPin |-> 0, fresh |-> TRUE],free |-> <<1>>,fr |-> (0 :> [pid |-> 0, pin |-> 1, dirty |-> FALSE, dealloc |-> FALSE, val |-> 0] @@ 1 :> [pid |-> -1, pin |-> 0, dirty |-> FALSE, dealloc |-> FALSE, val |-> 0]),live |-> {0},latest |-> (0 :> 0 @@ 1 :> 0 @@ 2 :> 0),nextPid |-> 1]),
    ([disk |-> (0 :> -1 @@ 1 :> -1 @@ 2 :> -1),reuse |-> <<0>>,pt |-> (0 :> -1 @@ 1 :> -1 @@ 2 :> -1),repl |-> {},reply |-> [pid |-> 0, op |-> "DeallocNoWait"],free |-> <<1>>,fr |-> (0 :> [pid |-> 0, pin |-> 1, dirty |-> FALSE, dealloc |-> FALSE, val |-> 0] @@ 1 :> [pid |-> -1, pin |-> 0, dirty |-> FALSE, dealloc |-> FALSE, val |-> 0]),live |-> {},latest |-> (0 :> 0 @@ 1 :> 0 @@ 2 :> 0),nextPid |-> 1]),
    ([disk |-> (0 :> -1 @@ 1 :> -1 @@ 2 :> -1),reuse |-> <<>>,pt |-> (0 :> 1 @@ 1 :> -1 @@ 2 :> -1),repl |-> {},reply |-> [pid |-> 0, op |-> "New", victimPin |-> 0, fresh |-> FALSE],free |-> <<>>,fr |-> (0 :> [pid |-> 0, pin |-> 1, dirty |-> FALSE, dealloc |-> FALSE, val |-> 0] @@ 1 :> [pid |-> 0, pin |-> 1, dirty |-> FALSE, dealloc |-> FALSE, val |-> 0]),live |-> {0},latest |-> (0 :> 0 @@ 1 :> 0 @@ 2 :> 0),nextPid |-> 1])
    >>
----


=============================================================================

---- CONFIG MC_TTrace_1790367299 ----
CONSTANTS
    NF = 2
    MaxPid = 2
    MaxVer = 2
    MaxPin = 2
    FixDealloc = FALSE

INVARIANT
    _inv

CHECK_DEADLOCK
    \* CHECK_DEADLOCK off because of PROPERTY or INVARIANT above.
    FALSE

INIT
    _init

NEXT
    _next

CONSTANT
    _TETrace <- _trace

ALIAS
    _expression
=============================================================================
\* Generated on Fri Sep 25 20:15:01 UTC 2026