--------------------------- MODULE BufferPoolTrace ---------------------------
(* Trace specification for BufferPool (C13).  After every recorded pool call  *)
(* the specification's state IS the recorded projection of the real pool      *)
(* (frames, page table, free list, replacer members, reusable ids, disk       *)
(* versions) plus the ghosts (latest, live, virgin) maintained from the       *)
(* user-level meaning of the call.  On that state TLC evaluates               *)
(*   C13.stale     a fetched page did not carry the version last written      *)
(*   C13.fresh     NewPage returned an id that is live or still pinned        *)
(*   C13.pinsafe   a frame with pin > 0 is in the replacer / was evicted or   *)
(*                 re-assigned                                                *)
(*   C13.lost      a live page is neither resident with its latest version    *)
(*                 nor on disk with it (a later read must return old bytes)   *)
(*   C13.mapped    the page table points to a frame holding another page      *)
(*   C13.panic     the call panicked (other than a pool with no free frame)   *)
(* and whether the step is one the mechanism specification allows             *)
(* (`diverged` counts steps it does not allow; reported, not a violation by   *)
(* itself: the property does not fix the pool's bookkeeping).                 *)
EXTENDS BufferPool, TraceKit

VARIABLES l, viol, diverged
tvars == <<vars, l, viol, diverged>>

V(tag, ln, info) == <<[tag |-> tag, line |-> ln, info |-> info]>>

FrOf(e) == [f \in Fid |-> e.fr[f + 1]]
PtOf(e) == [p \in Pid |-> e.pt[p + 1]]
DiskOf(e) == [p \in Pid |-> e.disk[p + 1]]
ProjEq(e) == /\ fr' = FrOf(e) /\ pt' = PtOf(e) /\ free' = e.free /\ repl' = SetOf(e.repl)
             /\ reuse' = e.reuse
             /\ \A p \in Pid : disk'[p] # Never => disk'[p] = e.disk[p + 1]   \* (a hole below the end of the file reads as zeros)

Step(e) == CASE e.ev = "NewPage" -> NewPage /\ reply'.pid = e.pid
             [] e.ev = "FetchPage" -> FetchPage(e.pid)
             [] e.ev = "FetchMissing" -> FetchMissing
             [] e.ev = "WriteUnpin" -> WriteUnpin(e.pid)
             [] e.ev = "UnpinClean" -> UnpinClean(e.pid)
             [] e.ev = "FlushPage" -> IF Resident(e.pid) THEN FlushPage(e.pid) ELSE UNCHANGED vars
             [] e.ev = "FlushHold" -> FlushHold(e.pid)
             [] e.ev = "FlushRelease" -> FlushRelease(e.pid)
             [] e.ev = "DeallocNoWait" -> DeallocNoWait(e.pid)
             [] e.ev = "LazyDeallocUnpin" -> LazyDeallocUnpin(e.pid)

(* ghosts follow the user-level meaning of the call *)
Ghosts(e) ==
  CASE e.ev = "NewPage" /\ e.res = "ok" -> /\ latest' = [latest EXCEPT ![e.pid] = 0] /\ live' = live \cup {e.pid}
                                           /\ virgin' = virgin \cup {e.pid}
    [] e.ev = "WriteUnpin" -> /\ latest' = [latest EXCEPT ![e.pid] = e.val] /\ virgin' = virgin \ {e.pid} /\ UNCHANGED live
    [] e.ev \in {"DeallocNoWait", "LazyDeallocUnpin"} -> /\ live' = live \ {e.pid} /\ virgin' = virgin \ {e.pid} /\ UNCHANGED latest
    [] OTHER -> UNCHANGED <<latest, live, virgin>>

(* the frame that now holds the page the call returned: was it pinned by somebody before the call? *)
VictimPinned(e) ==
  e.ev \in {"NewPage", "FetchPage"} /\ e.res = "ok" /\ e.pt[e.pid + 1] >= 0 /\
  LET f == e.pt[e.pid + 1] IN
    /\ ~(e.ev = "FetchPage" /\ pt[e.pid] = f)          \* not a hit
    /\ fr[f].pin > 0

Checks(e, ln) ==
  LET frN == FrOf(e)
      ptN == PtOf(e)
  IN (IF e.ev = "FetchPage" /\ e.res = "ok" /\ (e.val # latest[e.pid] \/ e.gotpid # e.pid)
        THEN V("C13.stale", ln, <<"page", e.pid, "read", e.val, "latest", latest[e.pid]>>) ELSE <<>>)
  \o (IF e.ev = "NewPage" /\ e.res = "ok" /\ (e.pid \in live \/ \E f \in Fid : fr[f].pid = e.pid /\ fr[f].pin > 0)
        THEN V("C13.fresh", ln, <<"NewPage returned", e.pid>>) ELSE <<>>)
  \o (IF VictimPinned(e) \/ \E f \in SetOf(e.repl) : frN[f].pin > 0
        THEN V("C13.pinsafe", ln, <<e.ev, e.pid>>) ELSE <<>>)
  \o (IF \E p \in live' : IF ptN[p] # NoFrame THEN frN[ptN[p]].pid = p /\ frN[ptN[p]].val # latest'[p]
                                               ELSE p \notin virgin' /\ e.disk[p + 1] # latest'[p]
        THEN V("C13.lost", ln, <<e.ev, e.pid>>) ELSE <<>>)
  \o (IF \E p \in Pid : ptN[p] # NoFrame /\ frN[ptN[p]].pid # p THEN V("C13.mapped", ln, <<e.ev, e.pid>>) ELSE <<>>)
  \* an unpinned resident page that differs from its disk image and is not marked dirty will be lost by its eviction
  \o (IF \E p \in live' : ptN[p] # NoFrame /\ frN[ptN[p]].pid = p /\ frN[ptN[p]].pin = 0 /\ p \notin virgin'
                           /\ frN[ptN[p]].val # e.disk[p + 1] /\ ~frN[ptN[p]].dirty /\ ~frN[ptN[p]].dealloc
        THEN V("C13.lost", ln, <<"not dirty although newer than disk", e.ev, e.pid>>) ELSE <<>>)

Exhausted == free = <<>> /\ repl = {}

TInit == Init /\ l = 1 /\ viol = <<>> /\ diverged = <<>>

TNext ==
  /\ l <= TraceLen
  /\ LET e == TraceLog[l] IN
       IF e.ev = "Reset"
         THEN /\ fr' = [f \in Fid |-> EmptyFrame] /\ pt' = [p \in Pid |-> NoFrame] /\ free' = [i \in 1..NF |-> i - 1]
              /\ repl' = {} /\ reuse' = <<>> /\ nextPid' = 0 /\ disk' = [p \in Pid |-> Never]
              /\ latest' = [p \in Pid |-> 0] /\ live' = {} /\ virgin' = {} /\ fl' = {} /\ reply' = [op |-> "init"]
              /\ UNCHANGED <<viol, diverged>>
       ELSE IF e.panic # "" \/ e.res = "nil"
         THEN /\ UNCHANGED vars
              /\ viol' = IF Exhausted /\ e.ev \in {"NewPage", "FetchPage", "FetchMissing"} THEN viol
                         ELSE AddViol(viol, V("C13.panic", l, <<e.ev, e.pid, e.panic>>))
              /\ UNCHANGED diverged
         ELSE /\ fr' = FrOf(e) /\ pt' = PtOf(e) /\ free' = e.free /\ repl' = SetOf(e.repl) /\ reuse' = e.reuse
              /\ disk' = DiskOf(e) /\ nextPid' = e.nextPid
              /\ Ghosts(e)
              /\ fl' = IF e.ev = "FlushHold" THEN fl \cup {e.pid} ELSE IF e.ev = "FlushRelease" THEN fl \ {e.pid} ELSE fl
              /\ reply' = [op |-> e.ev]
              /\ viol' = AddViol(viol, Checks(e, l))
              /\ diverged' = IF ENABLED (Step(e) /\ ProjEq(e)) THEN diverged ELSE (IF Len(diverged) < 50 THEN Append(diverged, l) ELSE diverged)
  /\ l' = l + 1

TSpec == TInit /\ [][TNext]_tvars
Done == (l = TraceLen + 1) => JsonSerialize(IOEnv.VOUT, [viol |-> viol, lines |-> l - 1, diverged |-> diverged])
===============================================================================
