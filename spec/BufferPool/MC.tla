---- MODULE MC ----
EXTENDS BufferPool
View == svars
Bound == Len(reuse) <= 2
WalkBound == Len(reuse) <= 2 /\ TLCGet("level") <= 9
Bound3 == Len(reuse) <= 2 /\ TLCGet("level") <= 11
====
