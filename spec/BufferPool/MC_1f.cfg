CONSTANTS
  NF = 1
  MaxPid = 2
  MaxVer = 2
  MaxPin = 2
  FixDealloc = TRUE
  Races = TRUE
SPECIFICATION Spec
INVARIANTS ReplacerPinFree MappedRight NonResidentOnDisk DirtyRight
PROPERTIES Coherent PinSafe FreshId
VIEW View
CONSTRAINT Bound
CHECK_DEADLOCK FALSE
