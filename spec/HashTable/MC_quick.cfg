SPECIFICATION Spec
CONSTANTS
  NB = 2
  BS = 2
  Key <- K3
  Val <- V3
  Home <- HomeA
  Strict = TRUE
INVARIANTS TypeOK IsMultimap
