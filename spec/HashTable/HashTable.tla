------------------------------- MODULE HashTable -------------------------------
(* L1 mechanism specification of lib/container/hash/linear_probe_hash_table.go (+ iterator, block page): a fixed     *)
(* table of NB blocks x BS slots, linear probing from the key's home slot with wrap-around, slots "occupied" (ever   *)
(* used) and "readable" (holding an entry; occupied and not readable = tombstone).  Every operation runs under the   *)
(* table latch, so one action per call:                                                                               *)
(*   Insert   L105  walks from the home slot: a readable slot with the same VALUE (whatever its key) -> error;        *)
(*                  the first tombstone or never-used slot takes the entry; a full circle -> nothing, no error        *)
(*   Remove   L147  walks until a never-used slot (or a full circle): every readable slot with that key and value     *)
(*                  becomes a tombstone                                                                               *)
(*   GetValue L69   walks until a never-used slot (or a full circle): the values of readable slots with that key      *)
(* Keys are identified by their 64-bit hash in the code; here a key is an id with a home slot (constant Home).        *)
(* Contract checked (IsMultimap): as long as the caller keeps values unique in the table (a row id is filed under     *)
(* one key of an index) and the table is not full, GetValue(k) is exactly the set of values inserted under k and      *)
(* not removed.                                                                                                        *)
EXTENDS Integers, Sequences, FiniteSets, TLC

CONSTANTS NB, BS,        \* blocks, slots per block (code: up to 1020 x 252)
          Key, Val,
          Home,          \* [Key -> 0..NB*BS-1]  home slot (bucket * BS + offset)
          Strict         \* TRUE: the caller keeps values unique in the table (FALSE: documents why the contract needs it)

N == NB * BS
Slots == 0..(N - 1)
Free == [occ |-> FALSE, rd |-> FALSE, k |-> -1, v |-> -1]

VARIABLES slot,   \* [Slots -> [occ, rd, k, v]]
          abs,    \* set of <<k, v>> (ghost)
          reply
vars == <<slot, abs, reply>>

Init == slot = [i \in Slots |-> Free] /\ abs = {} /\ reply = [op |-> "init"]

\* the i-th slot visited from home h
At(h, i) == (h + i) % N
\* number of slots visited before the walk stops at a never-used slot (N = full circle)
Reach(h) == IF \E i \in 0..(N - 1) : ~slot[At(h, i)].occ
              THEN CHOOSE i \in 0..(N - 1) : ~slot[At(h, i)].occ /\ \A j \in 0..(i - 1) : slot[At(h, j)].occ
              ELSE N

GetOf(k) == LET h == Home[k] IN {slot[At(h, i)].v : i \in {j \in 0..(Reach(h) - 1) : slot[At(h, j)].rd /\ slot[At(h, j)].k = k}}
\* as a bag: how often each value is returned
GetCount(k, v) == LET h == Home[k] IN Cardinality({j \in 0..(Reach(h) - 1) : slot[At(h, j)].rd /\ slot[At(h, j)].k = k /\ slot[At(h, j)].v = v})

Insert(k, v) ==
  LET h == Home[k]
      \* first position that ends the walk: duplicate value, tombstone, or never-used slot
      stops == {i \in 0..(N - 1) : \/ (slot[At(h, i)].occ /\ slot[At(h, i)].rd /\ slot[At(h, i)].v = v)
                                   \/ (slot[At(h, i)].occ /\ ~slot[At(h, i)].rd)
                                   \/ ~slot[At(h, i)].occ}
  IN IF stops = {} THEN /\ reply' = [op |-> "Insert", res |-> "full"] /\ UNCHANGED <<slot, abs>>
     ELSE LET i == CHOOSE x \in stops : \A y \in stops : x <= y
              p == At(h, i) IN
          IF slot[p].occ /\ slot[p].rd
            THEN /\ reply' = [op |-> "Insert", res |-> "dup"] /\ UNCHANGED <<slot, abs>>
            ELSE /\ slot' = [slot EXCEPT ![p] = [occ |-> TRUE, rd |-> TRUE, k |-> k, v |-> v]]
                 /\ abs' = abs \cup {<<k, v>>}
                 /\ reply' = [op |-> "Insert", res |-> "ok", p |-> p]

Remove(k, v) ==
  LET h == Home[k]
      hit == {At(h, i) : i \in {j \in 0..(Reach(h) - 1) : slot[At(h, j)].rd /\ slot[At(h, j)].k = k /\ slot[At(h, j)].v = v}}
  IN /\ slot' = [p \in Slots |-> IF p \in hit THEN [slot[p] EXCEPT !.rd = FALSE] ELSE slot[p]]
     /\ abs' = abs \ {<<k, v>>}
     /\ reply' = [op |-> "Remove", res |-> "ok", n |-> Cardinality(hit)]

Get(k) == /\ reply' = [op |-> "Get", res |-> "ok", vals |-> GetOf(k)] /\ UNCHANGED <<slot, abs>>

\* the caller's side of the contract: a value is in the table at most once, there is room
Fresh(v) == \A e \in abs : e[2] # v
Room == Cardinality({p \in Slots : slot[p].rd}) < N - 1

Next == \/ \E k \in Key, v \in Val : (Strict => Fresh(v)) /\ Room /\ Insert(k, v)
        \/ \E k \in Key, v \in Val : Remove(k, v)
        \/ \E k \in Key : Get(k)
Spec == Init /\ [][Next]_vars

IsMultimap == \A k \in Key : /\ GetOf(k) = {e[2] : e \in {x \in abs : x[1] = k}}
                             /\ \A v \in Val : GetCount(k, v) <= 1
TypeOK == \A p \in Slots : slot[p].rd => slot[p].occ
================================================================================
