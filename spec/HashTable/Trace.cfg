CONSTANTS
  NB = 2
  BS = 252
  Key <- TrKey
  Val <- TrVal
  Home <- TrHome
  Strict = TRUE
SPECIFICATION TSpec
INVARIANT Done
CHECK_DEADLOCK FALSE
