---- MODULE MC ----
EXTENDS HashTable
K3 == {1, 2, 3}
V3 == {1, 2, 3}
\* two keys share the last slot (wrap-around), one lives in the first
HomeA == (1 :> 3) @@ (2 :> 3) @@ (3 :> 0)
====
