--------------------------- MODULE HashTableTrace ---------------------------
(* Trace specification for HashTable (C17, hash container): every recorded call on a real LinearProbeHashTable       *)
(* (2 blocks x 252 slots; keys at home in the last slots, the first slots and on one shared slot) is the              *)
(* specification's action with the recorded arguments; outcome and the slots read back from the real block pages      *)
(* are compared.                                                                                                       *)
(*   C17.hash.result  GetValue does not return exactly the values stored under the key, each once; Insert reports     *)
(*                    a duplicate / success where the specification does not                                           *)
(*   mech.C17.hash    the slots (position, tombstones, entries) differ from the specification's (no verdict)           *)
EXTENDS HashTable, TraceKit

VARIABLES l, viol
tvars == <<vars, l, viol>>
V(tag, ln, info) == <<[tag |-> tag, line |-> ln, info |-> info, kf |-> "new"]>>

TrHome == [k \in 1..Len(TraceLog[1].homes) |-> TraceLog[1].homes[k]]
TrKey == 1..Len(TraceLog[1].homes)
TrVal == 1..100000

TInit == Init /\ l = 1 /\ viol = <<>>

Logged(e) == [p \in Slots |-> IF \E j \in DOMAIN e.slots : e.slots[j][1] = p
                                THEN LET s == e.slots[CHOOSE j \in DOMAIN e.slots : e.slots[j][1] = p]
                                     IN [occ |-> TRUE, rd |-> s[2] = 1, k |-> s[3], v |-> s[4]]
                                ELSE Free]
\* tombstones keep their old key and value in the real page; only readable entries and the occupied bit are compared
Same(a, b) == \A p \in Slots : a[p].occ = b[p].occ /\ a[p].rd = b[p].rd /\ (a[p].rd => (a[p].k = b[p].k /\ a[p].v = b[p].v))

TNext ==
  /\ l <= TraceLen
  /\ LET e == TraceLog[l] IN
     IF e.ev = "Reset"
       THEN /\ slot' = [i \in Slots |-> Free] /\ abs' = {} /\ reply' = [op |-> "init"]
            /\ viol' = AddViol(viol, IF e.slots # <<>> THEN V("mech.C17.hash", l, <<"fresh table">>) ELSE <<>>)
       ELSE /\ CASE e.op = "Insert" -> Insert(e.k, e.v)
                 [] e.op = "Remove" -> Remove(e.k, e.v)
                 [] e.op = "Get" -> Get(e.k)
            /\ viol' = AddViol(viol,
                    (IF e.panic # "" THEN V("C17.hash.panic", l, <<e.op, e.k, e.panic>>) ELSE <<>>)
                 \o (IF e.panic = "" /\ e.op = "Insert" /\ e.res # reply'.res THEN V("C17.hash.result", l, <<e.op, e.k, e.v, e.res, reply'.res>>) ELSE <<>>)
                 \o (IF e.panic = "" /\ e.op = "Get" /\ (SetOf(e.vals) # {x[2] : x \in {y \in abs : y[1] = e.k}} \/ Len(e.vals) # Cardinality(SetOf(e.vals)))
                       THEN V("C17.hash.result", l, <<e.op, e.k, e.vals, {x[2] : x \in {y \in abs : y[1] = e.k}}>>) ELSE <<>>)
                 \o (IF e.panic = "" /\ ~Same(Logged(e), slot') THEN V("mech.C17.hash", l, <<e.op, e.k, e.v>>) ELSE <<>>))
  /\ l' = l + 1

TSpec == TInit /\ [][TNext]_tvars
Done == (l = TraceLen + 1) => Emit(viol, l - 1)
=============================================================================
