------------------------------- MODULE SqlModel -------------------------------
(***************************************************************************)
(* L0 contract specification: what a user of the SQL interface may         *)
(* observe.  No mechanism (no pages, locks, indexes, plans).               *)
(*  - a table is a bag of rows (sequence; order is not observable);        *)
(*    a row is a tuple of column values given as RANKS in a per-column     *)
(*    ordered domain (the driver maps ranks to concrete values by an       *)
(*    order-preserving table); Null is a distinguished value;              *)
(*  - a predicate is a tree over comparisons (column op constant) joined   *)
(*    by AND / OR; a comparison with Null on either side is false;         *)
(*  - statements: CREATE TABLE, INSERT, UPDATE, DELETE, SELECT (single     *)
(*    table, projection list), equi-joins with conjunctive filters;        *)
(*  - transactions used serially: Begin / Commit / Abort (abort restores   *)
(*    the snapshot taken at Begin);                                        *)
(*  - Shutdown+Reopen and Crash+Reopen (with no transaction in progress)   *)
(*    change nothing observable; RefreshStats changes nothing.             *)
(***************************************************************************)
EXTENDS Integers, Sequences, FiniteSets, TLC

Null == -1

VARIABLES tables,   \* [name -> [cols : Seq(type), rows : Seq(row)]]  (function with growing domain)
          snap,     \* tables at Begin (meaningful while intxn)
          intxn

svars == <<tables, snap, intxn>>

(* ---- predicates ---------------------------------------------------------- *)
CmpOK(op, a, b) ==
  IF a = Null \/ b = Null THEN FALSE
  ELSE CASE op = "="  -> a = b   [] op = "<>" -> a # b
         [] op = "<"  -> a < b   [] op = "<=" -> a <= b
         [] op = ">"  -> a > b   [] op = ">=" -> a >= b

RECURSIVE Holds(_, _)
Holds(p, row) ==
  CASE p.k = "true" -> TRUE
    [] p.k = "cmp"  -> CmpOK(p.op, row[p.c + 1], p.v)
    [] p.k = "and"  -> Holds(p.a, row) /\ Holds(p.b, row)
    [] p.k = "or"   -> Holds(p.a, row) \/ Holds(p.b, row)

(* ---- bags as sequences --------------------------------------------------- *)
Range(s) == {s[i] : i \in DOMAIN s}
Count(s, x) == Len(SelectSeq(s, LAMBDA y : y = x))
SameBag(s, t) == Len(s) = Len(t) /\ \A x \in Range(s) \cup Range(t) : Count(s, x) = Count(t, x)

Filter(rows, p) == SelectSeq(rows, LAMBDA r : Holds(p, r))
Project(row, proj) == [i \in 1..Len(proj) |-> row[proj[i] + 1]]
MapSeq(rows, proj) == [i \in 1..Len(rows) |-> Project(rows[i], proj)]

(* the reference answer of SELECT proj FROM t WHERE p *)
Answer(t, p, proj) == MapSeq(Filter(tables[t].rows, p), proj)

(* UPDATE t SET (col := v)* WHERE p ; set is a sequence of <<col, value>> *)
SetRow(row, set) == [i \in 1..Len(row) |->
                       IF \E j \in 1..Len(set) : set[j][1] + 1 = i
                         THEN set[CHOOSE j \in 1..Len(set) : set[j][1] + 1 = i /\ \A k \in (j+1)..Len(set) : set[k][1] + 1 # i][2]
                         ELSE row[i]]
Updated(rows, p, set) == [i \in 1..Len(rows) |-> IF Holds(p, rows[i]) THEN SetRow(rows[i], set) ELSE rows[i]]
Remove(rows, p) == SelectSeq(rows, LAMBDA r : ~Holds(p, r))

(* ---- joins: tables ts = <<t1, t2(, t3)>>, a combined row is the concatenation ------------ *)
(* on = sequence of <<ti, ci, tj, cj>> equalities (1-based table positions, 0-based columns); *)
(* filt = sequence of [t, c, op, v] conjuncts; proj = sequence of <<t, c>>                     *)
RECURSIVE Combos(_)
Combos(ts) == IF ts = <<>> THEN {<<>>}
              ELSE {<<r>> \o rest : r \in {<<i, tables[Head(ts)].rows[i]>> : i \in DOMAIN tables[Head(ts)].rows},
                                    rest \in Combos(Tail(ts))}
JoinHolds(combo, on, filt) ==
  /\ \A k \in DOMAIN on : LET a == combo[on[k][1]][2][on[k][2] + 1]
                              b == combo[on[k][3]][2][on[k][4] + 1]
                          IN a # Null /\ b # Null /\ a = b
  /\ \A k \in DOMAIN filt : CmpOK(filt[k].op, combo[filt[k].t][2][filt[k].c + 1], filt[k].v)
JoinProject(combo, proj) == [i \in 1..Len(proj) |-> combo[proj[i][1]][2][proj[i][2] + 1]]
(* bag of projected rows as a function row -> multiplicity.  JoinAnswerBagRef is the definition (filter the cross    *)
(* product); JoinAnswerBag computes the same set of combined rows table by table, looking partners up by the first   *)
(* equality that links the new table to the ones already combined (the cross product of two 300-row tables costs     *)
(* TLC minutes).  Both are compared on recorded statements when IOEnv.JOINREF is set (bin/checks/c11.py, thorough).  *)
JoinAnswerBagRef(ts, on, filt, proj) ==
  LET good == {c \in Combos(ts) : JoinHolds(c, on, filt)}
      outs == {JoinProject(c, proj) : c \in good}
  IN [o \in outs |-> Cardinality({c \in good : JoinProject(c, proj) = o})]
MaxOf(a, b) == IF a > b THEN a ELSE b
RECURSIVE JoinRec(_, _, _, _, _)
JoinRec(ts, on, filt, k, P) ==
  IF k > Len(ts) THEN P
  ELSE LET rows  == tables[ts[k]].rows
           cand  == {<<i, rows[i]>> : i \in {j \in DOMAIN rows :
                        \A f \in DOMAIN filt : filt[f].t = k => CmpOK(filt[f].op, rows[j][filt[f].c + 1], filt[f].v)}}
           links == {j \in DOMAIN on : MaxOf(on[j][1], on[j][3]) = k}
           OnOK(c) == \A j \in links : LET a == c[on[j][1]][2][on[j][2] + 1]
                                            b == c[on[j][3]][2][on[j][4] + 1]
                                        IN a # Null /\ b # Null /\ a = b
           j0    == CHOOSE j \in links : TRUE
           \* column of table k and <<table, column>> of the partner in the first linking equality
           kc    == IF on[j0][1] = k THEN on[j0][2] ELSE on[j0][4]
           ot    == IF on[j0][1] = k THEN on[j0][3] ELSE on[j0][1]
           oc    == IF on[j0][1] = k THEN on[j0][4] ELSE on[j0][2]
           byKey == [v \in {y[2][kc + 1] : y \in cand} |-> {y \in cand : y[2][kc + 1] = v}]
           Partners(p) == IF links = {} \/ ot = k THEN cand
                          ELSE IF p[ot][2][oc + 1] \in DOMAIN byKey THEN byKey[p[ot][2][oc + 1]] ELSE {}
       IN JoinRec(ts, on, filt, k + 1, UNION {{p \o <<x>> : x \in {y \in Partners(p) : OnOK(p \o <<y>>)}} : p \in P})
JoinAnswerBag(ts, on, filt, proj) ==
  LET good == JoinRec(ts, on, filt, 1, {<<>>})
      outs == {JoinProject(c, proj) : c \in good}
  IN [o \in outs |-> Cardinality({c \in good : JoinProject(c, proj) = o})]
BagOfSeq(s) == [x \in Range(s) |-> Count(s, x)]

(* ---- state machine --------------------------------------------------------- *)
Init == tables = <<>> /\ snap = <<>> /\ intxn = FALSE    \* (<<>> is the function with empty domain)

HasTable(t) == t \in DOMAIN tables
Put(t, v) == [x \in DOMAIN tables \cup {t} |-> IF x = t THEN v ELSE tables[x]]

Create(t, cols) == /\ ~HasTable(t) /\ tables' = Put(t, [cols |-> cols, rows |-> <<>>]) /\ UNCHANGED <<snap, intxn>>
Insert(t, rows) == /\ HasTable(t) /\ tables' = Put(t, [tables[t] EXCEPT !.rows = @ \o rows]) /\ UNCHANGED <<snap, intxn>>
(* rows committed by ANOTHER transaction while the modelled one is open: they are in the open transaction's view *)
(* (no snapshot isolation) and they survive its abort                                                          *)
InsertByOther(t, rows) == /\ HasTable(t) /\ intxn /\ t \in DOMAIN snap
                          /\ tables' = Put(t, [tables[t] EXCEPT !.rows = @ \o rows])
                          /\ snap' = [snap EXCEPT ![t] = [@ EXCEPT !.rows = @ \o rows]] /\ UNCHANGED intxn
Update(t, p, set) == /\ HasTable(t) /\ tables' = Put(t, [tables[t] EXCEPT !.rows = Updated(@, p, set)]) /\ UNCHANGED <<snap, intxn>>
Delete(t, p) == /\ HasTable(t) /\ tables' = Put(t, [tables[t] EXCEPT !.rows = Remove(@, p)]) /\ UNCHANGED <<snap, intxn>>
Begin == ~intxn /\ intxn' = TRUE /\ snap' = tables /\ UNCHANGED tables
Commit == intxn /\ intxn' = FALSE /\ UNCHANGED <<tables, snap>>
Abort == intxn /\ intxn' = FALSE /\ tables' = snap /\ UNCHANGED snap
(* reads, statistics refresh, clean or crash restart with no transaction in progress *)
Stutter == UNCHANGED svars
================================================================================
