---------------------------- MODULE SqlModelTrace ----------------------------
(* Deterministic trace specification over SqlModel.  Every recorded statement *)
(* is one SqlModel action; its recorded answer is compared with the reference *)
(* answer.  The tag prefix is the property the driver was exercising (e.ctx): *)
(*   <ctx>.rows    returned bag of rows differs from the reference answer     *)
(*   <ctx>.order   an ordered index scan returned keys out of order           *)
(*   <ctx>.value   a value read back is not one that was ever stored          *)
(*   <ctx>.fail    a supported statement failed, aborted or panicked          *)
(*   C14.pins      the pin vector after the statement differs from before     *)
(* After a full-table read marked `sync` the specification adopts the table   *)
(* the engine showed (reported once, then later defects are still visible).   *)
EXTENDS SqlModel, TraceKit

VARIABLES l, viol,
          hadCrash,   \* a crash-style stop happened in this database's history
          hasBtree    \* some table of this database has a B-tree indexed column
tvars == <<svars, l, viol, hadCrash, hasBtree>>
hvars == <<hadCrash, hasBtree>>

Tag(e, suffix) == e.ctx \o suffix
V(tag, ln, info) == <<[tag |-> tag, line |-> ln, info |-> info, kf |-> "new"]>>
VK(tag, ln, info, kf) == <<[tag |-> tag, line |-> ln, info |-> info, kf |-> kf]>>

(* Known finding KF-C10-btree-reattach-after-crash (known_findings.json): after a crash-style restart a   *)
(* B-tree index is rebuilt under a new header page, but the column catalog keeps the old header page id; *)
(* the next clean shutdown + reopen re-attaches the stale pages and fails.  Signature: a failing Reopen   *)
(* that follows a clean Shutdown in a history that contains a crash-style stop and a B-tree index.        *)
ReopenCheck(e, ln) ==
  IF e.res = "ok" THEN <<>>
  ELSE IF hadCrash /\ hasBtree /\ ln > 1 /\ TraceLog[ln - 1].ev = "Shutdown"
    THEN VK(Tag(e, ".fail"), ln, <<e.ev, e.res>>, "KF-C10-btree-reattach-after-crash")
    ELSE V(Tag(e, ".fail"), ln, <<e.ev, e.res>>)

BadValue(rows) == \E i \in DOMAIN rows : \E j \in DOMAIN rows[i] : rows[i][j] = -99

(* C14: "leaves no buffer frame pinned that was not pinned before it started": the set of pinned pages *)
PinnedPages(p) == {p[i][1] : i \in DOMAIN p}
PinCheck(e, ln) == IF Has(e, "pb") /\ PinnedPages(e.pb) # PinnedPages(e.pa) THEN V("C14.pins", ln, <<e.ev, e.pb, e.pa>>) ELSE <<>>
(* a statement of an explicit transaction may abort the transaction (the caller then rolls back) *)
(* so may a statement that runs against rows another open transaction has locked; a statement the planner   *)
(* rejects returns an error by design                                                                        *)
FailCheck(e, ln) == IF e.res # "ok" /\ ~((Has(e, "intxn") \/ Has(e, "conflict")) /\ e.res = "abort")
                       /\ ~(Has(e, "rejected") /\ SubSeq(e.res, 1, 3) = "err") THEN V(Tag(e, ".fail"), ln, <<e.ev, e.res>>) ELSE <<>>

Ordered(keys) == \A i \in 1..(Len(keys) - 1) : keys[i] <= keys[i + 1]
InRange(v, lo, hi) == v # Null /\ (lo = -2 \/ v >= lo) /\ (hi = -2 \/ v <= hi)
RangeRows(t, c, lo, hi) == LET r == tables[t].rows IN
  [i \in 1..Cardinality({j \in DOMAIN r : InRange(r[j][c + 1], lo, hi)}) |->
      r[CHOOSE j \in DOMAIN r : InRange(r[j][c + 1], lo, hi)
            /\ Cardinality({k \in 1..j : InRange(r[k][c + 1], lo, hi)}) = i]]

SelectCheck(e, ln) ==
  IF e.res # "ok" \/ Has(e, "rejected") THEN <<>>
  ELSE IF BadValue(e.rows) THEN V(Tag(e, ".value"), ln, <<e.ev, e.t>>)
  ELSE IF ~SameBag(e.rows, Answer(e.t, e.pred, e.proj))
         THEN V(Tag(e, ".rows"), ln, [stmt |-> <<e.t, e.pred, e.proj>>, plan |-> e.plan, got |-> e.rows,
                                      want |-> Answer(e.t, e.pred, e.proj)])
  ELSE <<>>

(* C06, plan level (spec/RangeDerivation): the interval the index range scan walks must contain every row *)
(* the predicate selects, and when nothing re-checks the predicate above the scan it must contain no other. *)
(* Decided on the rows of the table and on every variant of them (and of an all-zero row) whose indexed     *)
(* column takes each rank, so it does not depend on the data happening to expose the difference.            *)
Ranks == 0..5
ProbeRows(t, c) ==
  LET rs == tables[t].rows
      base == Range(rs) \cup {[i \in 1..Len(tables[t].cols) |-> 0]} IN
  base \cup {[r EXCEPT ![c + 1] = k] : r \in base, k \in Ranks}
RangePlanCheck(e, ln) ==
  IF ~Has(e, "rs") \/ e.res # "ok" \/ ~HasTable(e.t) THEN <<>>
  ELSE LET c == e.rs.c
           inIv(r) == InRange(r[c + 1], e.rs.lo, e.rs.hi)
           lost == {r \in ProbeRows(e.t, c) : Holds(e.pred, r) /\ ~inIv(r)}
           extra == {r \in ProbeRows(e.t, c) : ~Holds(e.pred, r) /\ inIv(r)} IN
       IF lost # {} THEN V(Tag(e, ".range"), ln, [stmt |-> <<e.t, e.pred>>, rs |-> e.rs, lost |-> CHOOSE r \in lost : TRUE])
       ELSE IF ~e.rs.sel /\ extra # {} THEN V(Tag(e, ".range"), ln, [stmt |-> <<e.t, e.pred>>, rs |-> e.rs, extra |-> CHOOSE r \in extra : TRUE])
       ELSE <<>>

IdxPointCheck(e, ln) ==
  IF e.res # "ok" THEN <<>>
  ELSE IF BadValue(e.rows) THEN V(Tag(e, ".value"), ln, <<e.ev, e.t>>)
  ELSE LET want == Filter(tables[e.t].rows, [k |-> "cmp", c |-> e.c, op |-> "=", v |-> e.v]) IN
       IF ~SameBag(e.rows, want) THEN V(Tag(e, ".rows"), ln, [idx |-> <<e.t, e.c, e.v, e.kind>>, got |-> e.rows, want |-> want]) ELSE <<>>

IdxRangeCheck(e, ln) ==
  IF e.res # "ok" THEN <<>>
  ELSE IF BadValue(e.rows) THEN V(Tag(e, ".value"), ln, <<e.ev, e.t>>)
  ELSE LET want == RangeRows(e.t, e.c, e.lo, e.hi) IN
       (IF ~SameBag(e.rows, want) THEN V(Tag(e, ".rows"), ln, [idx |-> <<e.t, e.c, e.lo, e.hi, e.kind>>, got |-> e.rows, want |-> want]) ELSE <<>>)
    \o (IF ~Ordered([i \in DOMAIN e.rows |-> e.rows[i][e.c + 1]]) THEN V(Tag(e, ".order"), ln, <<e.t, e.c, e.rows>>) ELSE <<>>)

JoinCheck(e, ln) ==
  IF e.res # "ok" THEN <<>>
  ELSE IF BadValue(e.rows) THEN V(Tag(e, ".value"), ln, <<e.ev>>)
  ELSE LET want == JoinAnswerBag(e.ts, e.on, e.filt, e.proj) IN
       IF BagOfSeq(e.rows) # want THEN V(Tag(e, ".rows"), ln, [stmt |-> <<e.ts, e.on, e.filt, e.proj>>, plan |-> e.plan,
                                                             got |-> BagOfSeq(e.rows), want |-> want]) ELSE <<>>

TInit == Init /\ l = 1 /\ viol = <<>> /\ hadCrash = FALSE /\ hasBtree = FALSE

Ok(e) == e.res = "ok"

TNext ==
  /\ l <= TraceLen
  /\ LET e == TraceLog[l] IN
     CASE e.ev = "Reset" -> tables' = <<>> /\ snap' = <<>> /\ intxn' = FALSE /\ UNCHANGED viol /\ hadCrash' = FALSE /\ hasBtree' = FALSE
       [] e.ev = "Create" -> /\ (IF Ok(e) /\ ~HasTable(e.t) THEN Create(e.t, e.cols) ELSE Stutter)
                             /\ hasBtree' = (hasBtree \/ (Has(e, "kinds") /\ \E i \in DOMAIN e.kinds : e.kinds[i] = "btree")) /\ UNCHANGED hadCrash
                             /\ viol' = AddViol(viol, FailCheck(e, l))   \* (CREATE pins its index header pages for good)
       [] e.ev = "Insert" -> /\ UNCHANGED hvars
                             /\ (IF HasTable(e.t) /\ Ok(e) THEN Insert(e.t, e.rows) ELSE Stutter)
                             /\ viol' = AddViol(viol, FailCheck(e, l) \o PinCheck(e, l))
       [] e.ev = "Update" -> /\ UNCHANGED hvars
                             /\ (IF HasTable(e.t) /\ Ok(e) THEN Update(e.t, e.pred, e.set) ELSE Stutter)
                             /\ viol' = AddViol(viol, FailCheck(e, l) \o RangePlanCheck(e, l) \o PinCheck(e, l))
       [] e.ev = "Delete" -> /\ UNCHANGED hvars
                             /\ (IF HasTable(e.t) /\ Ok(e) THEN Delete(e.t, e.pred) ELSE Stutter)
                             /\ viol' = AddViol(viol, FailCheck(e, l) \o RangePlanCheck(e, l) \o PinCheck(e, l))
       [] e.ev = "Select" -> /\ UNCHANGED hvars
                             /\ viol' = AddViol(viol, FailCheck(e, l) \o SelectCheck(e, l) \o RangePlanCheck(e, l) \o PinCheck(e, l))
                             /\ IF Has(e, "sync") /\ Ok(e) /\ ~BadValue(e.rows) /\ ~SameBag(e.rows, tables[e.t].rows)
                                  THEN tables' = Put(e.t, [tables[e.t] EXCEPT !.rows = e.rows]) /\ UNCHANGED <<snap, intxn>>
                                  ELSE Stutter
       [] e.ev = "IdxPoint" -> UNCHANGED hvars /\ Stutter /\ viol' = AddViol(viol, FailCheck(e, l) \o IdxPointCheck(e, l))
       [] e.ev = "IdxRange" -> UNCHANGED hvars /\ Stutter /\ viol' = AddViol(viol, FailCheck(e, l) \o IdxRangeCheck(e, l))
       [] e.ev = "Join" -> UNCHANGED hvars /\ Stutter /\ viol' = AddViol(viol, FailCheck(e, l) \o JoinCheck(e, l) \o PinCheck(e, l))
       [] e.ev = "Begin" -> UNCHANGED hvars /\ (IF ~intxn THEN Begin ELSE Stutter) /\ viol' = AddViol(viol, FailCheck(e, l))
       [] e.ev = "Commit" -> UNCHANGED hvars /\ (IF intxn THEN Commit ELSE Stutter) /\ viol' = AddViol(viol, FailCheck(e, l) \o PinCheck(e, l))
       [] e.ev = "Abort" -> UNCHANGED hvars /\ (IF intxn THEN Abort ELSE Stutter) /\ viol' = AddViol(viol, FailCheck(e, l) \o PinCheck(e, l))
       [] e.ev \in {"Stats", "Shutdown"} -> Stutter /\ viol' = AddViol(viol, FailCheck(e, l)) /\ UNCHANGED hvars
       [] e.ev = "Crash" -> Stutter /\ viol' = AddViol(viol, FailCheck(e, l)) /\ hadCrash' = TRUE /\ UNCHANGED hasBtree
       [] e.ev = "Reopen" -> Stutter /\ viol' = AddViol(viol, ReopenCheck(e, l)) /\ UNCHANGED hvars
  /\ l' = l + 1

TSpec == TInit /\ [][TNext]_tvars
Done == (l = TraceLen + 1) => Emit(viol, l - 1)
==============================================================================
