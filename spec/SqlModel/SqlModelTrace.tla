---------------------------- MODULE SqlModelTrace ----------------------------
(* Deterministic trace specification over SqlModel.  Every recorded statement *)
(* is one SqlModel action; its recorded answer is compared with the reference *)
(* answer.  The tag prefix is the property the driver was exercising (e.ctx): *)
(*   <ctx>.rows    returned bag of rows differs from the reference answer     *)
(*   <ctx>.order   an ordered index scan returned keys out of order           *)
(*   <ctx>.value   a value read back is not one that was ever stored          *)
(*   <ctx>.fail    a supported statement failed, aborted or panicked          *)
(*   C14.pins      the pin vector after the statement differs from before     *)
(* After a full-table read marked `sync` the specification adopts the table   *)
(* the engine showed (reported once, then later defects are still visible).   *)
EXTENDS SqlModel, TraceKit

VARIABLES l, viol,
          hadCrash,   \* a crash-style stop happened in this database's history
          hasBtree,   \* some table of this database has a B-tree indexed column
          bt          \* bookkeeping for KF-C17-btree-ffff-stopper: [meta, big, many]
tvars == <<svars, l, viol, hadCrash, hasBtree, bt>>
hvars == <<hadCrash, hasBtree, bt>>

Tag(e, suffix) == e.ctx \o suffix
IsRangeTag(tag) == Len(tag) >= 6 /\ SubSeq(tag, Len(tag) - 5, Len(tag)) = ".range"
V(tag, ln, info) == <<[tag |-> tag, line |-> ln, info |-> info, kf |-> "new"]>>
VK(tag, ln, info, kf) == <<[tag |-> tag, line |-> ln, info |-> info, kf |-> kf]>>

(* Known finding KF-C10-btree-reattach-after-crash (known_findings.json): after a crash-style restart a   *)
(* B-tree index is rebuilt under a new header page, but the column catalog keeps the old header page id; *)
(* the next clean shutdown + reopen re-attaches the stale pages and fails.  Signature: a failing Reopen   *)
(* that follows a clean Shutdown in a history that contains a crash-style stop and a B-tree index.        *)
ReopenCheck(e, ln) ==
  IF e.res = "ok" THEN <<>>
  ELSE IF hadCrash /\ hasBtree /\ ln > 1 /\ TraceLog[ln - 1].ev = "Shutdown"
    THEN VK(Tag(e, ".fail"), ln, <<e.ev, e.res>>, "KF-C10-btree-reattach-after-crash")
    ELSE V(Tag(e, ".fail"), ln, <<e.ev, e.res>>)

(* Known finding KF-C17-btree-ffff-stopper: the embedded B-link tree ends every level with the 2-byte stopper key *)
(* ff ff, taken to be larger than any key; the order-preserving encoding of an integer >= 2147418112 starts with    *)
(* ff ff and is longer, so it compares GREATER than the stopper.  Once the right-most leaf holding such keys splits, *)
(* the fence keys of the parent are mis-ordered and entries are filed in / looked up from the wrong leaf: index     *)
(* lookups miss rows, ordered scans return keys out of order.  Signature: the table has a B-tree index on an        *)
(* integer column, a value whose key starts with ff ff (ranks e.ff of the Create event) was written to that column,  *)
(* and the table has held >= 100 rows (one leaf page holds more than 100 entries, so smaller tables never split).   *)
BtInit == [meta |-> <<>>, big |-> {}, many |-> {}, btTabs |-> {}, crashed |-> {}, stale |-> {}]
BtCreate(e) ==
  IF Has(e, "kinds") /\ Has(e, "ff")
    THEN [bt EXCEPT !.btTabs = IF \E j \in DOMAIN e.kinds : e.kinds[j] = "btree" THEN @ \cup {e.t} ELSE @,
                    !.meta = [x \in DOMAIN bt.meta \cup {e.t} |->
             IF x = e.t THEN [cs |-> {i - 1 : i \in {j \in DOMAIN e.kinds : e.kinds[j] = "btree" /\ e.cols[j] = "int"}},
                              ff |-> {e.ff[i] : i \in DOMAIN e.ff},
                              sent |-> \E j \in DOMAIN e.cols : e.cols[j] = "svarchar"]
             ELSE bt.meta[x]]]
    ELSE bt
BtWrites(t, vals) ==   \* vals: set of <<column, rank>> written to table t
  IF t \in DOMAIN bt.meta /\ \E w \in vals : w[1] \in bt.meta[t].cs /\ w[2] \in bt.meta[t].ff
    THEN [bt EXCEPT !.big = @ \cup {t}] ELSE bt
BtInsert(e) ==
  LET b == BtWrites(e.t, {<<c - 1, e.rows[i][c]>> : i \in DOMAIN e.rows, c \in 1..(IF e.rows = <<>> THEN 0 ELSE Len(e.rows[1]))}) IN
  IF HasTable(e.t) /\ Len(tables[e.t].rows) + Len(e.rows) >= 100 THEN [b EXCEPT !.many = @ \cup {e.t}] ELSE b
BtUpdate(e) ==
  IF HasTable(e.t) /\ \E i \in DOMAIN tables[e.t].rows : Holds(e.pred, tables[e.t].rows[i])
    THEN BtWrites(e.t, {<<e.set[i][1], e.set[i][2]>> : i \in DOMAIN e.set}) ELSE bt
BtKnown(t) == t \in bt.big /\ t \in bt.many
(* violations of an event on such a table are attributed to the known finding (pin and plan clauses are not) *)
(* Second manifestation of KF-C10-btree-reattach-after-crash (predicted by spec/Catalog, invariant IndexFresh, and   *)
(* found by the histories derived from its state graph): when the stale header page does hold an older B-tree - the  *)
(* table went through an earlier graceful shutdown - the re-attach succeeds and the index silently lacks everything  *)
(* written since: lookups through that index miss rows.  Signature: the table had a B-tree index when a crash-style  *)
(* stop happened (bt.crashed), and a later clean Shutdown + Reopen re-attached it (bt.stale).                        *)
AttrTo(vs, kf) == [i \in DOMAIN vs |-> IF vs[i].kf = "new" /\ vs[i].tag \notin {"C14.pins"} /\ ~IsRangeTag(vs[i].tag)
                                        THEN [vs[i] EXCEPT !.kf = kf] ELSE vs[i]]
(* Known finding KF-C06-varchar-sentinel: the engine marks "minus / plus infinity" of the string type IN-BAND, as the  *)
(* strings 'SamehadaDBInfMinValue' / 'SamehadaDBInfMaxValue' (types.Value.SetInfMin / IsInfMin).  A stored string or a  *)
(* literal equal to one of them is taken for the sentinel by every comparison: `c <= ''` returns the row holding         *)
(* 'SamehadaDBInfMinValue', `c > 'b'` misses 'SamehadaDBInfMaxValue' ... Signature: the statement is on the dedicated    *)
(* table whose column has the driver type "svarchar" (the only place where these two strings are used).                  *)
SentTab(t) == t \in DOMAIN bt.meta /\ "sent" \in DOMAIN bt.meta[t] /\ bt.meta[t].sent
Attr(vs, ts) ==
  IF \E t \in ts : SentTab(t) THEN AttrTo(vs, "KF-C06-varchar-sentinel")
  ELSE IF \E t \in ts : t \in bt.stale THEN AttrTo(vs, "KF-C10-btree-reattach-after-crash")
  ELSE IF \E t \in ts : BtKnown(t) THEN AttrTo(vs, "KF-C17-btree-ffff-stopper")
  ELSE vs

BadValue(rows) == \E i \in DOMAIN rows : \E j \in DOMAIN rows[i] : rows[i][j] = -99

(* C14: "leaves no buffer frame pinned that was not pinned before it started": the set of pinned pages *)
PinnedPages(p) == {p[i][1] : i \in DOMAIN p}
PinCheck(e, ln) == IF Has(e, "pb") /\ PinnedPages(e.pb) # PinnedPages(e.pa) THEN V("C14.pins", ln, <<e.ev, e.pb, e.pa>>) ELSE <<>>
(* a statement of an explicit transaction may abort the transaction (the caller then rolls back) *)
(* so may a statement that runs against rows another open transaction has locked; a statement the planner   *)
(* rejects returns an error by design                                                                        *)
FailCheck(e, ln) == IF e.res # "ok" /\ ~((Has(e, "intxn") \/ Has(e, "conflict")) /\ e.res = "abort")
                       /\ ~(Has(e, "rejected") /\ SubSeq(e.res, 1, 3) = "err") THEN V(Tag(e, ".fail"), ln, <<e.ev, e.res>>) ELSE <<>>

Ordered(keys) == \A i \in 1..(Len(keys) - 1) : keys[i] <= keys[i + 1]
InRange(v, lo, hi) == v # Null /\ (lo = -2 \/ v >= lo) /\ (hi = -2 \/ v <= hi)
RangeRows(t, c, lo, hi) == SelectSeq(tables[t].rows, LAMBDA r : InRange(r[c + 1], lo, hi))

SelectCheck(e, ln) ==
  IF e.res # "ok" \/ Has(e, "rejected") THEN <<>>
  ELSE IF BadValue(e.rows) THEN V(Tag(e, ".value"), ln, <<e.ev, e.t>>)
  ELSE IF ~SameBag(e.rows, Answer(e.t, e.pred, e.proj))
         THEN V(Tag(e, ".rows"), ln, [stmt |-> <<e.t, e.pred, e.proj>>, plan |-> e.plan, got |-> e.rows,
                                      want |-> Answer(e.t, e.pred, e.proj)])
  ELSE <<>>

(* C06, plan level (spec/RangeDerivation): the interval the index range scan walks must contain every row *)
(* the predicate selects, and when nothing re-checks the predicate above the scan it must contain no other. *)
(* Decided on the rows of the table and on every variant of them (and of an all-zero row) whose indexed     *)
(* column takes each rank, so it does not depend on the data happening to expose the difference.            *)
Ranks == 0..5
ProbeRows(t, c) ==
  LET rs == tables[t].rows
      base == Range(rs) \cup {[i \in 1..Len(tables[t].cols) |-> 0]} IN
  base \cup {[r EXCEPT ![c + 1] = k] : r \in base, k \in Ranks}
RangePlanCheck(e, ln) ==
  IF ~Has(e, "rs") \/ e.res # "ok" \/ ~HasTable(e.t) THEN <<>>
  ELSE LET c == e.rs.c
           inIv(r) == InRange(r[c + 1], e.rs.lo, e.rs.hi)
           lost == {r \in ProbeRows(e.t, c) : Holds(e.pred, r) /\ ~inIv(r)}
           extra == {r \in ProbeRows(e.t, c) : ~Holds(e.pred, r) /\ inIv(r)} IN
       IF lost # {} THEN V(Tag(e, ".range"), ln, [stmt |-> <<e.t, e.pred>>, rs |-> e.rs, lost |-> CHOOSE r \in lost : TRUE])
       ELSE IF ~e.rs.sel /\ extra # {} THEN V(Tag(e, ".range"), ln, [stmt |-> <<e.t, e.pred>>, rs |-> e.rs, extra |-> CHOOSE r \in extra : TRUE])
       ELSE <<>>

IdxPointCheck(e, ln) ==
  IF e.res # "ok" THEN <<>>
  ELSE IF BadValue(e.rows) THEN V(Tag(e, ".value"), ln, <<e.ev, e.t>>)
  ELSE LET want == Filter(tables[e.t].rows, [k |-> "cmp", c |-> e.c, op |-> "=", v |-> e.v]) IN
       IF ~SameBag(e.rows, want) THEN V(Tag(e, ".rows"), ln, [idx |-> <<e.t, e.c, e.v, e.kind>>, got |-> e.rows, want |-> want]) ELSE <<>>

IdxRangeCheck(e, ln) ==
  IF e.res # "ok" THEN <<>>
  ELSE IF BadValue(e.rows) THEN V(Tag(e, ".value"), ln, <<e.ev, e.t>>)
  ELSE LET want == RangeRows(e.t, e.c, e.lo, e.hi) IN
       (IF ~SameBag(e.rows, want) THEN V(Tag(e, ".rows"), ln, [idx |-> <<e.t, e.c, e.lo, e.hi, e.kind>>, got |-> e.rows, want |-> want]) ELSE <<>>)
    \o (IF ~Ordered([i \in DOMAIN e.rows |-> e.rows[i][e.c + 1]]) THEN V(Tag(e, ".order"), ln, <<e.t, e.c, e.rows>>) ELSE <<>>)

JoinCheck(e, ln) ==
  IF e.res # "ok" THEN <<>>
  ELSE IF BadValue(e.rows) THEN V(Tag(e, ".value"), ln, <<e.ev>>)
  ELSE LET want == JoinAnswerBag(e.ts, e.on, e.filt, e.proj) IN
       (IF BagOfSeq(e.rows) # want THEN V(Tag(e, ".rows"), ln, [stmt |-> <<e.ts, e.on, e.filt, e.proj>>, plan |-> e.plan,
                                                             got |-> BagOfSeq(e.rows), want |-> want]) ELSE <<>>)
       \o (IF "JOINREF" \in DOMAIN IOEnv /\ want # JoinAnswerBagRef(e.ts, e.on, e.filt, e.proj)
             THEN V("oracle.join", ln, <<e.ts, e.on, e.filt, e.proj>>) ELSE <<>>)

TInit == Init /\ l = 1 /\ viol = <<>> /\ hadCrash = FALSE /\ hasBtree = FALSE /\ bt = BtInit

Ok(e) == e.res = "ok"

TNext ==
  /\ l <= TraceLen
  /\ LET e == TraceLog[l] IN
     CASE e.ev = "Reset" -> tables' = <<>> /\ snap' = <<>> /\ intxn' = FALSE /\ UNCHANGED viol /\ hadCrash' = FALSE /\ hasBtree' = FALSE /\ bt' = BtInit
       [] e.ev = "Create" -> /\ (IF Ok(e) /\ ~HasTable(e.t) THEN Create(e.t, e.cols) ELSE Stutter)
                             /\ hasBtree' = (hasBtree \/ (Has(e, "kinds") /\ \E i \in DOMAIN e.kinds : e.kinds[i] = "btree")) /\ UNCHANGED hadCrash
                             /\ bt' = BtCreate(e)
                             /\ viol' = AddViol(viol, FailCheck(e, l))   \* (CREATE pins its index header pages for good)
       [] e.ev = "Insert" -> /\ UNCHANGED <<hadCrash, hasBtree>> /\ bt' = BtInsert(e)
                             /\ (IF HasTable(e.t) /\ Ok(e)
                                   THEN IF Has(e, "other") /\ intxn THEN InsertByOther(e.t, e.rows) ELSE Insert(e.t, e.rows)
                                   ELSE Stutter)
                             /\ viol' = AddViol(viol, Attr(FailCheck(e, l), {e.t}) \o PinCheck(e, l))
       [] e.ev = "Update" -> /\ UNCHANGED <<hadCrash, hasBtree>> /\ bt' = BtUpdate(e)
                             /\ (IF HasTable(e.t) /\ Ok(e) THEN Update(e.t, e.pred, e.set) ELSE Stutter)
                             /\ viol' = AddViol(viol, Attr(FailCheck(e, l), {e.t}) \o RangePlanCheck(e, l) \o PinCheck(e, l))
       [] e.ev = "Delete" -> /\ UNCHANGED hvars
                             /\ (IF HasTable(e.t) /\ Ok(e) THEN Delete(e.t, e.pred) ELSE Stutter)
                             /\ viol' = AddViol(viol, Attr(FailCheck(e, l), {e.t}) \o RangePlanCheck(e, l) \o PinCheck(e, l))
       [] e.ev = "Select" -> /\ UNCHANGED hvars
                             /\ viol' = AddViol(viol, Attr(FailCheck(e, l) \o SelectCheck(e, l), {e.t}) \o RangePlanCheck(e, l) \o PinCheck(e, l))
                             /\ IF Has(e, "sync") /\ Ok(e) /\ ~BadValue(e.rows) /\ ~SameBag(e.rows, tables[e.t].rows)
                                  THEN tables' = Put(e.t, [tables[e.t] EXCEPT !.rows = e.rows]) /\ UNCHANGED <<snap, intxn>>
                                  ELSE Stutter
       [] e.ev = "IdxPoint" -> UNCHANGED hvars /\ Stutter /\ viol' = AddViol(viol, Attr(FailCheck(e, l) \o IdxPointCheck(e, l), {e.t}))
       [] e.ev = "IdxRange" -> UNCHANGED hvars /\ Stutter /\ viol' = AddViol(viol, Attr(FailCheck(e, l) \o IdxRangeCheck(e, l), {e.t}))
       [] e.ev = "Join" -> UNCHANGED hvars /\ Stutter /\ viol' = AddViol(viol, Attr(FailCheck(e, l) \o JoinCheck(e, l), {e.ts[i] : i \in DOMAIN e.ts}) \o PinCheck(e, l))
       [] e.ev = "Begin" -> UNCHANGED hvars /\ (IF ~intxn THEN Begin ELSE Stutter) /\ viol' = AddViol(viol, FailCheck(e, l))
       [] e.ev = "Commit" -> UNCHANGED hvars /\ (IF intxn THEN Commit ELSE Stutter) /\ viol' = AddViol(viol, FailCheck(e, l) \o PinCheck(e, l))
       [] e.ev = "Abort" -> UNCHANGED hvars /\ (IF intxn THEN Abort ELSE Stutter) /\ viol' = AddViol(viol, FailCheck(e, l) \o PinCheck(e, l))
       \* a window of concurrent statements on a table that is not modelled: only "nothing failed" and the pins
       [] e.ev = "Window" -> Stutter /\ UNCHANGED hvars /\ viol' = AddViol(viol, FailCheck(e, l) \o PinCheck(e, l))
       [] e.ev \in {"Stats", "Shutdown"} -> Stutter /\ viol' = AddViol(viol, FailCheck(e, l)) /\ UNCHANGED hvars
       [] e.ev = "Crash" -> Stutter /\ viol' = AddViol(viol, FailCheck(e, l)) /\ hadCrash' = TRUE /\ UNCHANGED hasBtree /\ bt' = [bt EXCEPT !.crashed = @ \cup bt.btTabs]
       [] e.ev = "Reopen" -> /\ Stutter /\ viol' = AddViol(viol, ReopenCheck(e, l)) /\ UNCHANGED <<hadCrash, hasBtree>>
                             /\ bt' = IF e.res = "ok" /\ l > 1 /\ TraceLog[l - 1].ev = "Shutdown" THEN [bt EXCEPT !.stale = @ \cup bt.crashed] ELSE bt
  /\ l' = l + 1

TSpec == TInit /\ [][TNext]_tvars
Done == (l = TraceLen + 1) => Emit(viol, l - 1)
==============================================================================
