------------------------------ MODULE LogBuffer ------------------------------
(***************************************************************************)
(* L1 mechanism specification of lib/recovery/log_manager.go under          *)
(* concurrency: AppendLogRecord (under `latch`, with the two "buffer full"  *)
(* exits that release the latch, call Flush and take the latch again) and   *)
(* Flush (under `wlogMutex`: swap the buffers under `latch`, then WriteLog  *)
(* outside it, then persistentLSN).  One action per critical section; the    *)
(* disk write is a separate step (the write is "in flight" in between).      *)
(* Sizes are in units: a header takes Hdr units, a record Hdr or Hdr + 1.    *)
(* Each thread appends its records and then forces the log (commit).         *)
(* Switches:                                                                 *)
(*   EarlyReturn  Flush returns at once when the buffer is empty, before      *)
(*                queueing behind a flush in flight (seeded change C08-A)     *)
(*   Recheck      after the second flush of AppendLogRecord the free space is *)
(*                checked again (the pinned tree does not: FALSE)            *)
(***************************************************************************)
EXTENDS Integers, Sequences, FiniteSets, TLC

CONSTANTS Thread, Cap, Hdr, MaxRec, EarlyReturn, Recheck
None == "-"

VARIABLES buf,      \* records in logBuffer, in order
          off,      \* LogManager.offset (units used)
          inflight, \* records handed to WriteLog, write not yet complete (<<>> when none)
          disk,     \* durable log: sequence of records
          nextLsn,
          latch, wmutex,      \* holders (None when free)
          pc,       \* [Thread -> label]
          cur,      \* [Thread -> the record being appended]
          ret,      \* [Thread -> label to continue at after Flush]
          nrec,     \* [Thread -> records appended so far]
          overflow  \* ghost: a record was written beyond the end of the buffer

vars == <<buf, off, inflight, disk, nextLsn, latch, wmutex, pc, cur, ret, nrec, overflow>>
Rec(t, n, size) == [t |-> t, n |-> n, size |-> size, lsn |-> -1]

Init == /\ buf = <<>> /\ off = 0 /\ inflight = <<>> /\ disk = <<>> /\ nextLsn = 0
        /\ latch = None /\ wmutex = None
        /\ pc = [t \in Thread |-> "idle"] /\ cur = [t \in Thread |-> Rec(t, 0, Hdr)]
        /\ ret = [t \in Thread |-> "idle"] /\ nrec = [t \in Thread |-> 0] /\ overflow = FALSE

(* ---- AppendLogRecord -------------------------------------------------------------------------- *)
Start(t) == /\ pc[t] = "idle" /\ nrec[t] < MaxRec
            /\ \E size \in {Hdr, Hdr + 1} : cur' = [cur EXCEPT ![t] = Rec(t, nrec[t] + 1, size)]
            /\ pc' = [pc EXCEPT ![t] = "a_lock"]
            /\ UNCHANGED <<buf, off, inflight, disk, nextLsn, latch, wmutex, ret, nrec, overflow>>
ALock(t) == /\ pc[t] = "a_lock" /\ latch = None /\ latch' = t          \* WLock; first test: room for a header?
            /\ pc' = [pc EXCEPT ![t] = "a_hdr"]
            /\ UNCHANGED <<buf, off, inflight, disk, nextLsn, wmutex, cur, ret, nrec, overflow>>
AHdr(t) == /\ pc[t] = "a_hdr" /\ latch = t
           /\ IF Cap - off < Hdr
                THEN /\ latch' = None /\ pc' = [pc EXCEPT ![t] = "f_enter"] /\ ret' = [ret EXCEPT ![t] = "a_relock1"]
                     /\ UNCHANGED <<cur, nextLsn>>
                ELSE /\ cur' = [cur EXCEPT ![t].lsn = nextLsn] /\ nextLsn' = nextLsn + 1     \* LSN assigned, header copied
                     /\ pc' = [pc EXCEPT ![t] = "a_body"] /\ UNCHANGED <<latch, ret>>
           /\ UNCHANGED <<buf, off, inflight, disk, wmutex, nrec, overflow>>
ARelock1(t) == /\ pc[t] = "a_relock1" /\ latch = None /\ latch' = t
               /\ cur' = [cur EXCEPT ![t].lsn = nextLsn] /\ nextLsn' = nextLsn + 1
               /\ pc' = [pc EXCEPT ![t] = "a_body"]
               /\ UNCHANGED <<buf, off, inflight, disk, wmutex, ret, nrec, overflow>>
ABody(t) == /\ pc[t] = "a_body" /\ latch = t                            \* second test: room for the whole record?
            /\ IF Cap - off < cur[t].size
                 THEN /\ latch' = None /\ pc' = [pc EXCEPT ![t] = "f_enter"] /\ ret' = [ret EXCEPT ![t] = "a_relock2"]
                 ELSE /\ pc' = [pc EXCEPT ![t] = "a_write"] /\ UNCHANGED <<latch, ret>>
            /\ UNCHANGED <<buf, off, inflight, disk, nextLsn, wmutex, cur, nrec, overflow>>
ARelock2(t) == /\ pc[t] = "a_relock2" /\ latch = None /\ latch' = t
               /\ pc' = [pc EXCEPT ![t] = IF Recheck THEN "a_body" ELSE "a_write"]
               /\ UNCHANGED <<buf, off, inflight, disk, nextLsn, wmutex, cur, ret, nrec, overflow>>
AWrite(t) == /\ pc[t] = "a_write" /\ latch = t
             /\ buf' = Append(buf, cur[t]) /\ off' = off + cur[t].size
             /\ overflow' = (overflow \/ off + cur[t].size > Cap)
             /\ latch' = None /\ nrec' = [nrec EXCEPT ![t] = @ + 1]
             /\ pc' = [pc EXCEPT ![t] = IF nrec[t] + 1 = MaxRec THEN "commit" ELSE "idle"]
             /\ UNCHANGED <<inflight, disk, nextLsn, wmutex, cur, ret>>
(* commit: force the log *)
Commit(t) == /\ pc[t] = "commit" /\ pc' = [pc EXCEPT ![t] = "f_enter"] /\ ret' = [ret EXCEPT ![t] = "done"]
             /\ UNCHANGED <<buf, off, inflight, disk, nextLsn, latch, wmutex, cur, nrec, overflow>>

(* ---- Flush -------------------------------------------------------------------------------------- *)
FEnter(t) == /\ pc[t] = "f_enter"
             /\ IF EarlyReturn /\ off = 0 /\ latch = None            \* (RLock; offset == 0; RUnlock)
                  THEN pc' = [pc EXCEPT ![t] = ret[t]]
                  ELSE pc' = [pc EXCEPT ![t] = "f_mutex"]
             /\ UNCHANGED <<buf, off, inflight, disk, nextLsn, latch, wmutex, cur, ret, nrec, overflow>>
FMutex(t) == /\ pc[t] = "f_mutex" /\ wmutex = None /\ wmutex' = t /\ pc' = [pc EXCEPT ![t] = "f_swap"]
             /\ UNCHANGED <<buf, off, inflight, disk, nextLsn, latch, cur, ret, nrec, overflow>>
FSwap(t) == /\ pc[t] = "f_swap" /\ latch = None                                  \* WLock .. swap .. WUnlock in one step
            /\ inflight' = buf /\ buf' = <<>> /\ off' = 0 /\ pc' = [pc EXCEPT ![t] = "f_write"]
            /\ UNCHANGED <<disk, nextLsn, latch, wmutex, cur, ret, nrec, overflow>>
FWrite(t) == /\ pc[t] = "f_write"                                                \* WriteLog completes
             /\ disk' = disk \o inflight /\ inflight' = <<>> /\ wmutex' = None
             /\ pc' = [pc EXCEPT ![t] = ret[t]]
             /\ UNCHANGED <<buf, off, nextLsn, latch, cur, ret, nrec, overflow>>
Finished == (\A t \in Thread : pc[t] = "done") /\ UNCHANGED vars

Next == Finished \/ \E t \in Thread : Start(t) \/ ALock(t) \/ AHdr(t) \/ ARelock1(t) \/ ABody(t) \/ ARelock2(t) \/ AWrite(t)
                                        \/ Commit(t) \/ FEnter(t) \/ FMutex(t) \/ FSwap(t) \/ FWrite(t)
Spec == Init /\ [][Next]_vars
FairSpec == Spec /\ WF_vars(Next)

--------------------------------------------------------------------------------
AllRecs == [i \in 1..(Len(disk) + Len(inflight) + Len(buf)) |->
              IF i <= Len(disk) THEN disk[i] ELSE IF i <= Len(disk) + Len(inflight) THEN inflight[i - Len(disk)]
              ELSE buf[i - Len(disk) - Len(inflight)]]
(* C08: the log is a sequence of complete records, each appended record exactly once, in per-thread order *)
NoDupNoLoss == /\ \A i, j \in DOMAIN AllRecs : i # j => <<AllRecs[i].t, AllRecs[i].n>> # <<AllRecs[j].t, AllRecs[j].n>>
               /\ \A t \in Thread : Cardinality({i \in DOMAIN AllRecs : AllRecs[i].t = t}) = nrec[t]
PerThreadOrder == \A i, j \in DOMAIN AllRecs : (i < j /\ AllRecs[i].t = AllRecs[j].t) => (AllRecs[i].n < AllRecs[j].n /\ AllRecs[i].lsn < AllRecs[j].lsn)
(* no record is written beyond the end of the buffer *)
NoOverflow == ~overflow
(* C08: a commit does not return before its records are on stable storage *)
ForcedAtReturn == \A t \in Thread : pc[t] = "done" => Cardinality({i \in DOMAIN disk : disk[i].t = t}) = MaxRec
(* liveness: every thread finishes *)
AllDone == <>(\A t \in Thread : pc[t] = "done")
================================================================================
