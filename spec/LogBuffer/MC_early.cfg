CONSTANTS
  Thread = {"t1", "t2"}
  Cap = 3
  Hdr = 1
  MaxRec = 2
  EarlyReturn = TRUE
  Recheck = TRUE
SPECIFICATION Spec
INVARIANTS NoDupNoLoss PerThreadOrder NoOverflow ForcedAtReturn
CHECK_DEADLOCK TRUE
