CONSTANTS
  Txn = {"t1", "t2"}
  Key = {1, 2}
  MaxVal = 30
  MaxStmt = 2
  FixKupd = FALSE
  AllowKupd = FALSE
SPECIFICATION Spec
VIEW ShapeView
CHECK_DEADLOCK FALSE
