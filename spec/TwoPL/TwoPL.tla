--------------------------------- MODULE TwoPL ---------------------------------
(***************************************************************************)
(* L1 mechanism specification of statement execution under no-wait strict  *)
(* two-phase row locking with index maintenance as the code times it:      *)
(*   table_page.go     read = shared lock or abort; write = exclusive lock *)
(*                     (upgrade only as sole shared holder) or abort       *)
(*   executors         point / range reads go through the index and fetch  *)
(*                     the rows (a fetched row whose lock is denied aborts  *)
(*                     the reader); a sequential read visits every slot     *)
(*   insert            heap row + index entry at execution                  *)
(*   delete            delete mark at execution; row and index entry are    *)
(*                     removed at commit                                    *)
(*   update            in place; a key change swaps the index entry AT      *)
(*                     EXECUTION (FixKupd = FALSE, as coded) or keeps the   *)
(*                     old entry until commit (FixKupd = TRUE)              *)
(*   commit / abort    transaction_manager.go: apply deletes / undo the     *)
(*                     write set last-to-first, then release all locks      *)
(* Statements are atomic steps (statement granularity, as in the schedule   *)
(* driver).  The contract (module TxnModel) is stated on ghost variables:    *)
(*   C04  every completed read returned exactly committed (+) own writes     *)
(*   C05  the dependency graph of the committed transactions is acyclic      *)
(***************************************************************************)
EXTENDS Integers, Sequences, FiniteSets, TLC

CONSTANTS Txn, Key, MaxVal, MaxStmt, FixKupd,
          AllowKupd    \* whether the workload contains key-changing updates

Rid == 1..(Cardinality(Key) + 2)
NoRow == [k |-> 0, v |-> 0, m |-> FALSE]            \* empty slot

VARIABLES row,    \* [Rid -> [k, v, m]]   heap slots (m = delete mark)
          idx,    \* set of <<key, rid>>  index entries
          sh, ex, \* lock tables: sh[r] = shared holders in the order they were granted (the code keeps a list), ex[r] = exclusive holder
          st,     \* [Txn -> "idle" | "active" | "done"]
          ws,     \* [Txn -> Seq of undo records [ty, rid, k, v]]
          n,      \* [Txn -> statements executed]
          nv,     \* next fresh version
          db,     \* ghost: committed set of <<k, v>>
          pend,   \* ghost: [Txn -> Seq of [op, k, k2, v]]
          reads, overw, owner, order,   \* ghost: dependency bookkeeping (as in TxnModel)
          bad     \* ghost: a completed read differed from the reference answer

vars == <<row, idx, sh, ex, st, ws, n, nv, db, pend, reads, overw, owner, order, bad>>

InitRows == [r \in Rid |-> IF r <= Cardinality(Key) THEN [k |-> r, v |-> r, m |-> FALSE] ELSE NoRow]
Init == /\ row = InitRows
        /\ idx = {<<r, r>> : r \in 1..Cardinality(Key)}
        /\ sh = [r \in Rid |-> <<>>] /\ ex = [r \in Rid |-> "none"]
        /\ st = [t \in Txn |-> "idle"] /\ ws = [t \in Txn |-> <<>>] /\ n = [t \in Txn |-> 0]
        /\ nv = Cardinality(Key) + 1
        /\ db = {<<r, r>> : r \in 1..Cardinality(Key)}
        /\ pend = [t \in Txn |-> <<>>] /\ reads = [t \in Txn |-> {}] /\ overw = [t \in Txn |-> {}]
        /\ owner = [v \in 1..Cardinality(Key) |-> "init"] /\ order = <<>> /\ bad = FALSE

(* ---- reference semantics (TxnModel) -------------------------------------------------------- *)
Apply1(t, w) ==
  CASE w.op = "ins" -> t \cup {<<w.k, w.v>>}
    [] w.op = "upd" -> {r \in t : r[1] # w.k} \cup {<<w.k, w.v>> : r \in {x \in t : x[1] = w.k}}
    [] w.op = "kupd" -> {r \in t : r[1] # w.k} \cup {<<w.k2, w.v>> : r \in {x \in t : x[1] = w.k}}
    [] w.op = "del" -> {r \in t : r[1] # w.k}
RECURSIVE ApplySeq(_, _)
ApplySeq(t, s) == IF s = <<>> THEN t ELSE ApplySeq(Apply1(t, Head(s)), Tail(s))
View(t) == ApplySeq(db, pend[t])
OwnVersions(t) == {pend[t][i].v : i \in DOMAIN pend[t]}

(* ---- locks (lock_manager.go, no wait) ------------------------------------------------------- *)
ShSet(r) == {sh[r][i] : i \in DOMAIN sh[r]}
CanS(t, r) == ex[r] \in {"none", t}
CanX(t, r) == ex[r] = t \/ (ex[r] = "none" /\ ShSet(r) \subseteq {t})
LockS(t, R) == [r \in Rid |-> IF r \in R /\ ex[r] # t /\ t \notin ShSet(r) THEN Append(sh[r], t) ELSE sh[r]]
Release(t) == /\ sh' = [r \in Rid |-> SelectSeq(sh[r], LAMBDA x : x # t)] /\ ex' = [r \in Rid |-> IF ex[r] = t THEN "none" ELSE ex[r]]

Active(t) == st[t] = "active" /\ n[t] < MaxStmt
AbortNow(t) ==   \* statement could not get a lock: the transaction is rolled back (undo last-to-first), locks released
  LET RECURSIVE Undo(_, _, _)
      Undo(rw, ix, s) == IF s = <<>> THEN [row |-> rw, idx |-> ix]
                         ELSE LET u == s[Len(s)]
                                  rest == SubSeq(s, 1, Len(s) - 1) IN
                              CASE u.ty = "ins" -> Undo([rw EXCEPT ![u.rid] = NoRow], ix \ {<<u.k, u.rid>>}, rest)
                                [] u.ty = "del" -> Undo([rw EXCEPT ![u.rid].m = FALSE], ix, rest)
                                [] u.ty = "upd" -> Undo([rw EXCEPT ![u.rid] = [k |-> u.k, v |-> u.v, m |-> FALSE]],
                                                        (ix \ {<<rw[u.rid].k, u.rid>>}) \cup {<<u.k, u.rid>>}, rest)
      r == Undo(row, idx, ws[t]) IN
  /\ row' = r.row /\ idx' = r.idx /\ Release(t)
  /\ st' = [st EXCEPT ![t] = "done"] /\ ws' = [ws EXCEPT ![t] = <<>>]
  /\ UNCHANGED <<n, nv, db, pend, reads, overw, owner, order, bad>>

Begin(t) == /\ st[t] = "idle" /\ st' = [st EXCEPT ![t] = "active"]
            /\ UNCHANGED <<row, idx, sh, ex, ws, n, nv, db, pend, reads, overw, owner, order, bad>>

(* rows a read returns: visible rows among the visited slots (own delete marks are skipped) *)
Result(t, R) == {<<row[r].k, row[r].v>> : r \in {x \in R : row[x].k # 0 /\ ~(row[x].m /\ ex[x] = t)}}
ReadDone(t, R, want) ==
  /\ sh' = LockS(t, R) /\ UNCHANGED ex
  /\ bad' = (bad \/ Result(t, R) # want)
  /\ reads' = [reads EXCEPT ![t] = @ \cup {x \in Result(t, R) : x[2] \notin OwnVersions(t)}]
  /\ n' = [n EXCEPT ![t] = @ + 1]
  /\ UNCHANGED <<row, idx, st, ws, nv, db, pend, overw, owner, order>>

(* point read through the index: fetch the rows the entries point to *)
PointRead(t, k) ==
  /\ Active(t)
  /\ LET R == {e[2] : e \in {x \in idx : x[1] = k}} IN
     IF \A r \in R : CanS(t, r)
       THEN ReadDone(t, {r \in R : row[r].k = k}, {x \in View(t) : x[1] = k})
       ELSE AbortNow(t)
(* sequential read: every occupied slot *)
SeqRead(t) ==
  /\ Active(t)
  /\ LET R == {r \in Rid : row[r].k # 0} IN
     IF \A r \in R : CanS(t, r) THEN ReadDone(t, R, View(t)) ELSE AbortNow(t)

FreeRid == CHOOSE r \in Rid : row[r].k = 0 /\ \A q \in Rid : q < r => row[q].k # 0
Ghost(t, w, hit) ==
  /\ pend' = [pend EXCEPT ![t] = Append(@, w)]
  /\ overw' = [overw EXCEPT ![t] = @ \cup {x[2] : x \in {y \in hit : y[2] \notin OwnVersions(t)}}]
  /\ owner' = IF w.op = "del" THEN owner ELSE [z \in DOMAIN owner \cup {w.v} |-> IF z = w.v THEN t ELSE owner[z]]
Insert(t, k) ==
  /\ Active(t) /\ nv <= MaxVal /\ \E r \in Rid : row[r].k = 0
  /\ ~\E x \in View(t) : x[1] = k                       \* (the workload keeps keys unique)
  /\ LET r == FreeRid IN
     IF CanX(t, r)
       THEN /\ row' = [row EXCEPT ![r] = [k |-> k, v |-> nv, m |-> FALSE]] /\ idx' = idx \cup {<<k, r>>}
            /\ ex' = [ex EXCEPT ![r] = t] /\ UNCHANGED sh
            /\ ws' = [ws EXCEPT ![t] = Append(@, [ty |-> "ins", rid |-> r, k |-> k, v |-> nv])]
            /\ Ghost(t, [op |-> "ins", k |-> k, k2 |-> k, v |-> nv], {})
            /\ nv' = nv + 1 /\ n' = [n EXCEPT ![t] = @ + 1]
            /\ UNCHANGED <<st, db, reads, order, bad>>
       ELSE AbortNow(t)
(* DELETE / UPDATE ... WHERE key = k : rows found through the index *)
Targets(t, k) == {r \in {e[2] : e \in {x \in idx : x[1] = k}} : row[r].k = k /\ ~(row[r].m /\ ex[r] = t)}
Delete(t, k) ==
  /\ Active(t)
  /\ LET R == Targets(t, k) IN
     IF \A r \in {e[2] : e \in {x \in idx : x[1] = k}} : CanX(t, r)
       THEN /\ row' = [r \in Rid |-> IF r \in R THEN [row[r] EXCEPT !.m = TRUE] ELSE row[r]]
            /\ ex' = [r \in Rid |-> IF r \in R THEN t ELSE ex[r]] /\ UNCHANGED <<sh, idx>>
            /\ ws' = [ws EXCEPT ![t] = @ \o [i \in 1..Cardinality(R) |-> [ty |-> "del", rid |-> CHOOSE r \in R : TRUE, k |-> k, v |-> 0]]]
            /\ Ghost(t, [op |-> "del", k |-> k, k2 |-> k, v |-> -1], {x \in View(t) : x[1] = k})
            /\ n' = [n EXCEPT ![t] = @ + 1]
            /\ UNCHANGED <<st, nv, db, reads, order, bad>>
       ELSE AbortNow(t)
Update(t, k, k2) ==    \* k2 = k: in-place value update; k2 # k: key-changing update
  /\ Active(t) /\ nv <= MaxVal
  /\ (k2 # k => ~\E x \in View(t) : x[1] = k2)
  /\ LET R == Targets(t, k) IN
     IF \A r \in {e[2] : e \in {x \in idx : x[1] = k}} : CanX(t, r)
       THEN /\ row' = [r \in Rid |-> IF r \in R THEN [k |-> k2, v |-> nv, m |-> FALSE] ELSE row[r]]
            /\ idx' = IF k2 = k THEN idx
                      ELSE IF FixKupd THEN idx \cup {<<k2, r>> : r \in R}                       \* old entry stays until commit
                      ELSE (idx \ {<<k, r>> : r \in R}) \cup {<<k2, r>> : r \in R}              \* swapped at execution
            /\ ex' = [r \in Rid |-> IF r \in R THEN t ELSE ex[r]] /\ UNCHANGED sh
            /\ ws' = [ws EXCEPT ![t] = @ \o [i \in 1..Cardinality(R) |->
                         LET r == CHOOSE x \in R : TRUE IN [ty |-> "upd", rid |-> r, k |-> row[r].k, v |-> row[r].v]]]
            /\ Ghost(t, [op |-> IF k2 = k THEN "upd" ELSE "kupd", k |-> k, k2 |-> k2, v |-> nv], {x \in View(t) : x[1] = k})
            /\ nv' = nv + 1 /\ n' = [n EXCEPT ![t] = @ + 1]
            /\ UNCHANGED <<st, db, reads, order, bad>>
       ELSE AbortNow(t)

KeyUpdate(t, k) == AllowKupd /\ Update(t, k, k + 20)

Commit(t) ==
  /\ st[t] = "active"
  /\ LET dels == {ws[t][i].rid : i \in {j \in DOMAIN ws[t] : ws[t][j].ty = "del"}}
         upds == {ws[t][i] : i \in {j \in DOMAIN ws[t] : ws[t][j].ty = "upd"}} IN
     /\ row' = [r \in Rid |-> IF r \in dels THEN NoRow ELSE row[r]]
     /\ idx' = (idx \ {e \in idx : e[2] \in dels})
                 \ (IF FixKupd THEN {<<u.k, u.rid>> : u \in {x \in upds : x.k # row[x.rid].k}} ELSE {})
  /\ Release(t)
  /\ db' = ApplySeq(db, pend[t]) /\ order' = Append(order, t)
  /\ st' = [st EXCEPT ![t] = "done"] /\ ws' = [ws EXCEPT ![t] = <<>>]
  /\ UNCHANGED <<n, nv, pend, reads, overw, owner, bad>>
Abort(t) == st[t] = "active" /\ AbortNow(t)

Next == \E t \in Txn : \/ Begin(t) \/ Commit(t) \/ Abort(t) \/ SeqRead(t)
                       \/ \E k \in Key : PointRead(t, k) \/ Delete(t, k) \/ Update(t, k, k) \/ Insert(t, k + 10)
                       \/ \E k \in Key : KeyUpdate(t, k)
Spec == Init /\ [][Next]_vars

--------------------------------------------------------------------------------
(* C04 *)
ReadsRight == ~bad
(* C05 *)
Committed == {order[i] : i \in DOMAIN order}
OwnerOf(v) == IF v \in DOMAIN owner THEN owner[v] ELSE "init"
Edge(a, b) == a # b /\ ( \/ \E r \in reads[b] : OwnerOf(r[2]) = a
                         \/ \E v \in overw[b] : OwnerOf(v) = a
                         \/ \E r \in reads[a] : r[2] \in overw[b] )
Acyclic == ~\E a \in Committed : \E b \in Committed : Edge(a, b) /\ Edge(b, a)       \* two transactions
(* at quiescence the heap, the index and the committed store agree (C07 at design level) *)
Quiescent == \A t \in Txn : st[t] # "active"
Agree == Quiescent => /\ {<<row[r].k, row[r].v>> : r \in {x \in Rid : row[x].k # 0}} = db
                      /\ idx = {<<row[r].k, r>> : r \in {x \in Rid : row[x].k # 0}}
LocksFree == Quiescent => \A r \in Rid : sh[r] = <<>> /\ ex[r] = "none"

(* Walk generation (bin/checks/c04.py): the state without version numbers and ghost bookkeeping.  Every walk of  *)
(* the graph explored under this view is a behaviour up to the choice of version numbers (MaxVal must not bind). *)
ShapeView == <<[r \in Rid |-> <<row[r].k, row[r].m>>], idx, sh, ex, st, n,
               [t \in Txn |-> [i \in DOMAIN ws[t] |-> <<ws[t][i].ty, ws[t][i].rid, ws[t][i].k>>]],
               [t \in Txn |-> [i \in DOMAIN pend[t] |-> <<pend[t][i].op, pend[t][i].k, pend[t][i].k2>>]],
               {x[1] : x \in db}>>
================================================================================
