CONSTANTS
  Txn = {"t1", "t2"}
  Key = {1, 2}
  MaxVal = 5
  MaxStmt = 2
  FixKupd = FALSE
  AllowKupd = TRUE
SPECIFICATION Spec
INVARIANTS ReadsRight Acyclic Agree LocksFree
CHECK_DEADLOCK FALSE
