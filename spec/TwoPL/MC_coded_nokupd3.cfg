CONSTANTS
  Txn = {"t1", "t2"}
  Key = {1, 2}
  MaxVal = 6
  MaxStmt = 3
  FixKupd = FALSE
  AllowKupd = FALSE
SPECIFICATION Spec
INVARIANTS ReadsRight Acyclic Agree LocksFree
CHECK_DEADLOCK FALSE
