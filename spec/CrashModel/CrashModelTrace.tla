--------------------------- MODULE CrashModelTrace ---------------------------
(* Deterministic trace specification over CrashModel.  Driver events move the *)
(* transaction state; every I/O event carries the observation made on the     *)
(* crash image taken right after it (restart outcome, rows recovered, whether *)
(* a new statement was accepted); a log write event also carries the          *)
(* observations on the torn variants of that write (crash inside it; judged   *)
(* against the state before it) and, nested, every crash point inside the     *)
(* recovery run.                                                              *)
(*   C01.restart  restart on a crash image failed / hung                      *)
(*   C01.lost     a row of a returned commit is missing or has an older value *)
(*   C01.refuse   the restarted database did not accept a new statement       *)
(*   C02.phantom  a recovered row was written by a transaction that was       *)
(*                neither committed nor committing (active, aborted, aborting)*)
(*   C02.partial  some but not all writes of a committing transaction present *)
(*   C02.restart  restart failed on an image whose history has unfinished or   *)
(*                aborted transactions                                         *)
(*   C02.unrestored a row updated / deleted by an unfinished or aborted        *)
(*                transaction does not hold its last committed value           *)
(*   C08.wal      a user-table page written with a page LSN not yet durable, or  *)
(*                linking to a next page whose NewTablePage record is not      *)
(*   C08.commit   a writing transaction's commit returned before its COMMIT   *)
(*                record was handed to WriteLog                               *)
(*   C08.log      a log write is not a sequence of complete records with      *)
(*                increasing LSNs per transaction and a correct prevLSN chain *)
(*   C08.died / C12.died  the engine process panicked during a concurrent      *)
(*                workload against a slow log device (log buffer overflow)     *)
(*   C20.*        the same observations on crash points inside recovery       *)
EXTENDS CrashModel, TraceKit

VARIABLES l, viol,
          durNew,    \* page ids whose NewTablePage record is in a completed log write
          writers,   \* engine transaction ids with a data record in a completed log write
          early      \* engine ids whose commit returned (CommitDone marker) before their COMMIT record was durable
tvars == <<cvars, l, viol, durNew, writers, early>>
xvars == <<durNew, writers, early>>
V(tag, ln, info) == <<[tag |-> tag, line |-> ln, info |-> info, kf |-> "new"]>>

RowsOf(p) == {<<p.rows[i][1], p.rows[i][2]>> : i \in DOMAIN p.rows}
OwnerState(v) == IF v \in DOMAIN owner THEN st[owner[v]] ELSE "unknown"

(* classify one observation against the acceptable set; pfx is "C01"/"C02" or "C20" *)
Classify(p, ln, c1, c2, what) ==
  IF p.restart # "ok" THEN V(c1 \o ".restart", ln, <<what, p.restart>>)
       \* no recovered state at all: with unfinished or aborted transactions in the history this is also C02's failure
       \o (IF c2 # c1 /\ \E t \in DOMAIN st : st[t] \in {"active", "committing", "aborting", "aborted"}
             THEN V(c2 \o ".restart", ln, <<what, p.restart>>) ELSE <<>>)
  ELSE LET T == RowsOf(p) IN
    (IF ~p.accepts THEN V(c1 \o ".refuse", ln, <<what>>) ELSE <<>>)
    \o (IF T \in Acceptable /\ Cardinality(T) = Len(p.rows) THEN <<>>
        ELSE LET phantom == {r \in T : OwnerState(r[2]) \notin {"committed", "committing"}}
                 lostK == {k \in KeysOf(db) : ~\E r \in T : r[1] = k /\ (r[2] = ValOf(db, k) \/ OwnerState(r[2]) = "committing")}
                 \* keys a committing transaction deletes may be absent
                 lostK2 == {k \in lostK : ~(k \notin KeysOf(T) /\ \E t \in Committing : \E i \in DOMAIN pend[t] : pend[t][i].op = "del" /\ pend[t][i].k = k)}
             IN (IF phantom # {} THEN V(c2 \o ".phantom", ln, <<what, phantom, [r \in phantom |-> OwnerState(r[2])]>>) ELSE <<>>)
             \o (IF lostK2 # {} THEN V(c1 \o ".lost", ln, <<what, "keys", lostK2, "committed", {r \in db : r[1] \in lostK2}, "found", {r \in T : r[1] \in lostK2}>>) ELSE <<>>)
             \* the same keys, seen from C02: a row that an unfinished or aborted transaction updated or deleted does not
             \* hold its last committed value after recovery
             \o (LET unrest == {k \in lostK2 : \E t \in DOMAIN st : st[t] \in {"active", "committing", "aborting", "aborted"}
                                                   /\ \E i \in DOMAIN pend[t] : pend[t][i].k = k /\ pend[t][i].op \in {"upd", "del"}} IN
                 IF unrest # {} THEN V(c2 \o ".unrestored", ln, <<what, "keys", unrest, "committed", {r \in db : r[1] \in unrest}, "found", {r \in T : r[1] \in unrest}>>) ELSE <<>>)
             \o (IF phantom = {} /\ lostK2 = {} THEN V(c2 \o ".partial", ln, <<what, "found", T, "committed", db>>) ELSE <<>>))

(* a leaf observation goes on: the restarted engine committed one more row (key 999999), crashed, and was started     *)
(* once more on what it left behind: the tables are the same (recovery repeated) and the row committed in between is   *)
(* there (a commit after an - interrupted - recovery is as durable as any other)                                        *)
Again(p, ln, c, what) ==
  IF ~Has(p, "again") THEN <<>>
  ELSE IF p.again.restart # "ok" THEN V(c \o ".restart", ln, <<what, "next start", p.again.restart>>)
  ELSE (IF RowsOf(p.again) # RowsOf(p) \/ Len(p.again.rows) # Len(p.rows)
          THEN V(c \o ".repeat", ln, <<what, "first", p.rows, "next start", p.again.rows>>) ELSE <<>>)
    \o (IF ~p.again.probe THEN V(c \o ".later", ln, <<what, "the row committed after the restart is gone at the next one">>) ELSE <<>>)

(* Known finding KF-C20-crash-after-log-truncation: recovery truncates the log (GCLogFile) and only then writes the     *)
(* records that carry the current log sequence number into the new log.  A crash between the two leaves an existing     *)
(* database with an EMPTY log: the next launch numbers its records from 1 again, below the LSNs stamped on the pages,    *)
(* and redo after a later crash skips them - the row committed after that launch is gone.  Signature: the nested crash  *)
(* point whose last completed recovery I/O call is the truncation, clause C20.later only.                                *)
KfTrunc(n, vs) == [i \in DOMAIN vs |-> IF Has(n, "afterKind") /\ n.afterKind = "GC" /\ vs[i].tag = "C20.later"
                                         THEN [vs[i] EXCEPT !.kf = "KF-C20-crash-after-log-truncation"] ELSE vs[i]]
RECURSIVE NestedChecks(_, _, _)
NestedChecks(ns, ln, i) ==
  IF i > Len(ns) THEN <<>>
  ELSE Classify(ns[i], ln, "C20", "C20", <<"crash inside recovery after its I/O call", ns[i].after>>)
       \o KfTrunc(ns[i], Again(ns[i], ln, "C20", <<"crash inside recovery after its I/O call", ns[i].after>>))
       \o NestedChecks(ns, ln, i + 1)
(* Known finding KF-C01-torn-page-inside-file: a page write that is torn INSIDE the db file (it does not extend the  *)
(* file; here: into a hole left by an earlier write of a higher page) leaves a page whose header and page LSN are new *)
(* and whose row bytes are old / zero.  The read is not short, nothing marks the page as incomplete, recovery trusts  *)
(* the LSN and skips the redo of its records.  (A torn write that extends the file is recognised by the short read    *)
(* and judged strictly.)  Signature: a torn variant of a page write with a negative cut.                              *)
KfTorn(vs) == [i \in DOMAIN vs |-> [vs[i] EXCEPT !.kf = "KF-C01-torn-page-inside-file"]]
RECURSIVE TornChecks(_, _, _)
TornChecks(ts, ln, i) ==
  IF i > Len(ts) THEN <<>>
  ELSE (IF ts[i].cut < 0
          THEN KfTorn(Classify(ts[i], ln, "C01", "C02", <<"crash inside this page write, torn inside the file at byte", -ts[i].cut>>)
                      \o Again(ts[i], ln, "C01", <<"crash inside this page write, torn inside the file at byte", -ts[i].cut>>))
          ELSE Classify(ts[i], ln, "C01", "C02", <<"crash inside this write, torn at byte", ts[i].cut>>)
               \o Again(ts[i], ln, "C01", <<"crash inside this write, torn at byte", ts[i].cut>>))
       \o TornChecks(ts, ln, i + 1)

ProbeChecks(e, ln) ==
  IF ~Has(e, "probe") THEN <<>>
  ELSE Classify(e.probe, ln, "C01", "C02", <<"crash after I/O call", e.io>>)
       \o Again(e.probe, ln, "C01", <<"crash after I/O call", e.io>>)
       \o NestedChecks(e.probe.nested, ln, 1)
       \o (IF Has(e, "torn") THEN TornChecks(e.torn, ln, 1) ELSE <<>>)

(* C08 on one log write *)
RECURSIVE LogOrder(_, _, _)
LogOrder(recs, last, ln) ==
  IF recs = <<>> THEN <<>>
  ELSE LET r == Head(recs)
           known == r[2] \in DOMAIN last
           bad == r[1] >= 0 /\ ( (known /\ r[1] <= last[r[2]]) \/ (known /\ r[3] # 6 /\ r[5] # last[r[2]]) )
       IN (IF bad THEN V("C08.log", ln, <<"record", r, "previous LSN of its transaction", IF known THEN last[r[2]] ELSE -1>>) ELSE <<>>)
          \o LogOrder(Tail(recs), IF r[1] >= 0 THEN Put(last, r[2], r[1]) ELSE last, ln)

TInit == Init /\ l = 1 /\ viol = <<>> /\ durNew = {} /\ writers = {} /\ early = {}
(* records of one log write: [lsn, txn, type, size, prevLSN, new page id] *)
NewPagesOf(recs) == {recs[i][6] : i \in {j \in DOMAIN recs : Len(recs[j]) >= 6 /\ recs[j][3] = 9}}
WritersOf(recs) == {recs[i][2] : i \in {j \in DOMAIN recs : recs[j][3] \in 1..5}}
CommitsOf(recs) == {recs[i][2] : i \in {j \in DOMAIN recs : recs[j][3] = 7}}
Stut == UNCHANGED cvars

TNext ==
  /\ l <= TraceLen
  /\ LET e == TraceLog[l] IN
     CASE e.ev = "Reset" -> /\ db' = {} /\ pend' = <<>> /\ st' = <<>> /\ owner' = <<>> /\ tid' = <<>>
                            /\ durMax' = -1 /\ durCommit' = {} /\ lastLsn' = <<>> /\ UNCHANGED viol
                            /\ durNew' = {} /\ writers' = {} /\ early' = {}
       [] e.ev \in {"Ddl", "ProbeFrom", "CkptStart", "CkptRet", "End", "StmtFail"} -> Stut /\ viol' = (IF e.ev = "StmtFail" THEN AddViol(viol, V("C01.refuse", l, <<e.res, e.sql>>)) ELSE viol)
       [] e.ev = "Begin" -> Begin(e.t, e.tid) /\ UNCHANGED viol
       [] e.ev = "Write" -> Write(e.t, [op |-> e.op, k |-> e.k, v |-> e.v]) /\ UNCHANGED viol
       [] e.ev = "CommitStart" -> CommitStart(e.t) /\ UNCHANGED viol
       [] e.ev = "CommitRet" -> /\ CommitRet(e.t)
                                /\ viol' = AddViol(viol, IF pend[e.t] # <<>> /\ tid[e.t] \notin durCommit
                                                           THEN V("C08.commit", l, <<e.t, "engine id", tid[e.t]>>) ELSE <<>>)
       [] e.ev = "AbortStart" -> AbortStart(e.t) /\ UNCHANGED viol
       [] e.ev = "AbortRet" -> AbortRet(e.t) /\ UNCHANGED viol
       [] e.ev = "CommitDone" -> \* concurrent runs: marker emitted inside Commit after its log force returned
                           /\ Stut /\ UNCHANGED <<viol, durNew, writers>>
                           /\ early' = IF e.tid \in durCommit THEN early ELSE early \cup {e.tid}
       [] e.ev = "WLog" -> /\ WriteLog(e.recs)
                           /\ durNew' = durNew \cup NewPagesOf(e.recs) /\ writers' = writers \cup WritersOf(e.recs) /\ UNCHANGED early
                           /\ viol' = AddViol(viol, (IF ~e.parsed THEN V("C08.log", l, <<"log write does not parse into complete records", e.bytes>>) ELSE <<>>)
                                                    \o LogOrder(e.recs, lastLsn, l) \o ProbeChecks(e, l)
                                                    \o (LET late == {t \in CommitsOf(e.recs) : t \in early /\ t \in writers \cup WritersOf(e.recs)} IN
                                                        IF late # {} THEN V("C08.commit", l, <<"commit returned before this log write completed; engine ids", late>>) ELSE <<>>))
       [] e.ev = "WPage" -> /\ Stut /\ UNCHANGED xvars
                            /\ viol' = AddViol(viol, (IF e.heap /\ e.lsn > durMax THEN V("C08.wal", l, <<"page", e.p, "page LSN", e.lsn, "durable up to", durMax>>) ELSE <<>>)
                                                     \o (IF e.heap /\ Has(e, "next") /\ e.next >= 0 /\ e.next \notin durNew
                                                           THEN V("C08.wal", l, <<"page", e.p, "links to page", e.next, "whose NewTablePage record is not durable; durable up to", durMax>>) ELSE <<>>)
                                                     \o ProbeChecks(e, l))
       [] e.ev = "GC" -> Stut /\ viol' = AddViol(viol, ProbeChecks(e, l))
       [] e.ev = "Died" -> \* the engine process ended with a panic in the middle of a concurrent workload (line added by the check)
                           Stut /\ viol' = AddViol(viol, V("C08.died", l, e.msg) \o V("C12.died", l, e.msg))
       [] e.ev = "IoFail" -> Stut /\ viol' = AddViol(viol, V("C12.died", l, <<e.res, e.sql>>))
  /\ (TraceLog[l].ev \in {"Reset", "WLog", "CommitDone", "WPage"} \/ UNCHANGED xvars)
  /\ l' = l + 1

TSpec == TInit /\ [][TNext]_tvars
Done == (l = TraceLen + 1) => Emit(viol, l - 1)
==============================================================================
