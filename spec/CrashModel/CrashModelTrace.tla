--------------------------- MODULE CrashModelTrace ---------------------------
(* Deterministic trace specification over CrashModel.  Driver events move the *)
(* transaction state; every I/O event carries the observation made on the     *)
(* crash image taken right after it (restart outcome, rows recovered, whether *)
(* a new statement was accepted), the same for torn variants of the next log  *)
(* write and, nested, for every crash point inside the recovery run.          *)
(*   C01.restart  restart on a crash image failed / hung                      *)
(*   C01.lost     a row of a returned commit is missing or has an older value *)
(*   C01.refuse   the restarted database did not accept a new statement       *)
(*   C02.phantom  a recovered row was written by a transaction that was       *)
(*                neither committed nor committing (active, aborted, aborting)*)
(*   C02.partial  some but not all writes of a committing transaction present *)
(*   C08.wal      a user-table page written with a page LSN not yet durable   *)
(*   C08.commit   a writing transaction's commit returned before its COMMIT   *)
(*                record was handed to WriteLog                               *)
(*   C08.log      a log write is not a sequence of complete records with      *)
(*                increasing LSNs per transaction and a correct prevLSN chain *)
(*   C20.*        the same observations on crash points inside recovery       *)
EXTENDS CrashModel, TraceKit

VARIABLES l, viol
tvars == <<cvars, l, viol>>
V(tag, ln, info) == <<[tag |-> tag, line |-> ln, info |-> info, kf |-> "new"]>>

RowsOf(p) == {<<p.rows[i][1], p.rows[i][2]>> : i \in DOMAIN p.rows}
OwnerState(v) == IF v \in DOMAIN owner THEN st[owner[v]] ELSE "unknown"

(* classify one observation against the acceptable set; pfx is "C01"/"C02" or "C20" *)
Classify(p, ln, c1, c2, what) ==
  IF p.restart # "ok" THEN V(c1 \o ".restart", ln, <<what, p.restart>>)
  ELSE LET T == RowsOf(p) IN
    (IF ~p.accepts THEN V(c1 \o ".refuse", ln, <<what>>) ELSE <<>>)
    \o (IF T \in Acceptable /\ Cardinality(T) = Len(p.rows) THEN <<>>
        ELSE LET phantom == {r \in T : OwnerState(r[2]) \notin {"committed", "committing"}}
                 lostK == {k \in KeysOf(db) : ~\E r \in T : r[1] = k /\ (r[2] = ValOf(db, k) \/ OwnerState(r[2]) = "committing")}
                 \* keys a committing transaction deletes may be absent
                 lostK2 == {k \in lostK : ~(k \notin KeysOf(T) /\ \E t \in Committing : \E i \in DOMAIN pend[t] : pend[t][i].op = "del" /\ pend[t][i].k = k)}
             IN (IF phantom # {} THEN V(c2 \o ".phantom", ln, <<what, phantom, [r \in phantom |-> OwnerState(r[2])]>>) ELSE <<>>)
             \o (IF lostK2 # {} THEN V(c1 \o ".lost", ln, <<what, "keys", lostK2, "committed", {r \in db : r[1] \in lostK2}, "found", {r \in T : r[1] \in lostK2}>>) ELSE <<>>)
             \o (IF phantom = {} /\ lostK2 = {} THEN V(c2 \o ".partial", ln, <<what, "found", T, "committed", db>>) ELSE <<>>))

RECURSIVE NestedChecks(_, _, _)
NestedChecks(ns, ln, i) ==
  IF i > Len(ns) THEN <<>>
  ELSE Classify(ns[i], ln, "C20", "C20", <<"crash inside recovery after its I/O call", ns[i].after>>) \o NestedChecks(ns, ln, i + 1)
RECURSIVE TornChecks(_, _, _)
TornChecks(ts, ln, i) ==
  IF i > Len(ts) THEN <<>>
  ELSE Classify(ts[i], ln, "C01", "C02", <<"next log write torn at byte", ts[i].cut>>) \o TornChecks(ts, ln, i + 1)

ProbeChecks(e, ln) ==
  IF ~Has(e, "probe") THEN <<>>
  ELSE Classify(e.probe, ln, "C01", "C02", <<"crash after I/O call", e.io>>)
       \o NestedChecks(e.probe.nested, ln, 1)
       \o (IF Has(e, "torn") THEN TornChecks(e.torn, ln, 1) ELSE <<>>)

(* C08 on one log write *)
RECURSIVE LogOrder(_, _, _)
LogOrder(recs, last, ln) ==
  IF recs = <<>> THEN <<>>
  ELSE LET r == Head(recs)
           known == r[2] \in DOMAIN last
           bad == r[1] >= 0 /\ ( (known /\ r[1] <= last[r[2]]) \/ (known /\ r[3] # 6 /\ r[5] # last[r[2]]) )
       IN (IF bad THEN V("C08.log", ln, <<"record", r, "previous LSN of its transaction", IF known THEN last[r[2]] ELSE -1>>) ELSE <<>>)
          \o LogOrder(Tail(recs), IF r[1] >= 0 THEN Put(last, r[2], r[1]) ELSE last, ln)

TInit == Init /\ l = 1 /\ viol = <<>>
Stut == UNCHANGED cvars

TNext ==
  /\ l <= TraceLen
  /\ LET e == TraceLog[l] IN
     CASE e.ev = "Reset" -> /\ db' = {} /\ pend' = <<>> /\ st' = <<>> /\ owner' = <<>> /\ tid' = <<>>
                            /\ durMax' = -1 /\ durCommit' = {} /\ lastLsn' = <<>> /\ UNCHANGED viol
       [] e.ev \in {"Ddl", "CkptStart", "CkptRet", "End", "StmtFail"} -> Stut /\ viol' = (IF e.ev = "StmtFail" THEN AddViol(viol, V("C01.refuse", l, <<e.res, e.sql>>)) ELSE viol)
       [] e.ev = "Begin" -> Begin(e.t, e.tid) /\ UNCHANGED viol
       [] e.ev = "Write" -> Write(e.t, [op |-> e.op, k |-> e.k, v |-> e.v]) /\ UNCHANGED viol
       [] e.ev = "CommitStart" -> CommitStart(e.t) /\ UNCHANGED viol
       [] e.ev = "CommitRet" -> /\ CommitRet(e.t)
                                /\ viol' = AddViol(viol, IF pend[e.t] # <<>> /\ tid[e.t] \notin durCommit
                                                           THEN V("C08.commit", l, <<e.t, "engine id", tid[e.t]>>) ELSE <<>>)
       [] e.ev = "AbortStart" -> AbortStart(e.t) /\ UNCHANGED viol
       [] e.ev = "AbortRet" -> AbortRet(e.t) /\ UNCHANGED viol
       [] e.ev = "WLog" -> /\ WriteLog(e.recs)
                           /\ viol' = AddViol(viol, (IF ~e.parsed THEN V("C08.log", l, <<"log write does not parse into complete records", e.bytes>>) ELSE <<>>)
                                                    \o LogOrder(e.recs, lastLsn, l) \o ProbeChecks(e, l))
       [] e.ev = "WPage" -> /\ Stut
                            /\ viol' = AddViol(viol, (IF e.heap /\ e.lsn > durMax THEN V("C08.wal", l, <<"page", e.p, "page LSN", e.lsn, "durable up to", durMax>>) ELSE <<>>)
                                                     \o ProbeChecks(e, l))
       [] e.ev = "GC" -> Stut /\ viol' = AddViol(viol, ProbeChecks(e, l))
  /\ l' = l + 1

TSpec == TInit /\ [][TNext]_tvars
Done == (l = TraceLen + 1) => Emit(viol, l - 1)
==============================================================================
