------------------------------ MODULE CrashModel ------------------------------
(***************************************************************************)
(* L0 contract for crashes (C01, C02, C08, C20): what may be found after a *)
(* crash and restart, stated over transactions and their writes only.      *)
(*  - a table is a set of <<key, version>> pairs (keys are unique, every   *)
(*    write stores a fresh version number, so a row identifies its writer);*)
(*  - a transaction's writes take effect, in order, on the committed       *)
(*    table when its commit returns; between CommitStart and CommitRet it  *)
(*    is "committing" and may or may not survive a crash, as a whole;      *)
(*  - Acceptable = { committed table + the writes of S : S a subset of     *)
(*    the committing transactions }.                                       *)
(* Storage boundary (C08): the durable log is what WriteLog was handed;    *)
(* a user-table page may only be written when its page LSN is durable; a   *)
(* writing transaction's COMMIT record must be durable when commit returns.*)
(***************************************************************************)
EXTENDS Integers, Sequences, FiniteSets, TLC

VARIABLES db,        \* committed table: set of <<k, v>>
          pend,      \* [txn -> Seq of [op, k, v]] effective writes in order
          st,        \* [txn -> "active" | "committing" | "aborting" | "committed" | "aborted"]
          owner,     \* [version -> txn]  (who wrote a version)
          tid,       \* [txn -> engine transaction id]
          durMax,    \* largest durable LSN
          durCommit, \* engine ids with a durable COMMIT record
          lastLsn    \* [engine id -> last LSN seen in the durable log]

cvars == <<db, pend, st, owner, tid, durMax, durCommit, lastLsn>>

Init == /\ db = {} /\ pend = <<>> /\ st = <<>> /\ owner = <<>> /\ tid = <<>>
        /\ durMax = -1 /\ durCommit = {} /\ lastLsn = <<>>

Put(f, x, y) == [z \in DOMAIN f \cup {x} |-> IF z = x THEN y ELSE f[z]]
KeysOf(t) == {r[1] : r \in t}
ValOf(t, k) == (CHOOSE r \in t : r[1] = k)[2]

(* one write against a table *)
Apply1(t, w) == CASE w.op = "ins" -> IF w.k \in KeysOf(t) THEN t ELSE t \cup {<<w.k, w.v>>}
                  [] w.op = "upd" -> IF w.k \in KeysOf(t) THEN {r \in t : r[1] # w.k} \cup {<<w.k, w.v>>} ELSE t
                  [] w.op = "del" -> {r \in t : r[1] # w.k}
RECURSIVE ApplySeq(_, _)
ApplySeq(t, ws) == IF ws = <<>> THEN t ELSE ApplySeq(Apply1(t, Head(ws)), Tail(ws))
RECURSIVE ApplyTxns(_, _)
ApplyTxns(t, S) == IF S = {} THEN t ELSE LET x == CHOOSE y \in S : TRUE IN ApplyTxns(ApplySeq(t, pend[x]), S \ {x})

Committing == {t \in DOMAIN st : st[t] = "committing"}
(* transactions do not write the same key concurrently (row locks), so the order inside S is irrelevant *)
Acceptable == {ApplyTxns(db, S) : S \in SUBSET Committing}

(* ---- actions ------------------------------------------------------------------------------ *)
Begin(t, id) == /\ st' = Put(st, t, "active") /\ pend' = Put(pend, t, <<>>) /\ tid' = Put(tid, t, id)
                /\ UNCHANGED <<db, owner, durMax, durCommit, lastLsn>>
(* a write is effective only on a row the transaction can see (committed data + its own writes) *)
Effective(t, w) == LET view == ApplySeq(db, pend[t]) IN
                   IF w.op = "ins" THEN w.k \notin KeysOf(view) ELSE w.k \in KeysOf(view)
Write(t, w) == /\ pend' = IF Effective(t, w) THEN [pend EXCEPT ![t] = Append(@, w)] ELSE pend
               /\ owner' = IF w.op # "del" THEN Put(owner, w.v, t) ELSE owner
               /\ UNCHANGED <<db, st, tid, durMax, durCommit, lastLsn>>
CommitStart(t) == st' = [st EXCEPT ![t] = "committing"] /\ UNCHANGED <<db, pend, owner, tid, durMax, durCommit, lastLsn>>
CommitRet(t) == /\ db' = ApplySeq(db, pend[t]) /\ st' = [st EXCEPT ![t] = "committed"]
                /\ UNCHANGED <<pend, owner, tid, durMax, durCommit, lastLsn>>
AbortStart(t) == st' = [st EXCEPT ![t] = "aborting"] /\ UNCHANGED <<db, pend, owner, tid, durMax, durCommit, lastLsn>>
AbortRet(t) == st' = [st EXCEPT ![t] = "aborted"] /\ UNCHANGED <<db, pend, owner, tid, durMax, durCommit, lastLsn>>

(* recs: sequence of <<lsn, engine id, type, size, prevLSN>>; type 7 = COMMIT *)
RECURSIVE MaxLsn(_, _)
MaxLsn(recs, m) == IF recs = <<>> THEN m ELSE MaxLsn(Tail(recs), IF Head(recs)[1] > m THEN Head(recs)[1] ELSE m)
RECURSIVE LastOf(_, _)
LastOf(recs, f) == IF recs = <<>> THEN f
                   ELSE LET r == Head(recs) IN LastOf(Tail(recs), IF r[1] >= 0 THEN Put(f, r[2], r[1]) ELSE f)
WriteLog(recs) == /\ durMax' = MaxLsn(recs, durMax)
                  /\ durCommit' = durCommit \cup {recs[i][2] : i \in {j \in DOMAIN recs : recs[j][3] = 7}}
                  /\ lastLsn' = LastOf(recs, lastLsn)
                  /\ UNCHANGED <<db, pend, st, owner, tid>>
================================================================================
