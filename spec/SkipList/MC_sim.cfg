SPECIFICATION Spec
CONSTANTS
  t1 = t1
  t2 = t2
  t3 = t3
  K = 6
  Vals <- V2
  Cap = 3
  StartExtra = 0
  MaxLevel = 2
  MaxNodes = 6
  Thread <- T3
  Ops <- AllOps
  MaxOps = 3
  Loader = t1
  LoadOps = 5
  LoadSeq <- NoLoad
  Reuse = TRUE
  FreshAbove = TRUE
  NilForGone = TRUE
  Validate = TRUE
  BumpOnRemove = TRUE
  BumpOnEntry = TRUE
VIEW View
INVARIANTS NoError StructureOK
