------------------------------- MODULE SkipList -------------------------------
(* L1 specification of the on-page skip list (lib/container/skip_list/skip_list.go,                        *)
(* skip_list_iterator.go, lib/storage/page/skip_list_page/skip_list_block_page.go).                        *)
(*                                                                                                         *)
(* State: nodes (pages) with a sorted set of entries, a level, forward pointers per level and an update    *)
(* counter (the page LSN field), one reader/writer latch per node, and per thread the local variables of   *)
(* FindNode / Insert / Remove / GetValue / the iterator.  One action per latch acquisition (the only       *)
(* blocking points) - everything a thread does between two acquisitions touches only nodes it has latched  *)
(* (or its own locals) and is folded into the step that follows the acquisition:                           *)
(*   FStart      latch the start node                              (FindNode, head)                        *)
(*   FLatch      latch curr; break or move forward (unlatch pred)  (FindNode, inner loop)                  *)
(*   FAfter      after the inner loop of one level: record corners, or - Remove, level > 1, pred is the    *)
(*               single-entry node holding the key - release everything and go back to pred's pred         *)
(*   FBack       re-latch pred's pred and validate its counter     (FindNode, "go backward")               *)
(*   NIns/NRem/NGet  the node-level operation under the latch FindNode returned with; a full node / the    *)
(*               last entry of a node releases the latch and starts validation                             *)
(*   VStep/VAdd  validateNoChangeAndGetLock: latch the corners from the top level down, compare counters   *)
(*   SSplit      SplitNode + newNodeAndUpdateChain + insert        (all latched)                           *)
(*   RUnlink     unlink the node at every level, mark it removed   (all latched)                           *)
(*   ScNode/ScNext  iterator: collect the entries of one node, latch the next node then unlatch this one   *)
(* A failed validation releases everything and restarts the operation (the retry loops of Insert/Remove).  *)
(*                                                                                                         *)
(* abs is the abstract map (key -> value) updated at the step that changes the entries; GetValue, the      *)
(* result of Remove and scans are judged against it (scan: every key present during the whole scan is      *)
(* returned, nothing is returned that was never present during the scan).                                  *)
(*                                                                                                         *)
(* Deliberate abstractions: pins are not modelled (C14 observes them); removed nodes stay readable with    *)
(* their last content and their ids are handed out again only when Reuse = TRUE (real: after the frame of  *)
(* the removed page was evicted); the level of a new node is any level (real: geometric).                  *)
EXTENDS Integers, Sequences, FiniteSets, TLC

CONSTANTS K,          \* user keys 1..K   (0 = -infinity entry of the start node, K+1 = +infinity of the sentinel)
          Vals,       \* values
          Cap,        \* entries a node holds
          StartExtra, \* the start node holds Cap + StartExtra entries including its -infinity entry (fixed-size keys: 0;
                      \* long strings, where capacity is a matter of bytes and the -infinity entry is short: 1)
          MaxLevel,   \* length of the forward list
          MaxNodes,   \* node ids 1..MaxNodes can be allocated; 0 = start node, MaxNodes + 1 = sentinel
          Thread,
          Ops,        \* subset of {"ins", "rem", "get", "scan"}
          MaxOps,     \* operations per thread
          Loader,     \* one thread first performs LoadOps insertions alone (the structures the concurrent part starts from)
          LoadOps,
          LoadSeq,    \* <<>> (any LoadOps insertions of absent keys, any levels) or the sequence of <<key, level>> to load
          Reuse,      \* BOOLEAN: the frame of a removed node may be evicted and its id handed out again
          FreshAbove, \* BOOLEAN: a new node's update counter starts above the counter of every removed node (FALSE: at 0,
                      \*          the code before the repair of KF-C17-skiplist-page-id-reuse)
          NilForGone, \* BOOLEAN: fetching the id of a removed node whose frame was evicted fails (FALSE: the fetch reads
                      \*          whatever the file holds under that id - an older image of the node, or zeros)
          Validate,   \* BOOLEAN: FALSE = counters are not compared (defect switch)
          BumpOnRemove, \* BOOLEAN: FALSE = a removed node keeps its counter (defect switch)
          BumpOnEntry   \* BOOLEAN: FALSE = removing an entry from a node that keeps others leaves the counter (defect switch)

Keys   == 1..K
InfMin == 0
InfMax == K + 1
START  == 0
SENT   == MaxNodes + 1
NodeId == 0..SENT
None   == -1
Levels == 1..MaxLevel
NoCorner == <<None, -1>>

VARIABLES node,    \* [NodeId -> [st, keys, val, level, fwd, ctr]]
          latch,   \* [NodeId -> [w : Thread \cup {None}, r : SUBSET Thread]]
          th,      \* [Thread -> local state]
          abs,     \* [Keys -> Vals \cup {None}]
          err,     \* "" or a description of something the code must never do
          ret,     \* [Thread -> what the thread's last completed operation returned] (output only: not in the VIEW)
          hw       \* the highest update counter a removed node ever had (process-wide)

vars == <<node, latch, th, abs, err, ret, hw>>

MinOf(S) == CHOOSE x \in S : \A y \in S : x <= y
MaxOf(S) == CHOOSE x \in S : \A y \in S : x >= y
Smallest(n) == MinOf(node[n].keys)
CapOf(n) == IF n = START THEN Cap + StartExtra ELSE Cap
\* SplitNode: the sorted entries e[0..cnt-1] are cut behind index cnt \div 2
LowPart(S)  == {x \in S : Cardinality({y \in S : y < x}) <= Cardinality(S) \div 2}
HighPart(S) == S \ LowPart(S)

EmptyNode == [st |-> "free", keys |-> {}, val |-> <<>>, level |-> 0, fwd |-> [i \in Levels |-> None], ctr |-> 0]
IdleTh == [pc |-> "idle", op |-> "none", key |-> 0, val |-> None, hi |-> 0, n |-> 0, ii |-> 0, pred |-> None,
           curr |-> None, pop |-> NoCorner, corners |-> [i \in Levels |-> NoCorner], pocs |-> [i \in Levels |-> NoCorner],
           lvl |-> 0, chk |-> <<>>, vi |-> 0, held |-> <<>>, prev |-> None, add |-> NoCorner,
           res |-> {}, must |-> {}, may |-> {}]

InitNodesAt(c) == [n \in NodeId |->
               IF n = START THEN [st |-> "live", keys |-> {InfMin}, val |-> <<>>, level |-> 1,
                                  fwd |-> [i \in Levels |-> SENT], ctr |-> c]
               ELSE IF n = SENT THEN [st |-> "live", keys |-> {InfMax}, val |-> <<>>, level |-> MaxLevel,
                                      fwd |-> [i \in Levels |-> None], ctr |-> c]
               ELSE EmptyNode]
InitNodes == InitNodesAt(IF FreshAbove THEN 1 ELSE 0)
Init ==
  /\ node = InitNodes
  /\ latch = [n \in NodeId |-> [w |-> None, r |-> {}]]
  /\ th = [t \in Thread |-> IdleTh]
  /\ abs = [k \in Keys |-> None]
  /\ err = ""
  /\ ret = [t \in Thread |-> "none"]
  /\ hw = 0

(* ---- latches ------------------------------------------------------------------------------------------ *)
Mode(t) == IF th[t].op \in {"get", "scan"} THEN "r" ELSE "w"
Can(l, n, t, m) == IF m = "r" THEN l[n].w = None ELSE l[n].w = None /\ l[n].r = {}
Holds(l, n, t, m) == IF m = "r" THEN t \in l[n].r ELSE l[n].w = t
Acq(l, n, t, m) == IF m = "r" THEN [l EXCEPT ![n].r = @ \cup {t}] ELSE [l EXCEPT ![n].w = t]
Rel(l, n, t, m) == IF m = "r" THEN [l EXCEPT ![n].r = @ \ {t}] ELSE [l EXCEPT ![n].w = None]
RECURSIVE RelAll(_, _, _)
RelAll(l, ns, t) == IF ns = <<>> THEN l ELSE RelAll(Rel(l, Head(ns), t, "w"), Tail(ns), t)

\* "free": never used; "gone": a removed node whose frame was evicted - the id waits for its next owner
Fetchable(n) == n # None /\ node[n].st # "free" /\ (NilForGone => node[n].st # "gone")

Fail(msg) == /\ err' = msg
             /\ UNCHANGED <<node, latch, th, abs>>

(* where the inner loop of FindNode goes next from pred p at level i: break at once (start node whose      *)
(* forward entry is the sentinel) or fetch and latch the forward node                                       *)
LoopTarget(p, i, oldcurr) ==
  IF p = START /\ node[p].fwd[i] = SENT THEN [pc |-> "f_after", curr |-> oldcurr]
  ELSE [pc |-> "f_latch", curr |-> node[p].fwd[i]]

(* scans in progress remember which keys were present all the time / at some time *)
Track(tt, newabs) ==
  [t \in Thread |-> IF tt[t].op = "scan" /\ tt[t].pc # "idle"
                      THEN LET inr == {k \in Keys : newabs[k] # None /\ k >= tt[t].key /\ k <= tt[t].hi}
                           IN [tt[t] EXCEPT !.must = @ \cap inr, !.may = @ \cup inr]
                      ELSE tt[t]]

FreeIds == {n \in 1..MaxNodes : node[n].st \in {"free", "gone"} /\ latch[n].w = None /\ latch[n].r = {}}
Splitters == {t \in Thread : th[t].op = "ins" /\ th[t].pc # "idle"}

(* ---- operations ---------------------------------------------------------------------------------------- *)
Begin(t) ==
  /\ th[t].pc = "idle" /\ err = ""
  /\ th[t].n < MaxOps + (IF t = Loader THEN LoadOps ELSE 0)
  /\ t # Loader => th[Loader].n > LoadOps \/ (th[Loader].n = LoadOps /\ th[Loader].pc = "idle")
  /\ \E op \in Ops \cup {"ins"}, k \in Keys, v \in Vals, hi \in Keys :
       /\ IF t = Loader /\ th[t].n < LoadOps
            THEN op = "ins" /\ abs[k] = None /\ (LoadSeq # <<>> => k = LoadSeq[th[t].n + 1][1])
            ELSE op \in Ops
       /\ op = "ins" => Cardinality(FreeIds) > Cardinality(Splitters)    \* (the model's pool is never exhausted)
       /\ op # "scan" => hi = k
       /\ op \in {"rem", "get", "scan"} => v = MinOf(Vals)
       /\ op = "scan" => hi >= k
       /\ LET inr == {x \in Keys : abs[x] # None /\ x >= k /\ x <= hi}
          IN th' = [th EXCEPT ![t] = [IdleTh EXCEPT !.pc = "f_start", !.op = op, !.key = k, !.val = v, !.hi = hi,
                                                  !.n = th[t].n + 1, !.must = inr, !.may = inr]]
  /\ UNCHANGED <<node, latch, abs, err>>

Finish(tt, t) == [tt EXCEPT ![t] = [IdleTh EXCEPT !.n = tt[t].n]]
Retry(tt, t) == [tt EXCEPT ![t] = [IdleTh EXCEPT !.pc = "f_start", !.op = tt[t].op, !.key = tt[t].key, !.val = tt[t].val,
                                                 !.hi = tt[t].hi, !.n = tt[t].n, !.must = tt[t].must, !.may = tt[t].may,
                                                 !.res = tt[t].res]]

FStart(t) ==
  /\ th[t].pc = "f_start"
  /\ Can(latch, START, t, Mode(t))
  /\ latch' = Acq(latch, START, t, Mode(t))
  /\ LET tg == LoopTarget(START, MaxLevel, None)
     IN th' = [th EXCEPT ![t].pc = tg.pc, ![t].curr = tg.curr, ![t].pred = START, ![t].ii = MaxLevel,
                         ![t].pop = NoCorner]
  /\ UNCHANGED <<node, abs, err>>

FLatch(t) ==
  /\ th[t].pc = "f_latch"
  /\ LET c == th[t].curr  p == th[t].pred  m == Mode(t) IN
     IF ~Fetchable(c) THEN Fail("FindNode: forward entry names a page that cannot be fetched")
     ELSE /\ Can(latch, c, t, m)
          /\ IF Smallest(c) > th[t].key
               THEN /\ latch' = Acq(latch, c, t, m)
                    /\ th' = [th EXCEPT ![t].pc = "f_after"]
               ELSE \* keep moving forward: remember pred as pred-of-pred, unlatch it
                    /\ latch' = Rel(Acq(latch, c, t, m), p, t, m)
                    /\ LET tg == LoopTarget(c, th[t].ii, c)
                       IN th' = [th EXCEPT ![t].pop = <<p, node[p].ctr>>, ![t].pred = c, ![t].pc = tg.pc, ![t].curr = tg.curr]
          /\ UNCHANGED <<node, abs, err>>

NodeOpPc(op) == CASE op = "ins" -> "n_ins" [] op = "rem" -> "n_rem" [] op = "get" -> "n_get" [] op = "scan" -> "sc_node"

FAfter(t) ==
  /\ th[t].pc = "f_after"
  /\ LET p == th[t].pred  c == th[t].curr  i == th[t].ii  m == Mode(t) IN
     IF th[t].op = "rem" /\ i # 1 /\ Cardinality(node[p].keys) = 1 /\ th[t].key \in node[p].keys
       THEN \* the node to be removed was reached above level 1: its corner at this level is pred's pred
            IF c = None \/ ~Holds(latch, c, t, m) THEN Fail("FindNode: unlatch of a node that is not latched (go backward)")
            ELSE /\ latch' = Rel(Rel(latch, c, t, m), p, t, m)
                 /\ th' = [th EXCEPT ![t].pocs[i] = NoCorner, ![t].corners[i] = th[t].pop, ![t].pc = "f_back"]
                 /\ UNCHANGED <<node, abs, err>>
       ELSE IF c # None /\ ~Holds(latch, c, t, m) THEN Fail("FindNode: unlatch of a node that is not latched")
       ELSE /\ latch' = IF c # None THEN Rel(latch, c, t, m) ELSE latch
            /\ LET t1 == [th[t] EXCEPT !.pocs[i] = th[t].pop, !.corners[i] = <<p, node[p].ctr>>]
               IN IF i = 1 THEN th' = [th EXCEPT ![t] = [t1 EXCEPT !.pc = NodeOpPc(th[t].op)]]
                  ELSE LET tg == LoopTarget(p, i - 1, c)
                       IN th' = [th EXCEPT ![t] = [t1 EXCEPT !.ii = i - 1, !.pc = tg.pc, !.curr = tg.curr]]
            /\ UNCHANGED <<node, abs, err>>

FBack(t) ==
  /\ th[t].pc = "f_back"
  /\ LET p == th[t].pop[1]  m == Mode(t) IN
     IF ~Fetchable(p) THEN /\ th' = Retry(th, t)          \* "pred has been deallocated"
                           /\ UNCHANGED <<node, latch, abs, err>>
     ELSE /\ Can(latch, p, t, m)
          /\ IF Validate /\ node[p].ctr # th[t].pop[2]
               THEN /\ th' = Retry(th, t)
                    /\ UNCHANGED latch
               ELSE /\ latch' = Acq(latch, p, t, m)
                    /\ LET tg == LoopTarget(p, th[t].ii - 1, th[t].curr)
                       IN th' = [th EXCEPT ![t].pred = p, ![t].ii = th[t].ii - 1, ![t].pc = tg.pc, ![t].curr = tg.curr]
          /\ UNCHANGED <<node, abs, err>>

(* ---- node-level operations (the latch of th[t].pred is held) ------------------------------------------- *)
StartValidation(t, chk, add, lvl, corners1) ==
  th' = [th EXCEPT ![t].chk = chk, ![t].vi = 1, ![t].held = <<>>, ![t].prev = None, ![t].add = add, ![t].lvl = lvl,
                   ![t].corners = corners1, ![t].pc = "v_step"]

NIns(t) ==
  /\ th[t].pc = "n_ins"
  /\ LET n == th[t].pred  k == th[t].key IN
     IF k \in node[n].keys \/ Cardinality(node[n].keys) < CapOf(n)
       THEN /\ node' = [node EXCEPT ![n].keys = @ \cup {k}, ![n].ctr = @ + 1,
                                    ![n].val = [x \in node[n].keys \cup {k} |-> IF x = k THEN th[t].val
                                                                                ELSE IF x \in DOMAIN node[n].val THEN node[n].val[x] ELSE None]]
            /\ latch' = Rel(latch, n, t, "w")
            /\ abs' = [abs EXCEPT ![k] = th[t].val]
            /\ th' = Finish(Track(th, abs'), t)
            /\ UNCHANGED err
       ELSE \* the node is full: release it, then validate and latch the corners of the new node's levels
            \E lvl \in Levels :
              /\ (t = Loader /\ th[t].n <= LoadOps /\ LoadSeq # <<>>) => lvl = LoadSeq[th[t].n][2]
              /\ LET c1 == [th[t].corners EXCEPT ![1] = <<n, node[n].ctr>>]
                 IN /\ latch' = Rel(latch, n, t, "w")
                    /\ StartValidation(t, [j \in 1..lvl |-> c1[lvl + 1 - j]], NoCorner, lvl, c1)
                    /\ UNCHANGED <<node, abs, err>>

NRem(t) ==
  /\ th[t].pc = "n_rem"
  /\ LET n == th[t].pred  k == th[t].key IN
     IF k \in node[n].keys /\ Cardinality(node[n].keys) = 1
       THEN \* the node goes away: validate pred at level 1 and the corners of the node's other levels, then the node itself
            LET lvl == node[n].level
                chk == [j \in 1..lvl |-> IF j = lvl THEN th[t].pocs[1] ELSE th[t].corners[lvl + 1 - j]]
            IN /\ latch' = Rel(latch, n, t, "w")
               /\ StartValidation(t, chk, <<n, node[n].ctr>>, lvl, th[t].corners)
               /\ UNCHANGED <<node, abs, err>>
     ELSE IF k \in node[n].keys
       THEN /\ node' = [node EXCEPT ![n].keys = @ \ {k}, ![n].ctr = IF BumpOnEntry THEN @ + 1 ELSE @,
                                    ![n].val = [x \in node[n].keys \ {k} |-> IF x \in DOMAIN node[n].val THEN node[n].val[x] ELSE None]]
            /\ latch' = Rel(latch, n, t, "w")
            /\ abs' = [abs EXCEPT ![k] = None]
            /\ th' = Finish(Track(th, abs'), t)
            /\ err' = IF abs[k] = None THEN "Remove deleted a key the map does not hold" ELSE err
       ELSE /\ latch' = Rel(latch, n, t, "w")
            /\ th' = Finish(th, t)
            /\ err' = IF abs[k] # None THEN "Remove did not find a key the map holds" ELSE err
            /\ UNCHANGED <<node, abs>>

NGet(t) ==
  /\ th[t].pc = "n_get"
  /\ LET n == th[t].pred  k == th[t].key
         got == IF k \in node[n].keys THEN node[n].val[k] ELSE None
     IN /\ latch' = Rel(latch, n, t, "r")
        /\ th' = Finish(th, t)
        /\ err' = IF got # abs[k] THEN "GetValue does not return the value of the map" ELSE err
        /\ UNCHANGED <<node, abs>>

(* ---- validateNoChangeAndGetLock ------------------------------------------------------------------------- *)
GiveUp(t) == /\ latch' = RelAll(latch, th[t].held, t)
             /\ th' = Retry(th, t)
             /\ UNCHANGED <<node, abs, err>>

VStep(t) ==
  /\ th[t].pc = "v_step"
  /\ IF th[t].vi > Len(th[t].chk)
       THEN /\ th' = [th EXCEPT ![t].pc = IF th[t].add # NoCorner THEN "v_add" ELSE "s_split"]
            /\ UNCHANGED <<node, latch, abs, err>>
       ELSE LET c == th[t].chk[th[t].vi] IN
            IF c[1] = None THEN Fail("validate: a corner that FindNode never set")
            ELSE IF c[1] = th[t].prev   \* the same node is the corner of the next lower level too: already latched
              THEN IF Validate /\ node[c[1]].ctr # c[2] THEN GiveUp(t)
                   ELSE /\ th' = [th EXCEPT ![t].vi = @ + 1]
                        /\ UNCHANGED <<node, latch, abs, err>>
            ELSE IF ~Fetchable(c[1]) THEN GiveUp(t)
            ELSE /\ Can(latch, c[1], t, "w")       \* (latching a node this thread already holds blocks for ever)
                 /\ IF Validate /\ node[c[1]].ctr # c[2] THEN GiveUp(t)
                    ELSE /\ latch' = Acq(latch, c[1], t, "w")
                         /\ th' = [th EXCEPT ![t].held = <<c[1]>> \o @, ![t].prev = c[1], ![t].vi = @ + 1]
                         /\ UNCHANGED <<node, abs, err>>

VAdd(t) ==
  /\ th[t].pc = "v_add"
  /\ LET a == th[t].add IN
     IF ~Fetchable(a[1]) THEN GiveUp(t)
     ELSE /\ Can(latch, a[1], t, "w")
          /\ IF Validate /\ node[a[1]].ctr # a[2] THEN GiveUp(t)
             ELSE /\ latch' = Acq(latch, a[1], t, "w")
                  /\ th' = [th EXCEPT ![t].held = @ \o <<a[1]>>, ![t].pc = "r_unlink"]
                  /\ UNCHANGED <<node, abs, err>>

(* ---- SplitNode / newNodeAndUpdateChain / insert, under the latches of corners[1..lvl] ------------------- *)
RECURSIVE Relink(_, _, _, _, _)
\* levels i..lvl: new.fwd[i] := corner.fwd[i]; corner.fwd[i] := new; corner.ctr + 1
Relink(nd, i, lvl, corners, new) ==
  IF i > lvl THEN nd
  ELSE LET c == corners[i][1]
           n1 == [nd EXCEPT ![new].fwd[i] = nd[c].fwd[i], ![c].fwd[i] = new, ![c].ctr = @ + 1]
       IN Relink(n1, i + 1, lvl, corners, new)

SSplit(t) ==
  /\ th[t].pc = "s_split"
  /\ LET n == th[t].corners[1][1]  k == th[t].key  lvl == th[t].lvl
         new == MinOf(FreeIds)
         all == node[n].keys
         low == LowPart(all)
         high == HighPart(all)
         toNew == k > MinOf(high)
         vOf(x) == IF x = k THEN th[t].val ELSE IF x \in DOMAIN node[n].val THEN node[n].val[x] ELSE None
         n0 == [node EXCEPT ![new] = [st |-> "live", keys |-> IF toNew THEN high \cup {k} ELSE high,
                                      val |-> [x \in (IF toNew THEN high \cup {k} ELSE high) |-> vOf(x)],
                                      level |-> lvl, fwd |-> [i \in Levels |-> None], ctr |-> IF FreshAbove THEN hw + 1 ELSE 0],
                             ![n].keys = IF toNew THEN low ELSE low \cup {k},
                             ![n].val = [x \in (IF toNew THEN low ELSE low \cup {k}) |-> vOf(x)]]
     IN IF \E i \in 1..lvl : ~Holds(latch, th[t].corners[i][1], t, "w") THEN Fail("split: a corner is not latched")
        ELSE IF Cardinality(all) < CapOf(n) THEN Fail("split: the node is no longer full - the decision to split is stale")
        ELSE
        /\ FreeIds # {}
        /\ node' = Relink(n0, 1, lvl, th[t].corners, new)
        /\ latch' = RelAll(latch, th[t].held, t)
        /\ abs' = [abs EXCEPT ![k] = th[t].val]
        /\ th' = Finish(Track(th, abs'), t)
        /\ UNCHANGED err

(* ---- unlink a node whose last entry is removed, under the latches of its corners and its own ------------- *)
RECURSIVE Unlink(_, _, _, _, _)
Unlink(nd, i, lvl, corners, n) ==
  IF i > lvl THEN nd
  ELSE LET c == corners[i][1]
       IN Unlink([nd EXCEPT ![c].fwd[i] = nd[n].fwd[i], ![c].ctr = @ + 1], i + 1, lvl, corners, n)

RUnlink(t) ==
  /\ th[t].pc = "r_unlink"
  /\ LET n == th[t].add[1]  k == th[t].key  lvl == th[t].lvl
         cs == [th[t].corners EXCEPT ![1] = th[t].pocs[1]]
         n1 == Unlink(node, 1, lvl, cs, n)
     IN IF \E i \in 1..lvl : ~Holds(latch, cs[i][1], t, "w") THEN Fail("remove: a corner is not latched")
        ELSE
        /\ node' = [n1 EXCEPT ![n].ctr = IF BumpOnRemove THEN @ + 1 ELSE @, ![n].st = "dead"]
        /\ latch' = RelAll(latch, th[t].held, t)
        /\ abs' = [abs EXCEPT ![k] = None]
        /\ th' = Finish(Track(th, abs'), t)
        /\ err' = IF abs[k] = None THEN "Remove deleted a key the map does not hold" ELSE err

(* ---- iterator --------------------------------------------------------------------------------------------- *)
ScanDone(tt, t) ==
  IF ~(tt[t].must \subseteq tt[t].res) THEN "scan misses a key that was present all the time"
  ELSE IF ~(tt[t].res \subseteq tt[t].may) THEN "scan returns a key that was never present"
  ELSE err

ScNode(t) ==
  /\ th[t].pc = "sc_node"
  /\ LET n == th[t].pred
         got == {x \in node[n].keys : x >= th[t].key /\ x <= th[t].hi /\ x \in Keys}
         t1 == [th EXCEPT ![t].res = @ \cup got]
     IN IF \E x \in node[n].keys : x > th[t].hi
          THEN /\ latch' = Rel(latch, n, t, "r")
               /\ err' = ScanDone(t1, t)
               /\ th' = Finish(t1, t)
          ELSE /\ th' = [t1 EXCEPT ![t].pc = "sc_next"]
               /\ UNCHANGED <<latch, err>>
  /\ UNCHANGED <<node, abs>>

ScNext(t) ==
  /\ th[t].pc = "sc_next"
  /\ LET n == th[t].pred  nx == node[n].fwd[1] IN
     IF ~Fetchable(nx) THEN Fail("iterator: the next node cannot be fetched")
     ELSE /\ Can(latch, nx, t, "r")
          /\ IF nx = SENT
               THEN /\ latch' = Rel(latch, n, t, "r")
                    /\ err' = ScanDone(th, t)
                    /\ th' = Finish(th, t)
               ELSE /\ latch' = Rel(Acq(latch, nx, t, "r"), n, t, "r")
                    /\ th' = [th EXCEPT ![t].pred = nx, ![t].pc = "sc_node"]
                    /\ UNCHANGED err
          /\ UNCHANGED <<node, abs>>

(* the id of a removed node becomes available again (its frame was evicted) - only while nobody uses the node *)
InUse(n) == \/ latch[n].w # None \/ latch[n].r # {}
            \/ \E t \in Thread : th[t].pc = "f_latch" /\ th[t].curr = n
Recycle(n) ==
  /\ Reuse /\ node[n].st = "dead" /\ ~InUse(n)
  \* the removed page is not written when its frame goes: what a later read of the id finds is an older image
  \* (any earlier counter) - the entries and forward pointers of that image are taken to be the last ones
  /\ \E c \in 0..node[n].ctr : node' = [node EXCEPT ![n].st = "gone", ![n].ctr = IF NilForGone THEN 0 ELSE c]
  /\ UNCHANGED <<latch, th, abs, err, ret, hw>>

(* what a completed operation hands back to its caller *)
RetVal(t) ==
  LET n == th[t].pred  k == th[t].key IN
  CASE th[t].op = "ins" -> "ok"
    [] th[t].op = "rem" -> abs[k] # None /\ abs'[k] = None
    [] th[t].op = "get" -> IF k \in node[n].keys THEN node[n].val[k] ELSE None
    [] th[t].op = "scan" -> IF th[t].pc = "sc_node"
                              THEN th[t].res \cup {x \in node[n].keys : x >= k /\ x <= th[t].hi /\ x \in Keys}
                              ELSE th[t].res
    [] OTHER -> "none"

Step(t) == /\ \/ Begin(t) \/ FStart(t) \/ FLatch(t) \/ FAfter(t) \/ FBack(t) \/ NIns(t) \/ NRem(t) \/ NGet(t)
              \/ VStep(t) \/ VAdd(t) \/ SSplit(t) \/ RUnlink(t) \/ ScNode(t) \/ ScNext(t)
           /\ ret' = IF th[t].pc # "idle" /\ th'[t].pc = "idle" THEN [ret EXCEPT ![t] = RetVal(t)] ELSE ret
           /\ hw' = IF th[t].pc = "r_unlink" /\ th'[t].pc = "idle" /\ node'[th[t].add[1]].ctr > hw
                      THEN node'[th[t].add[1]].ctr ELSE hw

AllDone == \A t \in Thread : th[t].pc = "idle" /\ th[t].n = MaxOps + (IF t = Loader THEN LoadOps ELSE 0)

Next == \/ (err = "" /\ \E t \in Thread : Step(t))
        \/ (err = "" /\ \E n \in 1..MaxNodes : Recycle(n))
        \/ ((AllDone \/ err # "") /\ UNCHANGED vars)

Spec == Init /\ [][Next]_vars

(* ---- properties --------------------------------------------------------------------------------------------- *)
NoError == err = ""

RECURSIVE Chain(_, _, _)
\* the nodes reached from n along level i (at most fuel steps), as a sequence
Chain(n, i, fuel) == IF n = None \/ n = SENT \/ fuel = 0 THEN <<n>> ELSE <<n>> \o Chain(node[n].fwd[i], i, fuel - 1)
ChainOf(i) == Chain(START, i, MaxNodes + 2)
Rng(s) == {s[j] : j \in DOMAIN s}

\* level 1: from the start node to the sentinel through live nodes, strictly increasing, holding exactly the map
Level1OK ==
  LET c == ChainOf(1) IN
  /\ c[Len(c)] = SENT
  /\ \A j \in DOMAIN c : node[c[j]].st = "live" /\ node[c[j]].keys # {}
  /\ \A j \in 1..(Len(c) - 1) : MaxOf(node[c[j]].keys) < MinOf(node[c[j + 1]].keys)
  /\ UNION {node[c[j]].keys : j \in DOMAIN c} = {k \in Keys : abs[k] # None} \cup {InfMin, InfMax}
  /\ \A j \in DOMAIN c : \A k \in node[c[j]].keys \cap Keys : node[c[j]].val[k] = abs[k]
  /\ \A j \in DOMAIN c : Cardinality(node[c[j]].keys) <= CapOf(c[j])
\* level i > 1: a sub-sequence of level i - 1, made of the nodes of at least that level
UpperOK ==
  \A i \in 2..MaxLevel :
    LET c == ChainOf(i)  d == ChainOf(i - 1) IN
    /\ c[Len(c)] = SENT
    /\ Rng(c) \subseteq Rng(d)
    /\ \A j \in 1..(Len(c) - 1) : MaxOf(node[c[j]].keys) < MinOf(node[c[j + 1]].keys)
    /\ Rng(c) = {n \in Rng(d) : n = START \/ node[n].level >= i}
LatchOK == \A n \in NodeId : latch[n].w # None => latch[n].r = {}
\* when nothing runs no latch is held
QuiescentOK == (\A t \in Thread : th[t].pc = "idle") => \A n \in NodeId : latch[n].w = None /\ latch[n].r = {}

StructureOK == Level1OK /\ UpperOK /\ LatchOK /\ QuiescentOK

\* every thread that is inside an operation can finish it when it runs alone from here (no livelock by construction
\* is not claimed; deadlock freedom is TLC's deadlock check: a blocked state has no successor)
=============================================================================
