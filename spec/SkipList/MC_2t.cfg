SPECIFICATION Spec
CONSTANTS
  t1 = t1
  t2 = t2
  t3 = t3
  K = 4
  Vals <- V1
  Cap = 3
  StartExtra = 0
  MaxLevel = 2
  MaxNodes = 3
  Thread <- T2
  Ops <- WriteOps
  MaxOps = 1
  Loader = t1
  LoadOps = 3
  LoadSeq <- NoLoad
  Reuse = FALSE
  FreshAbove = TRUE
  NilForGone = TRUE
  Validate = TRUE
  BumpOnRemove = TRUE
  BumpOnEntry = TRUE
VIEW View
INVARIANTS NoError StructureOK
