SPECIFICATION Spec
CONSTANTS
  t1 = t1
  t2 = t2
  t3 = t3
  K = 5
  Vals <- V1
  Cap = 3
  StartExtra = 0
  MaxLevel = 2
  MaxNodes = 4
  Thread <- T2
  Ops <- WriteOps
  MaxOps = 2
  Loader = t1
  LoadOps = 4
  LoadSeq <- LoadA
  Reuse = TRUE
  FreshAbove = TRUE
  NilForGone = TRUE
  Validate = TRUE
  BumpOnRemove = TRUE
  BumpOnEntry = FALSE
VIEW View
INVARIANTS NoError StructureOK
