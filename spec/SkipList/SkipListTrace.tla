---------------------------- MODULE SkipListTrace ----------------------------
(* Trace specification for SkipList (C17, mechanism level): every recorded call on a real skip list        *)
(* (lib/container/skip_list, long string keys so that a node holds three entries) is executed by the        *)
(* specification's own actions - Begin with the recorded arguments, then the thread's steps taken silently   *)
(* until the operation is complete - and the node structure the driver read from the real pages afterwards   *)
(* (level-1 chain: entries, level, forward pointers per level, update counter of every node) is compared     *)
(* with the specification's state.                                                                           *)
(*   C17.l1.result   the call returned something else than the specification (lookup value, removed or not,  *)
(*                   scan contents)                                                                           *)
(*   mech.C17.state  the node structure differs (conformance of the mechanism, not a verdict on C17)          *)
(*   mech.C17.inv    the structure read from the real pages breaks an invariant of the specification          *)
EXTENDS SkipList, TraceKit

VARIABLES l, viol, run
tvars == <<vars, l, viol, run>>

T == CHOOSE t \in Thread : TRUE
TrThreads == {"t"}
TrOps == {"ins", "rem", "get", "scan"}
TrVals == {1, 2}
TrNoLoad == <<>>
V(tag, ln, info) == <<[tag |-> tag, line |-> ln, info |-> info, kf |-> "new"]>>

TInit == Init /\ l = 1 /\ viol = <<>> /\ run = FALSE

\* the specification's state as the driver projects the real structure: the level-1 chain, forward entries as positions in it
Proj ==
  LET c == ChainOf(1)
      pos(n) == IF n = None THEN -1 ELSE IF \E j \in DOMAIN c : c[j] = n THEN (CHOOSE j \in DOMAIN c : c[j] = n) - 1 ELSE -2
  IN [j \in DOMAIN c |-> [keys |-> node[c[j]].keys, level |-> node[c[j]].level,
                          fwd |-> [i \in Levels |-> pos(node[c[j]].fwd[i])], ctr |-> node[c[j]].ctr]]
Logged(e) == [j \in DOMAIN e.nodes |-> [keys |-> SetOf(e.nodes[j].keys), level |-> e.nodes[j].level,
                                        fwd |-> e.nodes[j].fwd, ctr |-> e.nodes[j].ctr]]
\* invariants of the specification evaluated on the recorded structure itself
LoggedOK(e) ==
  LET g == Logged(e) n == Len(g) IN
  /\ n >= 2 /\ g[1].keys # {} /\ InfMin \in g[1].keys /\ g[n].keys = {InfMax}
  /\ \A j \in 1..n : g[j].keys # {}
  /\ \A j \in 1..(n - 1) : MaxOf(g[j].keys) < MinOf(g[j + 1].keys) /\ g[j].fwd[1] = j
  /\ \A j \in 1..(n - 1) : \A i \in 2..MaxLevel :
        (j = 1 \/ g[j].level >= i) =>
           \* the forward entry of level i names the next node of at least that level
           LET nxt == {x \in (j + 1)..n : x = n \/ g[x].level >= i} IN g[j].fwd[i] = MinOf(nxt) - 1

RetOK(e) ==
  CASE e.op = "ins" -> TRUE
    [] e.op = "rem" -> ret[T] = e.res
    [] e.op = "get" -> ret[T] = e.res
    [] e.op = "scan" -> ret[T] = SetOf(e.res) /\ Len(e.res) = Cardinality(SetOf(e.res))
                        /\ \A i \in 1..(Len(e.res) - 1) : e.res[i] < e.res[i + 1]

TReset ==
  /\ ~run /\ l <= TraceLen /\ TraceLog[l].ev = "Reset"
  \* (the counter base is process-wide in the code: a list created later in the same process starts above it)
  /\ hw' = IF FreshAbove THEN TraceLog[l].nodes[1].ctr - 1 ELSE 0
  /\ node' = InitNodesAt(IF FreshAbove THEN TraceLog[l].nodes[1].ctr ELSE 0) /\ latch' = [n \in NodeId |-> [w |-> None, r |-> {}]] /\ th' = [t \in Thread |-> IdleTh]
  /\ abs' = [k \in Keys |-> None] /\ err' = "" /\ ret' = [t \in Thread |-> "none"]
  /\ run' = FALSE /\ l' = l + 1
  /\ viol' = AddViol(viol, IF Proj' # Logged(TraceLog[l]) THEN V("mech.C17.state", l, [op |-> "fresh list", real |-> TraceLog[l].nodes]) ELSE <<>>)

TStart ==
  /\ ~run /\ l <= TraceLen /\ TraceLog[l].ev = "SlOp"
  /\ LET e == TraceLog[l] IN
       /\ Begin(T)
       /\ th'[T].op = e.op /\ th'[T].key = e.k /\ th'[T].hi = (IF e.op = "scan" THEN e.hi ELSE e.k)
       /\ (e.op = "ins" => th'[T].val = e.v)
  /\ ret' = ret /\ hw' = hw /\ run' = TRUE /\ UNCHANGED <<l, viol>>

TSilent ==
  /\ run /\ th[T].pc # "idle"
  /\ Step(T)
  \* the level of a new node is the one the real list drew
  /\ (th[T].pc = "n_ins" /\ th'[T].pc = "v_step") => th'[T].lvl = TraceLog[l].newlevel
  /\ UNCHANGED <<l, viol, run>>

TEnd ==
  /\ run /\ th[T].pc = "idle"
  /\ LET e == TraceLog[l] IN
     viol' = AddViol(viol,
          (IF e.panic # "" THEN V("C17.l1.panic", l, <<e.op, e.k, e.panic>>) ELSE <<>>)
       \o (IF e.panic = "" /\ ~RetOK(e) THEN V("C17.l1.result", l, <<e.op, e.k, "got", e.res, "spec", ret[T]>>) ELSE <<>>)
       \o (IF e.panic = "" /\ Proj # Logged(e) THEN V("mech.C17.state", l, [op |-> <<e.op, e.k>>, real |-> e.nodes, spec |-> Proj]) ELSE <<>>)
       \o (IF e.panic = "" /\ ~LoggedOK(e) THEN V("mech.C17.inv", l, [op |-> <<e.op, e.k>>, real |-> e.nodes]) ELSE <<>>)
       \o (IF err # "" THEN V("mech.C17.err", l, <<err>>) ELSE <<>>))
  /\ run' = FALSE /\ l' = l + 1
  /\ UNCHANGED vars

TNext == TReset \/ TStart \/ TSilent \/ TEnd
TSpec == TInit /\ [][TNext]_tvars
Done == (l = TraceLen + 1) => Emit(viol, l - 1)
===============================================================================
