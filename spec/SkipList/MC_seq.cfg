SPECIFICATION Spec
CONSTANTS
  t1 = t1
  t2 = t2
  t3 = t3
  K = 5
  Vals <- V2
  Cap = 3
  StartExtra = 0
  MaxLevel = 2
  MaxNodes = 4
  Thread <- T1
  Ops <- AllOps
  MaxOps = 5
  Loader = t1
  LoadOps = 0
  LoadSeq <- NoLoad
  Reuse = FALSE
  FreshAbove = TRUE
  NilForGone = TRUE
  Validate = TRUE
  BumpOnRemove = TRUE
  BumpOnEntry = TRUE
VIEW View
INVARIANTS NoError StructureOK
