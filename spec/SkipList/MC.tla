---- MODULE MC ----
EXTENDS SkipList
CONSTANTS t1, t2, t3
AllOps == {"ins", "rem", "get", "scan"}
WriteOps == {"ins", "rem"}
InsGet == {"ins", "get"}
T2 == {t1, t2}
T3 == {t1, t2, t3}
T1 == {t1}
V1 == {1}
V2 == {1, 2}
NoLoad == <<>>
\* start{-inf,1,2}  {3} level 2  {5} level 2  sentinel
LoadA == <<<<1, 1>>, <<5, 1>>, <<3, 2>>, <<2, 2>>>>
\* output-only fields of a thread do not distinguish states
View == <<node, latch, th, abs, err>>
====
