CONSTANTS
  K = 12
  Vals <- TrVals
  Cap = 3
  StartExtra = 1
  MaxLevel = 20
  MaxNodes = 80
  Thread <- TrThreads
  Ops <- TrOps
  MaxOps = 1000000
  Loader = "t"
  LoadOps = 0
  LoadSeq <- TrNoLoad
  Reuse = FALSE
  FreshAbove = TRUE
  NilForGone = TRUE
  Validate = TRUE
  BumpOnRemove = TRUE
  BumpOnEntry = TRUE
SPECIFICATION TSpec
INVARIANT Done
CHECK_DEADLOCK FALSE
