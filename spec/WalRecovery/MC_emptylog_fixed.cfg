CONSTANTS
  Txn = {t1}
  NSlot = 1
  MaxVal = 3
  MaxCrash = 3
  MaxLog = 7
  FixAbort = TRUE
  FixUndoSlot = TRUE
  FixCkpt = TRUE
  FixLsn = TRUE
  FixGcOrder = TRUE
  FixRedoUpd = TRUE
  FixStamp = TRUE
  Torn = FALSE
SPECIFICATION Spec
INVARIANTS Recovered NoPanic PageBehindLog
CHECK_DEADLOCK FALSE
