CONSTANTS
  Txn = {t1}
  NSlot = 2
  MaxVal = 3
  MaxCrash = 3
  MaxLog = 9
  FixAbort = TRUE
  FixUndoSlot = TRUE
  FixCkpt = TRUE
  FixLsn = TRUE
  FixGcOrder = TRUE
  FixRedoUpd = TRUE
  Torn = TRUE
SPECIFICATION Spec
INVARIANTS Recovered NoPanic PageBehindLog
CHECK_DEADLOCK FALSE
