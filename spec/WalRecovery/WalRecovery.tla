------------------------------ MODULE WalRecovery ------------------------------
(***************************************************************************)
(* L1 mechanism specification of write-ahead logging and restart recovery  *)
(* as the (repaired) code implements them, on one heap page of NSlot slots:*)
(*   table_page.go        Insert (first free slot), MarkDelete, ApplyDelete,*)
(*                        RollbackDelete, in-place Update - each appends a  *)
(*                        log record and stamps the page LSN               *)
(*   transaction_manager  Commit = ApplyDelete per DELETE write record      *)
(*                        (last to first), COMMIT record, log flush iff the *)
(*                        write set is non-empty; Abort = compensation per  *)
(*                        write record (last to first), ABORT record, no    *)
(*                        flush                                             *)
(*   buffer pool          Evict / FlushPage / checkpoint: log flush, then   *)
(*                        page write                                        *)
(*   log_recovery.go      Redo with the page-LSN guard (ABORT and COMMIT    *)
(*                        end a transaction), Undo of the losers along their*)
(*                        prevLSN chains with idempotent steps, re-insert   *)
(*                        into the row's own slot                           *)
(*   samehada.go          restart order: Redo, Undo, FlushAllPages,         *)
(*                        GCLogFile, LSN marker records, ... done           *)
(* A crash may hit at any point of normal operation AND between any two     *)
(* recovery steps; the last log write may be torn.  Refines CrashModel:     *)
(* after every completed recovery the table is in the Acceptable set frozen *)
(* at the first crash (C01, C02, C20); pages are never written ahead of the *)
(* log (C08).                                                               *)
(* The switches select the behaviour of the pinned tree (FALSE) for the     *)
(* corresponding defect; with all of them TRUE the spec models the repaired *)
(* code.                                                                    *)
(***************************************************************************)
EXTENDS Integers, Sequences, FiniteSets, TLC

CONSTANTS Txn, NSlot, MaxVal, MaxCrash, MaxLog,
          FixAbort,     \* ABORT removes a transaction from the loser set
          FixUndoSlot,  \* undo of APPLYDELETE re-inserts at the logged slot (and undo is idempotent)
          FixCkpt,      \* checkpoint / FlushPage flush the log before the page
          FixLsn,       \* LSNs continue after the log truncation
          FixGcOrder,   \* recovered pages are flushed before the log is truncated
          FixRedoUpd,   \* redo replays updates unconditionally (also shrinking compensation updates)
          FixStamp,     \* the current LSN is also stamped on the catalog's first page before the log is truncated
          Torn          \* the final log write may be torn

Slot == 1..NSlot
E0 == [v |-> 0, m |-> FALSE]                 \* empty cell (v = 0)
None == "none"

VARIABLES pg,       \* buffered page  [lsn, s : Slot -> cell]
          dk,       \* page on disk
          dirty,
          log,      \* sequence of records [lsn, t, ty, sl, v, old, prev]
          fl,       \* durable prefix length of log
          pfl,      \* durable prefix length before the most recent log write (for tearing)
          nl,       \* next LSN
          tx,       \* [Txn -> [st, ws, prev, k, id]]
          lk,       \* [Slot -> Txn \cup {None}]  exclusive row locks
          db,       \* ghost: committed set of values
          nv,       \* next fresh value
          nid,      \* next engine transaction id
          mode,     \* "run" | "redo" | "undo" | "flush" | "gc" | "seed" | "done" (next recovery step)
          crashes,
          acc,      \* ghost: Acceptable set frozen at the first crash of the current recovery
          fail,     \* a recovery step hit a state the code panics on
          cat       \* LSN stamped on the first page of the table catalog (durable; -1 = never)

vars == <<pg, dk, dirty, log, fl, pfl, nl, tx, lk, db, nv, nid, mode, crashes, acc, fail, cat>>

EmptyPage == [lsn |-> -1, s |-> [i \in Slot |-> E0]]
Visible(p) == {p.s[i].v : i \in {j \in Slot : p.s[j].v # 0}}   \* a delete-marked row is still a row until the delete is applied
FirstFree(p) == IF \E i \in Slot : p.s[i].v = 0
                  THEN CHOOSE i \in Slot : p.s[i].v = 0 /\ \A j \in Slot : j < i => p.s[j].v # 0 ELSE 0
Rec(l, t, ty, sl, v, old, pr) == [lsn |-> l, t |-> t, ty |-> ty, sl |-> sl, v |-> v, old |-> old, prev |-> pr]
NewTx == [st |-> "n", ws |-> <<>>, prev |-> -1, k |-> 0, id |-> 0]

Init == /\ pg = EmptyPage /\ dk = EmptyPage /\ dirty = FALSE /\ log = <<>> /\ fl = 0 /\ pfl = 0 /\ nl = 0
        /\ tx = [t \in Txn |-> NewTx] /\ lk = [i \in Slot |-> None] /\ db = {} /\ nv = 1 /\ nid = 1
        /\ mode = "run" /\ crashes = 0 /\ acc = {} /\ fail = FALSE /\ cat = -1

Room == Len(log) < MaxLog
LogApp(t, ty, sl, v, old) == /\ log' = Append(log, Rec(nl, tx[t].id, ty, sl, v, old, tx[t].prev)) /\ nl' = nl + 1

Begin(t) == /\ mode = "run" /\ tx[t].st = "n" /\ Room
            /\ log' = Append(log, Rec(nl, nid, "B", 0, 0, 0, -1)) /\ nl' = nl + 1
            /\ tx' = [tx EXCEPT ![t] = [st |-> "a", ws |-> <<>>, prev |-> nl, k |-> 0, id |-> nid]]
            /\ nid' = nid + 1
            /\ UNCHANGED <<pg, dk, dirty, fl, lk, db, nv, mode, crashes, acc, fail, cat>>
            /\ pfl' = fl        \* (a log write that has completed can no longer be torn)

Insert(t) == /\ mode = "run" /\ tx[t].st = "a" /\ nv <= MaxVal /\ Room
             /\ LET i == FirstFree(pg) IN
                /\ i # 0 /\ lk[i] \in {None, t}
                /\ pg' = [lsn |-> nl, s |-> [pg.s EXCEPT ![i] = [v |-> nv, m |-> FALSE]]]
                /\ lk' = [lk EXCEPT ![i] = t]
                /\ LogApp(t, "I", i, nv, 0)
                /\ tx' = [tx EXCEPT ![t].prev = nl, ![t].ws = Append(@, [ty |-> "I", sl |-> i, v |-> nv, old |-> 0])]
             /\ nv' = nv + 1 /\ dirty' = TRUE
             /\ UNCHANGED <<dk, fl, db, nid, mode, crashes, acc, fail, cat>>
            /\ pfl' = fl        \* (a log write that has completed can no longer be torn)

MarkDel(t, i) == /\ mode = "run" /\ tx[t].st = "a" /\ pg.s[i].v # 0 /\ ~pg.s[i].m /\ lk[i] \in {None, t} /\ Room
                 /\ pg' = [lsn |-> nl, s |-> [pg.s EXCEPT ![i].m = TRUE]]
                 /\ lk' = [lk EXCEPT ![i] = t]
                 /\ LogApp(t, "M", i, pg.s[i].v, 0)
                 /\ tx' = [tx EXCEPT ![t].prev = nl, ![t].ws = Append(@, [ty |-> "D", sl |-> i, v |-> pg.s[i].v, old |-> 0])]
                 /\ dirty' = TRUE /\ UNCHANGED <<dk, fl, db, nv, nid, mode, crashes, acc, fail, cat>>

(* in-place update: the row gets a fresh value *)
            /\ pfl' = fl        \* (a log write that has completed can no longer be torn)

Update(t, i) == /\ mode = "run" /\ tx[t].st = "a" /\ pg.s[i].v # 0 /\ ~pg.s[i].m /\ lk[i] \in {None, t} /\ nv <= MaxVal /\ Room
                /\ pg' = [lsn |-> nl, s |-> [pg.s EXCEPT ![i].v = nv]]
                /\ lk' = [lk EXCEPT ![i] = t]
                /\ LogApp(t, "U", i, nv, pg.s[i].v)
                /\ tx' = [tx EXCEPT ![t].prev = nl, ![t].ws = Append(@, [ty |-> "U", sl |-> i, v |-> nv, old |-> pg.s[i].v])]
                /\ nv' = nv + 1 /\ dirty' = TRUE
                /\ UNCHANGED <<dk, fl, db, nid, mode, crashes, acc, fail, cat>>
            /\ pfl' = fl        \* (a log write that has completed can no longer be torn)

CommitStart(t) == /\ mode = "run" /\ tx[t].st = "a"
                  /\ tx' = [tx EXCEPT ![t].st = "c", ![t].k = Len(tx[t].ws)]
                  /\ UNCHANGED <<pg, dk, dirty, log, fl, nl, lk, db, nv, nid, mode, crashes, acc, fail, cat>>
            /\ pfl' = fl        \* (a log write that has completed can no longer be torn)

CommitStep(t) == /\ mode = "run" /\ tx[t].st = "c" /\ tx[t].k > 0
                 /\ LET it == tx[t].ws[tx[t].k] IN
                    IF it.ty = "D"
                      THEN /\ Room
                           /\ pg' = [lsn |-> nl, s |-> [pg.s EXCEPT ![it.sl] = E0]]
                           /\ LogApp(t, "D", it.sl, it.v, 0)
                           /\ tx' = [tx EXCEPT ![t].prev = nl, ![t].k = @ - 1]
                           /\ dirty' = TRUE
                      ELSE /\ tx' = [tx EXCEPT ![t].k = @ - 1]
                           /\ UNCHANGED <<pg, log, nl, dirty>>
                 /\ UNCHANGED <<dk, fl, lk, db, nv, nid, mode, crashes, acc, fail, cat>>
            /\ pfl' = fl        \* (a log write that has completed can no longer be torn)

Effects(t) == LET W == tx[t].ws IN
              [ins |-> {W[j].v : j \in {x \in DOMAIN W : W[x].ty \in {"I", "U"}}},
               del |-> {W[j].v : j \in {x \in DOMAIN W : W[x].ty = "D"}} \cup {W[j].old : j \in {x \in DOMAIN W : W[x].ty = "U"}}]
ApplyEff(S, e) == (S \cup e.ins) \ e.del
CommitLog(t) == /\ mode = "run" /\ tx[t].st = "c" /\ tx[t].k = 0 /\ Room
                /\ LogApp(t, "C", 0, 0, 0)
                /\ IF tx[t].ws # <<>> THEN fl' = Len(log) + 1 /\ pfl' = fl ELSE fl' = fl /\ pfl' = fl
                /\ tx' = [tx EXCEPT ![t].st = "cl", ![t].prev = nl]
                /\ UNCHANGED <<pg, dk, dirty, lk, db, nv, nid, mode, crashes, acc, fail, cat>>
CommitRet(t) == /\ mode = "run" /\ tx[t].st = "cl"
                /\ db' = ApplyEff(db, Effects(t))
                /\ lk' = [i \in Slot |-> IF lk[i] = t THEN None ELSE lk[i]]
                /\ tx' = [tx EXCEPT ![t] = NewTx]
                /\ UNCHANGED <<pg, dk, dirty, log, fl, nl, nv, nid, mode, crashes, acc, fail, cat>>
            /\ pfl' = fl        \* (a log write that has completed can no longer be torn)

AbortStart(t) == /\ mode = "run" /\ tx[t].st = "a"
                 /\ tx' = [tx EXCEPT ![t].st = "ab", ![t].k = Len(tx[t].ws)]
                 /\ UNCHANGED <<pg, dk, dirty, log, fl, nl, lk, db, nv, nid, mode, crashes, acc, fail, cat>>
            /\ pfl' = fl        \* (a log write that has completed can no longer be torn)

AbortStep(t) == /\ mode = "run" /\ tx[t].st = "ab" /\ tx[t].k > 0 /\ Room
                /\ LET it == tx[t].ws[tx[t].k] IN
                   CASE it.ty = "I" -> /\ pg' = [lsn |-> nl, s |-> [pg.s EXCEPT ![it.sl] = E0]]
                                       /\ LogApp(t, "D", it.sl, it.v, 0)
                     [] it.ty = "D" -> /\ pg' = [lsn |-> nl, s |-> [pg.s EXCEPT ![it.sl].m = FALSE]]
                                       /\ LogApp(t, "R", it.sl, it.v, 0)
                     [] it.ty = "U" -> /\ pg' = [lsn |-> nl, s |-> [pg.s EXCEPT ![it.sl].v = it.old]]
                                       /\ LogApp(t, "U", it.sl, it.old, it.v)
                /\ tx' = [tx EXCEPT ![t].prev = nl, ![t].k = @ - 1]
                /\ dirty' = TRUE /\ UNCHANGED <<dk, fl, lk, db, nv, nid, mode, crashes, acc, fail, cat>>
            /\ pfl' = fl        \* (a log write that has completed can no longer be torn)

AbortEnd(t) == /\ mode = "run" /\ tx[t].st = "ab" /\ tx[t].k = 0 /\ Room
               /\ LogApp(t, "A", 0, 0, 0)
               /\ lk' = [i \in Slot |-> IF lk[i] = t THEN None ELSE lk[i]]
               /\ tx' = [tx EXCEPT ![t] = NewTx]
               /\ UNCHANGED <<pg, dk, dirty, fl, db, nv, nid, mode, crashes, acc, fail, cat>>
            /\ pfl' = fl        \* (a log write that has completed can no longer be torn)

FlushLog == /\ mode = "run" /\ fl < Len(log) /\ fl' = Len(log) /\ pfl' = fl
            /\ UNCHANGED <<pg, dk, dirty, log, nl, tx, lk, db, nv, nid, mode, crashes, acc, fail, cat>>
(* eviction of the dirty page: log flush, then page write *)
Evict == /\ mode = "run" /\ dirty
         /\ fl' = Len(log) /\ pfl' = Len(log)     \* the page write follows the completed log write: that one can no longer be torn
         /\ dk' = pg /\ dirty' = FALSE
         /\ UNCHANGED <<pg, log, nl, tx, lk, db, nv, nid, mode, crashes, acc, fail, cat>>
Quiescent == \A t \in Txn : tx[t].st = "n"
CkptPages == /\ mode = "run" /\ Quiescent /\ dirty
             /\ IF FixCkpt THEN fl' = Len(log) /\ pfl' = Len(log) ELSE fl' = fl /\ pfl' = fl
             /\ dk' = pg /\ dirty' = FALSE
             /\ UNCHANGED <<pg, log, nl, tx, lk, db, nv, nid, mode, crashes, acc, fail, cat>>

(* ---------- crash and recovery ------------------------------------------------------------ *)
Inflight == {t \in Txn : tx[t].st \in {"c", "cl"}}
Acceptable == {LET RECURSIVE F(_, _)
                   F(S, T) == IF T = {} THEN S ELSE LET t == CHOOSE x \in T : TRUE IN F(ApplyEff(S, Effects(t)), T \ {t})
               IN F(db, S0) : S0 \in SUBSET Inflight}

(* the volatile state is lost; the log keeps its durable prefix, possibly with the last write torn *)
Crash == /\ crashes < MaxCrash
         /\ \E n \in (IF Torn /\ mode = "run" THEN pfl..fl ELSE {fl}) :
              /\ log' = SubSeq(log, 1, n) /\ fl' = n /\ pfl' = n
         /\ acc' = IF mode = "run" THEN Acceptable ELSE acc
         /\ pg' = EmptyPage /\ dirty' = FALSE
         /\ tx' = [t \in Txn |-> NewTx] /\ lk' = [i \in Slot |-> None]
         /\ mode' = "redo" /\ crashes' = crashes + 1
         /\ UNCHANGED <<dk, nl, db, nv, nid, fail, cat>>

Apply1(p, r) ==   \* redo of one record (page-LSN guard)
  IF ~(r.ty \in {"I", "M", "D", "R", "U"}) \/ ~(p.lsn < r.lsn) THEN p
  ELSE CASE r.ty = "I" -> LET i == FirstFree(p) IN
                          IF i = 0 THEN p ELSE [lsn |-> r.lsn, s |-> [p.s EXCEPT ![i] = [v |-> r.v, m |-> FALSE]]]
         [] r.ty = "M" -> [lsn |-> r.lsn, s |-> [p.s EXCEPT ![r.sl].m = TRUE]]
         [] r.ty = "D" -> [lsn |-> r.lsn, s |-> [p.s EXCEPT ![r.sl] = E0]]
         [] r.ty = "R" -> [lsn |-> r.lsn, s |-> [p.s EXCEPT ![r.sl].m = FALSE]]
         [] r.ty = "U" -> IF FixRedoUpd \/ r.v > r.old     \* (unrepaired: an update that "shrinks" is refused; fresh values grow)
                            THEN [lsn |-> r.lsn, s |-> [p.s EXCEPT ![r.sl].v = r.v]]
                            ELSE [lsn |-> r.lsn, s |-> p.s]
RECURSIVE RedoAll(_, _, _)
RedoAll(p, lg, i) == IF i > Len(lg) THEN p ELSE RedoAll(Apply1(p, lg[i]), lg, i + 1)
Ids(lg) == {lg[i].t : i \in DOMAIN lg}
Losers(lg) == {t \in Ids(lg) : ~\E i \in DOMAIN lg : lg[i].t = t /\ (lg[i].ty = "C" \/ (FixAbort /\ lg[i].ty = "A"))}
LastIdx(lg, t) == CHOOSE i \in DOMAIN lg : lg[i].t = t /\ \A j \in DOMAIN lg : lg[j].t = t => j <= i
IdxOf(lg, l) == CHOOSE i \in DOMAIN lg : lg[i].lsn = l
Occupied(p, sl) == p.s[sl].v # 0
Undo1(p, r) ==  \* p = [p, ok]
  CASE r.ty = "I" -> IF Occupied(p.p, r.sl) THEN [p |-> [p.p EXCEPT !.s[r.sl] = E0], ok |-> p.ok]
                     ELSE [p |-> p.p, ok |-> p.ok /\ FixUndoSlot]            \* unrepaired: ApplyDelete on an empty slot panics
    [] r.ty = "D" -> IF FixUndoSlot
                       THEN (IF Occupied(p.p, r.sl) THEN p ELSE [p |-> [p.p EXCEPT !.s[r.sl] = [v |-> r.v, m |-> FALSE]], ok |-> p.ok])
                       ELSE LET i == FirstFree(p.p) IN
                            IF i = 0 THEN [p |-> p.p, ok |-> FALSE]
                            ELSE [p |-> [p.p EXCEPT !.s[i] = [v |-> r.v, m |-> FALSE]], ok |-> p.ok]
    [] r.ty = "M" -> IF Occupied(p.p, r.sl) THEN [p |-> [p.p EXCEPT !.s[r.sl].m = FALSE], ok |-> p.ok]
                     ELSE [p |-> p.p, ok |-> p.ok /\ FixUndoSlot]            \* unrepaired: RollbackDelete on an empty slot panics
    [] r.ty = "R" -> IF Occupied(p.p, r.sl) THEN [p |-> [p.p EXCEPT !.s[r.sl].m = TRUE], ok |-> p.ok] ELSE p
    [] r.ty = "U" -> IF Occupied(p.p, r.sl) THEN [p |-> [p.p EXCEPT !.s[r.sl].v = r.old], ok |-> p.ok] ELSE p
    [] OTHER -> p
RECURSIVE UndoChain(_, _, _)
UndoChain(p, lg, l) == IF l = -1 \/ ~\E i \in DOMAIN lg : lg[i].lsn = l THEN p
                       ELSE LET r == lg[IdxOf(lg, l)] IN UndoChain(Undo1(p, r), lg, r.prev)
RECURSIVE UndoSeq(_, _, _)
UndoSeq(p, lg, ts) == IF ts = <<>> THEN p ELSE UndoSeq(UndoChain(p, lg, lg[LastIdx(lg, Head(ts))].lsn), lg, Tail(ts))
Perms(S) == {f \in [1..Cardinality(S) -> S] : \A i, j \in 1..Cardinality(S) : i # j => f[i] # f[j]}
MaxLsnOf(lg) == IF lg = <<>> THEN -1 ELSE LET S == {lg[i].lsn : i \in DOMAIN lg} IN CHOOSE m \in S : \A x \in S : x <= m

RecRedo == /\ mode = "redo" /\ pg' = RedoAll(dk, log, 1) /\ dirty' = TRUE /\ mode' = "undo"
           /\ UNCHANGED <<dk, log, fl, pfl, nl, tx, lk, db, nv, nid, crashes, acc, fail, cat>>
(* the code walks its activeTxn map: any order of the losers *)
RecUndo == /\ mode = "undo"
           /\ \E ord \in Perms(Losers(log)) :
                LET u == UndoSeq([p |-> pg, ok |-> TRUE], log, ord) IN
                /\ pg' = u.p /\ fail' = (fail \/ ~u.ok)
           /\ mode' = IF FixGcOrder THEN "flush" ELSE "gc"
           /\ UNCHANGED <<dk, dirty, log, fl, pfl, nl, tx, lk, db, nv, nid, crashes, acc, cat>>
Max2(a, b) == IF a > b THEN a ELSE b
(* the greatest LSN a launch knows of: the log's, and - repaired - the stamp on the catalog's first page *)
Greatest == Max2(MaxLsnOf(log), IF FixStamp THEN cat ELSE -1)
RecFlush == /\ mode = "flush" /\ dk' = pg /\ dirty' = FALSE
            /\ cat' = IF FixStamp THEN Greatest ELSE cat       \* (the catalog page is written with the other pages)
            /\ mode' = IF FixGcOrder THEN "gc" ELSE "done"
            /\ UNCHANGED <<pg, log, fl, pfl, nl, tx, lk, db, nv, nid, crashes, acc, fail>>
(* GCLogFile and SetNextLSN(greatest + 1) ... *)
RecGC == /\ mode = "gc"
         /\ log' = <<>> /\ nl' = Greatest + 1 /\ fl' = 0 /\ pfl' = 0
         /\ mode' = IF FixLsn THEN "seed" ELSE IF FixGcOrder THEN "done" ELSE "flush"
         /\ UNCHANGED <<pg, dk, dirty, tx, lk, db, nv, nid, crashes, acc, fail, cat>>
(* ... and then - a separate write, a crash may fall in between - the record pair that carries the LSN on *)
RecSeed == /\ mode = "seed"
           /\ log' = <<Rec(nl, 0, "B", 0, 0, 0, -1), Rec(nl + 1, 0, "C", 0, 0, 0, nl)>>
           /\ nl' = nl + 2 /\ fl' = 2 /\ pfl' = 2
           /\ mode' = IF FixGcOrder THEN "done" ELSE "flush"
           /\ UNCHANGED <<pg, dk, dirty, tx, lk, db, nv, nid, crashes, acc, fail, cat>>
RecDone == /\ mode = "done" /\ mode' = "run"
           /\ db' = Visible(pg)                 \* whatever was recovered is the committed table from now on
           /\ UNCHANGED <<pg, dk, dirty, log, fl, pfl, nl, tx, lk, nv, nid, crashes, acc, fail, cat>>

Next == \/ \E t \in Txn : Begin(t) \/ Insert(t) \/ CommitStart(t) \/ CommitStep(t) \/ CommitLog(t) \/ CommitRet(t)
                          \/ AbortStart(t) \/ AbortStep(t) \/ AbortEnd(t) \/ \E i \in Slot : MarkDel(t, i) \/ Update(t, i)
        \/ FlushLog \/ Evict \/ CkptPages \/ Crash \/ RecRedo \/ RecUndo \/ RecFlush \/ RecGC \/ RecSeed \/ RecDone
Spec == Init /\ [][Next]_vars

--------------------------------------------------------------------------------
(* C01 / C02 / C20: what a completed recovery hands over is acceptable; recovery never gets stuck *)
Recovered == mode = "done" => Visible(pg) \in acc
NoPanic == ~fail
(* C08: the page on disk never carries a change whose record is not durable *)
PageBehindLog == (mode = "run" /\ dk.lsn >= 0) => (fl > 0 /\ dk.lsn <= log[fl].lsn)
================================================================================
