CONSTANTS
  Txn = {t1}
  NSlot = 2
  MaxVal = 2
  MaxCrash = 2
  MaxLog = 7
  FixAbort = TRUE
  FixUndoSlot = TRUE
  FixCkpt = TRUE
  FixLsn = TRUE
  FixGcOrder = TRUE
  FixRedoUpd = TRUE
  FixStamp = TRUE
  Torn = TRUE
SPECIFICATION Spec
INVARIANTS Recovered NoPanic PageBehindLog
CHECK_DEADLOCK FALSE
