---- MODULE WalRecovery_TTrace_1790378111 ----
EXTENDS WalRecovery_TEConstants, Sequences, TLCExt, WalRecovery, Toolbox, Naturals, TLC

_expression ==
    LET WalRecovery_TEExpression == INSTANCE WalRecovery_TEExpression
    IN WalRecovery_TEExpression!expression
----

_trace ==
    LET WalRecovery_TETrace == INSTANCE WalRecovery_TETrace
    IN WalRecovery_TETrace!trace
----

_inv ==
    ~(
        TLCGet("level") = Len(_TETrace)
        /\
        dirty = (FALSE)
        /\
        acc = ({{1}})
        /\
        tx = ((t1 :> [prev |-> -1, st |-> "n", ws |-> <<>>, k |-> 0, id |-> 0]))
        /\
        log = (<<[v |-> 0, lsn |-> 0, t |-> 0, ty |-> "B", sl |-> 0, old |-> 0, prev |-> -1], [v |-> 0, lsn |-> 1, t |-> 0, ty |-> "C", sl |-> 0, old |-> 0, prev |-> 0]>>)
        /\
        fl = (2)
        /\
        dk = ([lsn |-> -1, s |-> <<[v |-> 0, m |-> FALSE], [v |-> 0, m |-> FALSE]>>])
        /\
        nv = (2)
        /\
        nid = (2)
        /\
        crashes = (1)
        /\
        mode = ("done")
        /\
        fail = (FALSE)
        /\
        pg = ([lsn |-> -1, s |-> <<[v |-> 0, m |-> FALSE], [v |-> 0, m |-> FALSE]>>])
        /\
        pfl = (2)
        /\
        nl = (2)
        /\
        db = ({1})
        /\
        lk = (<<"none", "none">>)
    )
----

_init ==
    /\ lk = _TETrace[1].lk
    /\ fail = _TETrace[1].fail
    /\ nl = _TETrace[1].nl
    /\ dirty = _TETrace[1].dirty
    /\ nv = _TETrace[1].nv
    /\ log = _TETrace[1].log
    /\ mode = _TETrace[1].mode
    /\ pg = _TETrace[1].pg
    /\ db = _TETrace[1].db
    /\ dk = _TETrace[1].dk
    /\ fl = _TETrace[1].fl
    /\ pfl = _TETrace[1].pfl
    /\ acc = _TETrace[1].acc
    /\ tx = _TETrace[1].tx
    /\ crashes = _TETrace[1].crashes
    /\ nid = _TETrace[1].nid
----

_next ==
    /\ \E i,j \in DOMAIN _TETrace:
        /\ \/ /\ j = i + 1
              /\ i = TLCGet("level")
        /\ lk  = _TETrace[i].lk
        /\ lk' = _TETrace[j].lk
        /\ fail  = _TETrace[i].fail
        /\ fail' = _TETrace[j].fail
        /\ nl  = _TETrace[i].nl
        /\ nl' = _TETrace[j].nl
        /\ dirty  = _TETrace[i].dirty
        /\ dirty' = _TETrace[j].dirty
        /\ nv  = _TETrace[i].nv
        /\ nv' = _TETrace[j].nv
        /\ log  = _TETrace[i].log
        /\ log' = _TETrace[j].log
        /\ mode  = _TETrace[i].mode
        /\ mode' = _TETrace[j].mode
        /\ pg  = _TETrace[i].pg
        /\ pg' = _TETrace[j].pg
        /\ db  = _TETrace[i].db
        /\ db' = _TETrace[j].db
        /\ dk  = _TETrace[i].dk
        /\ dk' = _TETrace[j].dk
        /\ fl  = _TETrace[i].fl
        /\ fl' = _TETrace[j].fl
        /\ pfl  = _TETrace[i].pfl
        /\ pfl' = _TETrace[j].pfl
        /\ acc  = _TETrace[i].acc
        /\ acc' = _TETrace[j].acc
        /\ tx  = _TETrace[i].tx
        /\ tx' = _TETrace[j].tx
        /\ crashes  = _TETrace[i].crashes
        /\ crashes' = _TETrace[j].crashes
        /\ nid  = _TETrace[i].nid
        /\ nid' = _TETrace[j].nid

\* Uncomment the ASSUME below to write the states of the error trace
\* to the given file in Json format. Note that you can pass any tuple
\* to `JsonSerialize`. For example, a sub-sequence of _TETrace.
    \* ASSUME
    \*     LET J == INSTANCE Json
    \*         IN J!JsonSerialize("WalRecovery_TTrace_1790378111.json", _TETrace)

=============================================================================

 Note that you can extract this module `WalRecovery_TEExpression`
  to a dedicated file to reuse `expression` (the module in the 
  dedicated `WalRecovery_TEExpression.tla` file takes precedence 
  over the module `WalRecovery_TEExpression` below).

---- MODULE WalRecovery_TEExpression ----
EXTENDS WalRecovery_TEConstants, Sequences, TLCExt, WalRecovery, Toolbox, Naturals, TLC

expression == 
    [
        \* To hide variables of the `WalRecovery` spec from the error trace,
        \* remove the variables below.  The trace will be written in the order
        \* of the fields of this record.
        lk |-> lk
        ,fail |-> fail
        ,nl |-> nl
        ,dirty |-> dirty
        ,nv |-> nv
        ,log |-> log
        ,mode |-> mode
        ,pg |-> pg
        ,db |-> db
        ,dk |-> dk
        ,fl |-> fl
        ,pfl |-> pfl
        ,acc |-> acc
        ,tx |-> tx
        ,crashes |-> crashes
        ,nid |-> nid
        
        \* Put additional constant-, state-, and action-level expressions here:
        \* ,_stateNumber |-> _TEPosition
        \* ,_lkUnchanged |-> lk = lk'
        
        \* Format the `lk` variable as Json value.
        \* ,_lkJson |->
        \*     LET J == INSTANCE Json
        \*     IN J!ToJson(lk)
        
        \* Lastly, you may build expressions over arbitrary sets of states by
        \* leveraging the _TETrace operator.  For example, this is how to
        \* count the number of times a spec variable changed up to the current
        \* state in the trace.
        \* ,_lkModCount |->
        \*     LET F[s \in DOMAIN _TETrace] ==
        \*         IF s = 1 THEN 0
        \*         ELSE IF _TETrace[s].lk # _TETrace[s-1].lk
        \*             THEN 1 + F[s-1] ELSE F[s-1]
        \*     IN F[_TEPosition - 1]
    ]

=============================================================================



Parsing and semantic processing can take forever if the trace below is long.
 In this case, it is advised to uncomment the module below to deserialize the
 trace from a generated binary file.

\*
\*---- MODULE WalRecovery_TETrace ----
\*EXTENDS WalRecovery_TEConstants, IOUtils, WalRecovery, TLC
\*
\*trace == IODeserialize("WalRecovery_TTrace_1790378111.bin", TRUE)
\*
\*=============================================================================
\*

---- MODULE WalRecovery_TETrace ----
EXTENDS WalRecovery_TEConstants, WalRecovery, TLC

trace == 
    <<
    ([dirty |-> FALSE,acc |-> {},tx |-> (t1 :> [prev |-> -1, st |-> "n", ws |-> <<>>, k |-> 0, id |-> 0]),log |-> <<>>,fl |-> 0,dk |-> [lsn |-> -1, s |-> <<[v |-> 0, m |-> FALSE], [v |-> 0, m |-> FALSE]>>],nv |-> 1,nid |-> 1,crashes |-> 0,mode |-> "run",fail |-> FALSE,pg |-> [lsn |-> -1, s |-> <<[v |-> 0, m |-> FALSE], [v |-> 0, m |-> FALSE]>>],pfl |-> 0,nl |-> 0,db |-> {},lk |-> <<"none", "none">>]),
    ([dirty |-> FALSE,acc |-> {},tx |-> (t1 :> [prev |-> 0, st |-> "a", ws |-> <<>>, k |-> 0, id |-> 1]),log |-> <<[v |-> 0, lsn |-> 0, t |-> 1, ty |-> "B", sl |-> 0, old |-> 0, prev |-> -1]>>,fl |-> 0,dk |-> [lsn |-> -1, s |-> <<[v |-> 0, m |-> FALSE], [v |-> 0, m |-> FALSE]>>],nv |-> 1,nid |-> 2,crashes |-> 0,mode |-> "run",fail |-> FALSE,pg |-> [lsn |-> -1, s |-> <<[v |-> 0, m |-> FALSE], [v |-> 0, m |-> FALSE]>>],pfl |-> 0,nl |-> 1,db |-> {},lk |-> <<"none", "none">>]),
    ([dirty |-> TRUE,acc |-> {},tx |-> (t1 :> [prev |-> 1, st |-> "a", ws |-> <<[v |-> 1, ty |-> "I", sl |-> 1, old |-> 0]>>, k |-> 0, id |-> 1]),log |-> <<[v |-> 0, lsn |-> 0, t |-> 1, ty |-> "B", sl |-> 0, old |-> 0, prev |-> -1], [v |-> 1, lsn |-> 1, t |-> 1, ty |-> "I", sl |-> 1, old |-> 0, prev |-> 0]>>,fl |-> 0,dk |-> [lsn |-> -1, s |-> <<[v |-> 0, m |-> FALSE], [v |-> 0, m |-> FALSE]>>],nv |-> 2,nid |-> 2,crashes |-> 0,mode |-> "run",fail |-> FALSE,pg |-> [lsn |-> 1, s |-> <<[v |-> 1, m |-> FALSE], [v |-> 0, m |-> FALSE]>>],pfl |-> 0,nl |-> 2,db |-> {},lk |-> <<t1, "none">>]),
    ([dirty |-> TRUE,acc |-> {},tx |-> (t1 :> [prev |-> 1, st |-> "c", ws |-> <<[v |-> 1, ty |-> "I", sl |-> 1, old |-> 0]>>, k |-> 1, id |-> 1]),log |-> <<[v |-> 0, lsn |-> 0, t |-> 1, ty |-> "B", sl |-> 0, old |-> 0, prev |-> -1], [v |-> 1, lsn |-> 1, t |-> 1, ty |-> "I", sl |-> 1, old |-> 0, prev |-> 0]>>,fl |-> 0,dk |-> [lsn |-> -1, s |-> <<[v |-> 0, m |-> FALSE], [v |-> 0, m |-> FALSE]>>],nv |-> 2,nid |-> 2,crashes |-> 0,mode |-> "run",fail |-> FALSE,pg |-> [lsn |-> 1, s |-> <<[v |-> 1, m |-> FALSE], [v |-> 0, m |-> FALSE]>>],pfl |-> 0,nl |-> 2,db |-> {},lk |-> <<t1, "none">>]),
    ([dirty |-> TRUE,acc |-> {},tx |-> (t1 :> [prev |-> 1, st |-> "c", ws |-> <<[v |-> 1, ty |-> "I", sl |-> 1, old |-> 0]>>, k |-> 0, id |-> 1]),log |-> <<[v |-> 0, lsn |-> 0, t |-> 1, ty |-> "B", sl |-> 0, old |-> 0, prev |-> -1], [v |-> 1, lsn |-> 1, t |-> 1, ty |-> "I", sl |-> 1, old |-> 0, prev |-> 0]>>,fl |-> 0,dk |-> [lsn |-> -1, s |-> <<[v |-> 0, m |-> FALSE], [v |-> 0, m |-> FALSE]>>],nv |-> 2,nid |-> 2,crashes |-> 0,mode |-> "run",fail |-> FALSE,pg |-> [lsn |-> 1, s |-> <<[v |-> 1, m |-> FALSE], [v |-> 0, m |-> FALSE]>>],pfl |-> 0,nl |-> 2,db |-> {},lk |-> <<t1, "none">>]),
    ([dirty |-> TRUE,acc |-> {},tx |-> (t1 :> [prev |-> 2, st |-> "cl", ws |-> <<[v |-> 1, ty |-> "I", sl |-> 1, old |-> 0]>>, k |-> 0, id |-> 1]),log |-> <<[v |-> 0, lsn |-> 0, t |-> 1, ty |-> "B", sl |-> 0, old |-> 0, prev |-> -1], [v |-> 1, lsn |-> 1, t |-> 1, ty |-> "I", sl |-> 1, old |-> 0, prev |-> 0], [v |-> 0, lsn |-> 2, t |-> 1, ty |-> "C", sl |-> 0, old |-> 0, prev |-> 1]>>,fl |-> 3,dk |-> [lsn |-> -1, s |-> <<[v |-> 0, m |-> FALSE], [v |-> 0, m |-> FALSE]>>],nv |-> 2,nid |-> 2,crashes |-> 0,mode |-> "run",fail |-> FALSE,pg |-> [lsn |-> 1, s |-> <<[v |-> 1, m |-> FALSE], [v |-> 0, m |-> FALSE]>>],pfl |-> 0,nl |-> 3,db |-> {},lk |-> <<t1, "none">>]),
    ([dirty |-> TRUE,acc |-> {},tx |-> (t1 :> [prev |-> -1, st |-> "n", ws |-> <<>>, k |-> 0, id |-> 0]),log |-> <<[v |-> 0, lsn |-> 0, t |-> 1, ty |-> "B", sl |-> 0, old |-> 0, prev |-> -1], [v |-> 1, lsn |-> 1, t |-> 1, ty |-> "I", sl |-> 1, old |-> 0, prev |-> 0], [v |-> 0, lsn |-> 2, t |-> 1, ty |-> "C", sl |-> 0, old |-> 0, prev |-> 1]>>,fl |-> 3,dk |-> [lsn |-> -1, s |-> <<[v |-> 0, m |-> FALSE], [v |-> 0, m |-> FALSE]>>],nv |-> 2,nid |-> 2,crashes |-> 0,mode |-> "run",fail |-> FALSE,pg |-> [lsn |-> 1, s |-> <<[v |-> 1, m |-> FALSE], [v |-> 0, m |-> FALSE]>>],pfl |-> 0,nl |-> 3,db |-> {1},lk |-> <<"none", "none">>]),
    ([dirty |-> FALSE,acc |-> {{1}},tx |-> (t1 :> [prev |-> -1, st |-> "n", ws |-> <<>>, k |-> 0, id |-> 0]),log |-> <<>>,fl |-> 0,dk |-> [lsn |-> -1, s |-> <<[v |-> 0, m |-> FALSE], [v |-> 0, m |-> FALSE]>>],nv |-> 2,nid |-> 2,crashes |-> 1,mode |-> "redo",fail |-> FALSE,pg |-> [lsn |-> -1, s |-> <<[v |-> 0, m |-> FALSE], [v |-> 0, m |-> FALSE]>>],pfl |-> 0,nl |-> 3,db |-> {1},lk |-> <<"none", "none">>]),
    ([dirty |-> TRUE,acc |-> {{1}},tx |-> (t1 :> [prev |-> -1, st |-> "n", ws |-> <<>>, k |-> 0, id |-> 0]),log |-> <<>>,fl |-> 0,dk |-> [lsn |-> -1, s |-> <<[v |-> 0, m |-> FALSE], [v |-> 0, m |-> FALSE]>>],nv |-> 2,nid |-> 2,crashes |-> 1,mode |-> "undo",fail |-> FALSE,pg |-> [lsn |-> -1, s |-> <<[v |-> 0, m |-> FALSE], [v |-> 0, m |-> FALSE]>>],pfl |-> 0,nl |-> 3,db |-> {1},lk |-> <<"none", "none">>]),
    ([dirty |-> TRUE,acc |-> {{1}},tx |-> (t1 :> [prev |-> -1, st |-> "n", ws |-> <<>>, k |-> 0, id |-> 0]),log |-> <<>>,fl |-> 0,dk |-> [lsn |-> -1, s |-> <<[v |-> 0, m |-> FALSE], [v |-> 0, m |-> FALSE]>>],nv |-> 2,nid |-> 2,crashes |-> 1,mode |-> "flush",fail |-> FALSE,pg |-> [lsn |-> -1, s |-> <<[v |-> 0, m |-> FALSE], [v |-> 0, m |-> FALSE]>>],pfl |-> 0,nl |-> 3,db |-> {1},lk |-> <<"none", "none">>]),
    ([dirty |-> FALSE,acc |-> {{1}},tx |-> (t1 :> [prev |-> -1, st |-> "n", ws |-> <<>>, k |-> 0, id |-> 0]),log |-> <<>>,fl |-> 0,dk |-> [lsn |-> -1, s |-> <<[v |-> 0, m |-> FALSE], [v |-> 0, m |-> FALSE]>>],nv |-> 2,nid |-> 2,crashes |-> 1,mode |-> "gc",fail |-> FALSE,pg |-> [lsn |-> -1, s |-> <<[v |-> 0, m |-> FALSE], [v |-> 0, m |-> FALSE]>>],pfl |-> 0,nl |-> 3,db |-> {1},lk |-> <<"none", "none">>]),
    ([dirty |-> FALSE,acc |-> {{1}},tx |-> (t1 :> [prev |-> -1, st |-> "n", ws |-> <<>>, k |-> 0, id |-> 0]),log |-> <<[v |-> 0, lsn |-> 0, t |-> 0, ty |-> "B", sl |-> 0, old |-> 0, prev |-> -1], [v |-> 0, lsn |-> 1, t |-> 0, ty |-> "C", sl |-> 0, old |-> 0, prev |-> 0]>>,fl |-> 2,dk |-> [lsn |-> -1, s |-> <<[v |-> 0, m |-> FALSE], [v |-> 0, m |-> FALSE]>>],nv |-> 2,nid |-> 2,crashes |-> 1,mode |-> "done",fail |-> FALSE,pg |-> [lsn |-> -1, s |-> <<[v |-> 0, m |-> FALSE], [v |-> 0, m |-> FALSE]>>],pfl |-> 2,nl |-> 2,db |-> {1},lk |-> <<"none", "none">>])
    >>
----


=============================================================================

---- MODULE WalRecovery_TEConstants ----
EXTENDS WalRecovery

CONSTANTS t1

=============================================================================

---- CONFIG WalRecovery_TTrace_1790378111 ----
CONSTANTS
    Txn = { t1 }
    NSlot = 2
    MaxVal = 3
    MaxCrash = 3
    MaxLog = 9
    FixAbort = TRUE
    FixUndoSlot = TRUE
    FixCkpt = TRUE
    FixLsn = TRUE
    FixGcOrder = TRUE
    FixRedoUpd = TRUE
    Torn = TRUE
    t1 = t1

INVARIANT
    _inv

CHECK_DEADLOCK
    \* CHECK_DEADLOCK off because of PROPERTY or INVARIANT above.
    FALSE

INIT
    _init

NEXT
    _next

CONSTANT
    _TETrace <- _trace

ALIAS
    _expression
=============================================================================
\* Generated on Fri Sep 25 23:15:13 UTC 2026