CONSTANTS
  Txn = {t1, t2}
  NSlot = 2
  MaxVal = 2
  MaxCrash = 1
  MaxLog = 8
  FixAbort = TRUE
  FixUndoSlot = TRUE
  FixCkpt = TRUE
  FixLsn = TRUE
  FixGcOrder = TRUE
  FixRedoUpd = TRUE
  FixStamp = TRUE
  Torn = TRUE
SPECIFICATION Spec
INVARIANTS Recovered NoPanic PageBehindLog
CHECK_DEADLOCK FALSE
