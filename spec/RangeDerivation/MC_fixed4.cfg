CONSTANTS
  Lo = 1
  Hi = 4
  MaxLen = 4
  ResidualAlways = TRUE
SPECIFICATION Spec
