CONSTANTS
  Lo = 1
  Hi = 4
  MaxLen = 3
  ResidualAlways = FALSE
SPECIFICATION Spec
