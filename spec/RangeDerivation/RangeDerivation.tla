--------------------------- MODULE RangeDerivation ---------------------------
(***************************************************************************)
(* L1 specification of how selinger_optimizer.go turns the conjuncts on an *)
(* indexed column into an index range scan:                                 *)
(*   Range.Update (L75-121)   folds the conjuncts, in the order the         *)
(*                            optimizer pops them, into [Min, Max] with     *)
(*                            inclusiveness flags - "=" and ">=" overwrite, *)
(*                            "<", "<=", ">" keep the tighter bound, "<>"   *)
(*                            contributes nothing                           *)
(*   findBestScan             scans the index over [Min, Max] INCLUSIVELY   *)
(*                            and puts the residual selection on top:       *)
(*                            Residual = "always" (repaired) or "only when  *)
(*                            a bound is exclusive" (pinned tree)           *)
(* Checked for ALL conjunct lists up to length MaxLen over a small ordered  *)
(* domain: the index-path answer equals the reference answer (C06).         *)
(* -Inf / +Inf are Lo - 1 and Hi + 1.                                       *)
(***************************************************************************)
EXTENDS Integers, Sequences, FiniteSets, TLC

CONSTANTS Lo, Hi, MaxLen, ResidualAlways

D == Lo..Hi
Ops == {"=", "<>", "<", "<=", ">", ">="}
Conj == [op : Ops, c : D]
NegInf == Lo - 1
PosInf == Hi + 1

Holds(x, q) == CASE q.op = "=" -> x = q.c [] q.op = "<>" -> x # q.c [] q.op = "<" -> x < q.c
                 [] q.op = "<=" -> x <= q.c [] q.op = ">" -> x > q.c [] q.op = ">=" -> x >= q.c
Answer(qs) == {x \in D : \A i \in DOMAIN qs : Holds(x, qs[i])}

(* Range.Update as coded *)
Upd(r, q) ==
  CASE q.op = "=" -> [min |-> q.c, max |-> q.c, mini |-> TRUE, maxi |-> TRUE]
    [] q.op = "<>" -> r
    [] q.op = "<" -> IF r.max = PosInf \/ q.c < r.max THEN [r EXCEPT !.max = q.c, !.maxi = FALSE] ELSE r
    [] q.op = ">" -> IF r.min = NegInf \/ r.min < q.c THEN [r EXCEPT !.min = q.c, !.mini = FALSE] ELSE r
    [] q.op = "<=" -> IF r.max = PosInf \/ q.c <= r.max THEN [r EXCEPT !.max = q.c, !.maxi = TRUE] ELSE r
    [] q.op = ">=" -> [r EXCEPT !.min = q.c, !.mini = TRUE]
RECURSIVE Fold(_, _)
Fold(r, qs) == IF qs = <<>> THEN r ELSE Fold(Upd(r, Head(qs)), Tail(qs))
Range0 == [min |-> NegInf, max |-> PosInf, mini |-> FALSE, maxi |-> FALSE]

(* the index scan is inclusive at both ends; the residual selection re-applies all conjuncts *)
IndexPathAnswer(qs) ==
  LET r == Fold(Range0, qs)
      scanned == {x \in D : r.min <= x /\ x <= r.max}
      residual == ResidualAlways \/ ~r.mini \/ ~r.maxi IN
  IF residual THEN {x \in scanned : \A i \in DOMAIN qs : Holds(x, qs[i])} ELSE scanned

Lists == UNION {[1..n -> Conj] : n \in 1..MaxLen}
(* every endpoint comes from one conjunct, so the scanned interval is a superset of the answer *)
ASSUME Superset == \A qs \in Lists : Answer(qs) \subseteq {x \in D : Fold(Range0, qs).min <= x /\ x <= Fold(Range0, qs).max}
ASSUME SameAnswer == \A qs \in Lists : IndexPathAnswer(qs) = Answer(qs)

VARIABLE x
Spec == x = 0 /\ [][x' = x]_x
===============================================================================
